#!/bin/bash
# Final confirmation as the brief prescribes: apply each kept change to /repo itself, run the check of the
# property it breaks (quick tier), undo it straight afterwards. Writes seeded/<id>/repo_run.json.
cd /verif
for d in ${SEEDLIST:-seeded/C*}; do
  id=$(basename $d); prop=${id:0:3}
  [ -f $d/repo_run.json ] && continue
  git -C /repo apply $PWD/$d/patch.diff || { echo "{\"applies\": false}" > $d/repo_run.json; git -C /repo checkout -- .; continue; }
  t0=$(date +%s)
  out=$(./check $prop --tier quick 2>&1); rc=$?
  t1=$(date +%s)
  git -C /repo checkout -- .
  nviol=$(echo "$out" | grep -c '^VIOLATION')
  sigs=$(python3 -c "import json;print(json.dumps(json.load(open('evidence/$prop.json'))['coverage'].get('violation_signatures',[])[:8]))" 2>/dev/null || echo '[]')
  echo "{\"applied_to\": \"/repo (working tree, undone afterwards)\", \"command\": \"./check $prop --tier quick\", \"exit\": $rc, \"violation_lines\": $nviol, \"signatures\": $sigs, \"seconds\": $((t1-t0))}" > $d/repo_run.json
  echo "$id exit=$rc violations=$nviol $((t1-t0))s"
done
git -C /repo status --short | head
echo CONFIRM-DONE
