#!/usr/bin/env python3
"""Regenerates /verif/MANIFEST.json from the table below (keeps it schema-valid at all times)."""
import json, os, sys
ROOT = os.path.dirname(os.path.dirname(os.path.abspath(__file__)))

# id -> (level, technique, level text, level note, design ref)
CHECKS = {
 "C01": ("fault_enumeration", "runtime monitor: conservation of unique report ids over the recorded token log, every Break position enumerated",
         "Every execution of a hostile generated workload (all catalogue and generated subjects, both value sources) is recorded through a recording error type whose values are linear tokens; the oracle checks that the multiset of report ids created equals the multiset held by the returned error, and that Ok is returned only if none was created. For each payload every BreakFrom(k) answer script is enumerated, plus random scripts. Held on the executions observed, not a proof.",
         "Trusted: the recording error type and the instrumented value source in /verif/harness/monitor; the property's premise that the error type keeps what it is handed.", "§4 C01"),
 "C03": ("fault_enumeration", "runtime monitor: run-vs-run trace comparison for every Break position + local after-Break rule on recorded traces",
         "For every generated case the keep-going trace is recorded, then the run is repeated under BreakFrom(k) for every decision index k: the prefix must be identical, after the stop only hand-overs of the already built error may occur, and k=0 must return exactly the first keep-going report. Random scripts and answer policies are checked against the local after-Break rule. Long sequences / maps (1024..3000 entries, faults at and around indices 255, 1023, 2047) are enumerated the same way.",
         "Trusted: the monitor kit; deserr is deterministic so run-vs-run comparison is meaningful.", "§4 C03"),
 "C04": ("exploration", "runtime monitor: every recorded report and hand-over resolved against the original payload; hand-over sets vs reference model",
         "Every report and every hand-over of every monitored run is checked against the payload (location resolves, quoted value IS the node there, missing really missing, unknown really present ...); per report the set of hand-over locations is compared with the reference model (keep-going run), and under every other answer script (always-Break, BreakFrom(k), random, nine answer policies by kind of decision) every hand-over must be at a position the types require, the first at the deepest. Faults are placed systematically at every position of valid payloads.",
         "Trusted: monitor kit, reference model of hand-over positions (Appendix A), unique keys in this workload.", "§4 C04"),
  "C02": ("exploration", "runtime monitor: recorded report multiset of the keep-going run vs reference interpreter; examine events of the instrumented value source",
         "Every keep-going execution of random multi-fault payloads, of every single and double structural mutation of valid payloads and of the per-field state product is recorded; the multiset of (digest, location) reports held by the returned error must equal the reference interpreter's, Unexpected messages must state the model's facts, and every node the model deserializes must have been examined.",
         "Trusted: monitor kit and the reference interpreter (Appendix A), itself validated by agreement with the implementation on every fault-free control and by the break experiments.", "§4 C02"),
 "C06": ("exploration", "runtime monitor: Ok projections and reports of container targets vs reference interpreter over systematic length/position mutations",
         "For every container shape the projection of the Ok value (order, set/map semantics, None-iff-null) and the reports (arity, key parse) are compared with the reference interpreter over valid payloads of lengths 0..6 and every single structural mutation of them, plus repeated / aliased map keys, duplicate set elements, zero-sized element types and non-finite floats through the second value source. A panic where an outcome is specified is a violation.",
         "Trusted: ToProj projections of std types (monitor::proj), reference interpreter.", "§4 C06"),
 "C07": ("exploration", "runtime monitor: sentinel values under every plausible key, Ok projection vs reference interpreter with hand-written / generator-computed effective keys",
         "Payloads over the union of plausible keys of every field, each carrying its own sentinel, identify the key each field was read from; compared with the reference interpreter whose effective keys never come from the macro.",
         "Trusted: the hand-written keys of the catalogue and the generator's renaming rules.", "§4 C07"),
 "C08": ("exploration", "runtime monitor: all 2^n key subsets per struct-like body, reports / custom-function calls / values / examine events vs reference interpreter",
         "All subsets of keys deleted, crossed with nulling and corrupting another key and with entries named like skipped fields; missing reports, custom missing-field calls, defaults, map and never-examined skipped entries are compared with the reference interpreter; model-free, with every key presented twice in turn, a present key is never reported missing.",
         "Trusted: reference interpreter; instrumented value source for the never-examined claim.", "§4 C08"),
 "C09": ("exploration", "runtime monitor: UnknownKey reports / custom calls vs reference interpreter + metamorphic invariance under added members",
         "With deny_unknown_fields the exact reports and custom-function calls are compared with the reference interpreter; without it, adding arbitrary members (near misses, skipped names) to every object must leave value and report multiset unchanged.",
         "Trusted: reference interpreter for (a); nothing but determinism for (b).", "§4 C09"),
 "C10": ("exploration", "runtime monitor: every variant name x spelling x tag kind x position, selected variant and reports vs reference interpreter",
         "For every variant of every enum the tag/string is given in nine spellings, as a non-string of every kind, missing, under a case-flipped key, at three positions, with own / foreign / no fields; the selected variant and the reports are compared with the reference interpreter.",
         "Trusted: reference interpreter and hand-written effective variant names.", "§4 C10"),
 "C11": ("exploration", "runtime monitor: call log of instrumented user functions (count, argument, location, order) vs reference interpreter + local trace rules",
         "Instrumented from/try_from/map/validate functions log every call; the call multiset, foreign reports, hand-over sets and values are compared with the reference interpreter, which error type receives each report first is compared too, and model-free trace rules check the exactly-once crossing of field-level error types, that nothing below a container happens after its validate, and (under nine answer policies) the hand-over chain and that no extra user function runs.",
         "Trusted: instrumented functions mirrored in refmodel::vf.", "§4 C11"),
 "C15": ("exploration", "runtime monitor: metamorphic comparison of recorded runs under all member permutations (no model)",
         "Every object of every generated payload is presented in all permutations of its members (<= 5 members, random beyond) through the order-preserving instrumented source; Ok projections, the multisets of reports received and held, and the multiset of (report, hand-over location) pairs must be equal. Bulky cases flood one object with 17..40 stray members.",
         "Trusted: determinism of deserr; unique keys.", "§4 C15"),
 "C12": ("fault_enumeration", "runtime monitor: catch_unwind around every call of a hostile workload + observed child processes on small stacks at depth 128",
         "Every deserialize call of a hostile workload (all subjects x adversarial payloads x answer scripts x value sources x built-in error types fed by serde_json and by the second value source) runs under catch_unwind; a child process runs all subjects on depth-128 nestings on 2 MiB and 8 MiB stacks and its termination status is observed. A watchdog on per-thread CPU time (20 s inside one call; 120 s for a child) reports calls that do not return as did-not-return instead of waiting for them; the recording error types call the location accessors on every location they receive.",
         "Trusted: panic = unwinding panic (panic=abort builds are out of scope); depth limited to 128 as the property states.", "§4 C12"),
 "C14": ("exploration", "runtime monitor: Display of the built-in error types vs the first structured report of the recorded keep-going run; path read-back",
         "For every failing payload the JsonError / QueryParamError message is checked (by containment) against the first report of the recorded keep-going run: rendered path, offending value as JSON text, missing field, unknown key/value with every alternative, suggestion iff an independent Damerau-Levenshtein spec gives one, lengths, detail message; the path parsed back from the JsonError message must resolve to the quoted value.",
         "Trusted: monitor kit; independent edit-distance spec in refmodel::specs; wording is never compared.", "§4 C14"),
 "C20": ("exploration", "runtime monitor: differential execution of the deserr extractors against the frameworks' own extractors composed with deserr::deserialize",
         "Every generated request (valid / ill-typed / malformed bodies, rejection messages of 9..40 KiB, 24 content types, body limits, chunking, query strings, a second extraction from the same request after its URI was rewritten) is run through the framework's own extractor and through the deserr extractor; status, content type, body bytes, the identity of the carried error and the accepted value must agree with framework extractor composed with deserr::deserialize.",
         "Trusted: actix-web / axum at the versions in Cargo.lock; no socket or router involved; a defect shared by deserialize and the extractors is invisible to a differential oracle.", "§4 C20"),
 "C05": ("exploration", "runtime monitor: every scalar target driven over exhaustive integer ranges and boundary sets, outcome vs independent i128/u128 arithmetic and exact-rounding spec",
         "All 30 scalar targets are driven through both value sources over all integers in [-70000, 70000], every 2^k-1/2^k/2^k+1 up to 2^64, every MIN/MAX +-1, ~2600 floats, strings of 0..4 scalars and every non-scalar kind; acceptance, exact value (floats bit-for-bit against a decimal-string rounding spec), accepted-kind sets and the facts in domain messages are checked by independent arithmetic.",
         "Trusted: Rust's str::parse::<f32/f64> as the correctly rounded reference; recording error type.", "§4 C05"),
 "C13": ("exploration", "runtime monitor: documents generated as text, round trips and kind agreement observed; classification from literal syntax",
         "Every document of <= 4 nodes over a scalar alphabet, 58 numeric boundary literals, random documents, and programmatically built documents nested up to 2000 levels or 70000 elements wide are and sent through Deserr for serde_json::Value and From<Value>; equality as values and as serialised text, kind() vs into_value().kind() at every node, and number classification against the literal's syntax.",
         "Trusted: serde_json's parser; the one documented corner that serde_json holds `-0` as a float.", "§4 C13"),
 "C16": ("exploration", "runtime monitor over the compiler's JSON diagnostics stream: every poisoned derive input must be rejected by a macro-issued diagnostic, every twin must compile",
         "A matrix of 206 rejection causes (cause x level x spelling x item kind), each in the presence of every legal other attribute of its level and with foreign inert attributes (tool attributes, doc, cfg_attr, serde) before / between / after, is instantiated around seed-varied base items; the real macro runs inside cargo check and the diagnostics log is attributed to items by span. Every poisoned item needs an error without rustc code (a compile_error! from the derive), no diagnostic may mention a panic, every unpoisoned twin must compile (else inconclusive).",
         "Trusted: rustc's JSON diagnostics and span attribution; diagnostics are those of the pinned stable toolchain.", "§4 C16"),
 "C17": ("exploration", "runtime monitor: exhaustive enumeration of kind sequences, phrase parsed and compared with an independent set-based spec",
         "All 37 448 sequences of length 1..5, the empty list and every permutation of every subset of size 6-8 are passed to value_kinds_description_json; outputs must depend on the set only, parse as a / a or b / a, b, or c over the pinned vocabulary, name exactly the set (number / integer merging) in one consistent order.",
         "Trusted: the item vocabulary pinned by the repository's own snapshot test.", "§4 C17"),
 "C18": ("exploration", "runtime monitor: did_you_mean vs an independent true Damerau-Levenshtein implementation, exhaustive over a 3-letter alphabet up to length 6",
         "All 1093^2 (received, candidate) pairs over {a,b,c} up to length 6 plus random multi-candidate lists (0..6 names, one case in fifty 33..80), ties, long lists with ties, strings of 246..540 bytes, multi-byte strings and characters that escaping rewrites, around every budget threshold; result must be empty or the earliest accepted string at minimal true DL distance within the byte-length budget.",
         "Trusted: the independent distance implementation (self-checked against breadth-first search over edits at start-up).", "§4 C18"),
 "C19": ("exploration", "runtime monitor: real push_key/push_index chains for all paths of <= 6 steps, accessors compared with the pushed steps",
         "All 55 987 paths of up to 6 steps over 3 keys and 3 indices plus random paths up to length 200 (keys from pointer syntaxes, repeated keys, indices around isize::MAX) are built with real borrow chains, every push and query under catch_unwind (a panic is a violation with its path); to_owned (via Debug), is_origin, first_field, last_field are compared with the list of pushed steps.",
         "Trusted: the Debug rendering of ValuePointer (its component type is not exported).", "§4 C19"),
}
PENDING = {
}
ALL = ["C%02d" % i for i in range(1, 21)]

def main():
    checks = []
    for pid in ALL:
        if pid not in CHECKS:
            continue
        level, tech, text, note, ref = CHECKS[pid]
        checks.append({
            "property_id": pid,
            "quick_cmd": f"./check {pid} --tier quick",
            "thorough_cmd": f"./check {pid} --tier thorough",
            "evidence_file": f"/verif/evidence/{pid}.json",
            "replay_cmd_template": f"./check {pid} --replay {{path}}",
            "engine": {"C20": "http", "C16": "c16", "C05": "vdirect", "C13": "vdirect", "C17": "vdirect", "C18": "vdirect", "C19": "vdirect"}.get(pid, "harness"),
            "level_claimed": {"category": level, "text": text, "design_ref": ref},
            "level_note": note,
            "technique": tech,
        })
    na = [{"property_id": p, "reason": PENDING.get(p, "check not completed yet (construction order in DESIGN.md); will be claimed once its monitor is built and validated")}
          for p in ALL if p not in CHECKS]
    m = {
        "version": 1,
        "setup_cmd": "./setup.sh",
        "hooks": {
            "guard": "--cfg deserr_verif (unused: no source hook was needed)",
            "enable": "none: every observation point is a public extension point of deserr (user-supplied error type, value source and attribute functions); checks build /repo's working tree as a path dependency",
            "baseline_off_cmd": "cd /repo && cargo test --workspace --no-fail-fast --offline",
            "source_commits": [],
            "add_only": True,
        },
        "engines": [
            {"name": "harness", "path": "/verif/harness", "serves_properties": sorted(k for k in CHECKS if k not in ("C05", "C13", "C16", "C17", "C18", "C19", "C20")),
             "kind_free_text": "Rust workspace: program generator (gen), recording error types + instrumented value source (monitor), reference interpreter (refmodel), subject catalogue, per-property drivers; runs the real deserr code from /repo"},
            {"name": "vdirect", "path": "/verif/harness/vdirect", "serves_properties": ["C05", "C13", "C17", "C18", "C19"], "kind_free_text": "direct oracles over public functions (independent arithmetic / edit distance / phrase spec)"},
            {"name": "c16", "path": "/verif/c16", "serves_properties": ["C16"], "kind_free_text": "Python: derive-input matrix generator + cargo check diagnostics monitor"},
            {"name": "http", "path": "/verif/http", "serves_properties": ["C20"], "kind_free_text": "standalone crate driving the actix-web / axum extractors with futures::executor::block_on"},
        ],
        "checks": checks,
        "not_applicable": na,
        "notes": "Technique family: runtime monitoring. Verdicts are three-valued (exit 0 held / 1 violation / 2 inconclusive). Known findings: /verif/known_findings.json.",
    }
    with open(os.path.join(ROOT, "MANIFEST.json"), "w") as f:
        json.dump(m, f, indent=1)
        f.write("\n")
    try:
        import jsonschema
        jsonschema.validate(m, json.load(open("/root/.vp/MANIFEST.schema.json")))
        print("MANIFEST.json valid;", len(checks), "checks,", len(na), "not_applicable")
    except ImportError:
        print("written (jsonschema not importable here)")

main()
