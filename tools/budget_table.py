#!/usr/bin/env python3
"""Prints a markdown table of what the last run of every check covered (from /verif/evidence/*.json)."""
import json, glob, sys
rows = []
for f in sorted(glob.glob((sys.argv[1] if len(sys.argv) > 1 else "/verif/evidence") + "/C*.json")):
    e = json.load(open(f))
    c = e["coverage"]
    rows.append((e["property_id"], e["tier"], e["seed"], c["evaluations"], c["distinct_nontrivial"], c.get("generated_programs", "–"), "yes" if c.get("exhaustive") else "no", e["wall_s"], e.get("violations", 0)))
print("| id | tier | seed | evaluations | distinct non-trivial | generated programs | exhaustive part complete | wall s (run only) | violations |")
print("|---|---|---|---|---|---|---|---|---|")
for r in rows:
    print("| " + " | ".join(str(x) for x in r) + " |")
