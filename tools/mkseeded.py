#!/usr/bin/env python3
"""Builds /verif/seeded/<ID>-<n>/ from the seeding agents' outputs (/tmp/seed-<ID>/) and the evaluation results
(/tmp/mut/results/<ID>-<n>.json). Only changes that were confirmed here are kept."""
import json, os, glob, shutil, re, sys
OUT = "/verif/seeded"
os.makedirs(OUT, exist_ok=True)
index = []
for f in sorted(glob.glob("/tmp/mut/results/C*-*.json")):
    tag = os.path.basename(f)[:-5]
    pid, n = tag.split("-")
    r = json.load(open(f))
    src = f"/tmp/seed-{pid}"
    confirmed = r.get("applies") and r.get("baseline_with_patch", {}).get("ok") and r.get("demo_clean_passes") and r.get("demo_patched_fails")
    if not confirmed:
        print("NOT CONFIRMED, skipped:", tag, {k: r.get(k) for k in ("applies", "baseline_with_patch", "demo_clean_passes", "demo_patched_fails")})
        continue
    d = f"{OUT}/{tag}"
    os.makedirs(d, exist_ok=True)
    shutil.copy(f"{src}/patch{n}.diff", f"{d}/patch.diff")
    demo = None
    for ext in ("rs", "sh"):
        if os.path.exists(f"{src}/demo{n}.{ext}"):
            demo = f"demo.{ext}"
            shutil.copy(f"{src}/demo{n}.{ext}", f"{d}/{demo}")
    notes = open(f"{src}/meta{n}.md").read() if os.path.exists(f"{src}/meta{n}.md") else ""
    if notes:
        open(f"{d}/notes.md", "w").write(notes)
    caught = {c: v["signatures"][:6] for c, v in r["checks"].items() if v["exit"] == 1}
    meta = {
        "id": tag,
        "breaks_property": pid,
        "files_touched": r.get("touched"),
        "needs_to_manifest": "see notes.md (written by the seeding agent, which saw only the property text and its own scratch worktree)",
        "confirmed_here": {
            "how": "tools/seedrun.py in a scratch worktree of /repo HEAD: patch applies; `cargo test --offline -p deserr` passes with the patch; the demonstration passes on the clean tree and fails with the patch",
            "baseline_tests_passed_with_patch": r["baseline_with_patch"]["passed"],
            "demo_passes_clean": r["demo_clean_passes"],
            "demo_fails_patched": r["demo_patched_fails"],
        },
        "checks_run": {c: {"exit": v["exit"], "n_violation_signatures": v["n_signatures"], "secs": v["secs"]} for c, v in r["checks"].items()},
        "caught_by": caught,
        "caught_by_own_property_check": pid in caught,
    }
    json.dump(meta, open(f"{d}/meta.json", "w"), indent=1)
    index.append((tag, pid in caught, sorted(caught.keys())))
print("| seeded change | caught by its own property's check | all checks that fired (quick tier) |")
print("|---|---|---|")
for tag, own, cs in index:
    print(f"| {tag} | {'yes' if own else '**no**'} | {', '.join(cs) if cs else '**none**'} |")
