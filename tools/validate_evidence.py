#!/usr/bin/env python3
import json, sys, glob, jsonschema
schema = json.load(open("/root/.vp/EVIDENCE.schema.json"))
ok = True
for f in sorted(glob.glob("/verif/evidence/*.json")):
    try:
        jsonschema.validate(json.load(open(f)), schema)
        print("ok   ", f)
    except Exception as e:
        ok = False
        print("BAD  ", f, str(e)[:200])
sys.exit(0 if ok else 1)
