#!/usr/bin/env python3
"""Evaluate one seeded change against the checks, on scratch copies (never touches /repo or /verif state).

  seedrun.py <patch.diff> <demo file or ''> <checks: comma list | auto> [--no-confirm]

Steps: (1) confirm in a scratch worktree of /repo's HEAD that the patch applies, the 45 baseline tests still
pass, the demo fails with the patch and passes without it; (2) run the registered checks from a scratch copy of
/verif whose deserr dependency points at the patched scratch worktree; (3) report per check: exit code and
violation signatures. Scratch state lives under /tmp/mut and is reused between calls (incremental builds).
"""
import json, os, re, subprocess, sys, time, shutil, glob

MUT = os.environ.get("MUT_DIR", "/tmp/mut")
REPO = f"{MUT}/repo"
VERIF = f"{MUT}/verif"
ENV = dict(os.environ, CARGO_NET_OFFLINE="true", CARGO_TERM_COLOR="never", VERIF_REPO=os.environ.get("MUT_DIR", "/tmp/mut") + "/repo")

def sh(cmd, cwd=None, timeout=3600, env=None):
    p = subprocess.run(cmd, shell=True, cwd=cwd, stdout=subprocess.PIPE, stderr=subprocess.STDOUT, text=True, timeout=timeout, env=env or ENV)
    return p.returncode, p.stdout

def ensure_repo():
    os.makedirs(MUT, exist_ok=True)
    head = sh("git -C /repo rev-parse HEAD")[1].strip()
    if not os.path.isdir(REPO):
        rc, out = sh(f"git -C /repo worktree add --detach {REPO} HEAD")
        assert rc == 0, out
    sh("git checkout -q -- . && git clean -fdq -e target", cwd=REPO)
    cur = sh("git rev-parse HEAD", cwd=REPO)[1].strip()
    if cur != head:
        rc, out = sh(f"git checkout -q --detach {head}", cwd=REPO)
        assert rc == 0, out

def sync_verif():
    os.makedirs(VERIF, exist_ok=True)
    src = os.environ.get("VERIF_SRC") or ("/tmp/verif-frozen" if os.path.isdir("/tmp/verif-frozen") else "/verif")
    rc, out = sh(f"rsync -a --delete --exclude target --exclude work --exclude replays --exclude .git --exclude evidence {src}/ {VERIF}/")
    assert rc == 0, out
    os.makedirs(f"{VERIF}/evidence", exist_ok=True)
    for f in [f"{VERIF}/harness/Cargo.toml", f"{VERIF}/http/Cargo.toml", f"{VERIF}/harness/gen/src/main.rs", f"{VERIF}/check", f"{VERIF}/c16/c16.py", f"{VERIF}/setup.sh"]:
        s = open(f).read()
        s2 = s.replace('path = "/repo"', f'path = "{REPO}"').replace('path = \\"/repo\\"', f'path = \\"{REPO}\\"').replace("/repo/Cargo.lock", f"{REPO}/Cargo.lock")
        if f.endswith("c16.py"):
            s2 = s2.replace('"/repo"', f'"{REPO}"')
        if s2 != s:
            open(f, "w").write(s2)

def tests_pass():
    rc, out = sh("cargo test --offline -p deserr 2>&1", cwd=REPO, timeout=1800)
    passed = sum(int(m.group(1)) for m in re.finditer(r"test result: \w+\. (\d+) passed", out))
    failed = sum(int(m.group(1)) for m in re.finditer(r"test result: \w+\. \d+ passed; (\d+) failed", out))
    return rc == 0 and failed == 0, passed, failed, out

def run_demo(demo):
    if demo.endswith(".sh"):
        rc, out = sh(f"bash {demo}", cwd=os.path.dirname(demo), timeout=1800)
        return rc, out
    shutil.copy(demo, f"{REPO}/tests/seed_demo.rs")
    src = open(demo).read()
    feats = " --features actix-web,axum" if ("actix" in src or "axum" in src) else ""
    rc, out = sh(f"cargo test --offline -p deserr{feats} --test seed_demo 2>&1", cwd=REPO, timeout=2400)
    os.remove(f"{REPO}/tests/seed_demo.rs")
    return rc, out

def main():
    patch, demo, checks = sys.argv[1], sys.argv[2], sys.argv[3]
    confirm = "--no-confirm" not in sys.argv
    ensure_repo()
    result = {"patch": patch, "demo": demo}
    if demo and demo.endswith(".sh"):
        # demo scripts written by the seeding agents refer to their own worktree; point them at ours
        s = open(demo).read()
        demo2 = f"{MUT}/demo.sh"
        open(demo2, "w").write(re.sub(r"/tmp/w[t0-9]+-C\d+", REPO, s))
        demo = demo2
    if confirm and demo:
        rc, out = run_demo(demo)
        result["demo_clean_passes"] = (rc == 0)
        if rc != 0:
            result["demo_clean_output"] = out[-1500:]
    rc, out = sh(f"git apply {patch}", cwd=REPO)
    if rc != 0:
        rc, out = sh(f"git apply --3way {patch}", cwd=REPO)
    result["applies"] = (rc == 0)
    if rc != 0:
        result["apply_output"] = out[-800:]
        print(json.dumps(result, indent=1))
        return
    touched = sh("git diff --name-only", cwd=REPO)[1].split()
    result["touched"] = touched
    if confirm:
        ok, passed, failed, out = tests_pass()
        result["baseline_with_patch"] = {"ok": ok, "passed": passed, "failed": failed}
        if not ok:
            result["baseline_output"] = out[-1500:]
        if demo:
            rc, out = run_demo(demo)
            result["demo_patched_fails"] = (rc != 0)
    sync_verif()
    if checks == "auto":
        ids = ["C%02d" % i for i in range(1, 20) if i != 16]
        if any(t.startswith("derive/") for t in touched):
            ids.append("C16")
        if any("actix" in t or "axum" in t or "errors/json" in t for t in touched):
            ids.append("C20")
    else:
        ids = checks.split(",")
    res = {}
    for cid in ids:
        t0 = time.time()
        try:
            rc, out = sh(f"./check {cid} --tier quick", cwd=VERIF, timeout=1500)
        except subprocess.TimeoutExpired:
            rc, out = 99, "TIMEOUT"
        sigs = []
        try:
            ev = json.load(open(f"{VERIF}/evidence/{cid}.json"))
            sigs = ev["coverage"].get("violation_signatures", [])
        except Exception:
            pass
        inc = [l for l in out.splitlines() if l.startswith("INCONCLUSIVE")]
        res[cid] = {"exit": rc, "signatures": sigs[:12], "n_signatures": len(sigs), "inconclusive": inc[:2], "secs": round(time.time() - t0, 1)}
        try:
            os.remove(f"{VERIF}/evidence/{cid}.json")
        except OSError:
            pass
    result["checks"] = res
    result["caught_by"] = [c for c, r in res.items() if r["exit"] == 1]
    sh("git checkout -q -- . && git clean -fdq -e target", cwd=REPO)
    print(json.dumps(result, indent=1))

main()
