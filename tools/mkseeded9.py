#!/usr/bin/env python3
"""Round 9: builds /verif/seeded/<ID>-r9-<n>/ from /tmp/seed9-<ID>/, the first evaluation with the framework as it
was when round 2 was written (/tmp/mut/results2) and, for the changes that evaluation missed, the re-evaluation after
strengthening (/tmp/mut/results2b)."""
import json, os, glob, shutil, re
OUT = "/verif/seeded"
rows = []
for f in sorted(glob.glob("/tmp/mut/results9/C*-*.json")):
    tag = os.path.basename(f)[:-5]
    pid, n = tag.split("-")
    first = json.load(open(f))
    fa = f"/tmp/mut/results9all/{tag}.json"  # the first-evaluation misses, re-run against the other checks of the frozen framework
    if os.path.exists(fa):
        extra = json.load(open(fa)).get("checks", {})
        first.setdefault("checks", {}).update({c: v for c, v in extra.items() if c not in first.get("checks", {})})
    fb = f"/tmp/mut/results9b/{tag}.json"
    final = json.load(open(fb)) if os.path.exists(fb) else first
    r = dict(final)
    for k in ("baseline_with_patch", "demo_clean_passes", "demo_patched_fails", "touched"):
        if r.get(k) is None:
            r[k] = first.get(k)
    src = f"/tmp/seed9-{pid}"
    confirmed = r.get("applies") and r.get("baseline_with_patch", {}).get("ok") and r.get("demo_clean_passes") and r.get("demo_patched_fails")
    if not confirmed:
        print("NOT CONFIRMED, skipped:", tag)
        continue
    d = f"{OUT}/{pid}-r9-{n}"
    os.makedirs(d, exist_ok=True)
    shutil.copy(f"{src}/patch{n}.diff", f"{d}/patch.diff")
    for ext in ("rs", "sh"):
        if os.path.exists(f"{src}/demo{n}.{ext}"):
            shutil.copy(f"{src}/demo{n}.{ext}", f"{d}/demo.{ext}")
    notes = open(f"{src}/meta{n}.md").read() if os.path.exists(f"{src}/meta{n}.md") else ""
    if notes:
        open(f"{d}/notes.md", "w").write(notes)
    paras = [p.strip() for p in re.split(r"\n\s*\n", notes) if p.strip()]
    pick = [p for p in paras if re.search(r"manifest|trigger|needs|need ", p, re.I)]
    needs = re.sub(r"\s+", " ", " ".join((pick or paras)[:2]))[:900]
    caught = lambda res: {c: v["signatures"][:6] for c, v in res["checks"].items() if v["exit"] == 1}
    inconcl = lambda res: sorted(c for c, v in res["checks"].items() if v["exit"] not in (0, 1))
    meta = {
        "id": f"{pid}-r9-{n}",
        "round": 9,
        "breaks_property": pid,
        "files_touched": r.get("touched"),
        "what_the_change_does": re.sub(r"\s+", " ", paras[0])[:500] if paras else "",
        "needs_to_manifest": needs or "see notes.md",
        "confirmed_here": {
            "how": "tools/seedrun.py in a scratch worktree of /repo HEAD: patch applies; `cargo test --offline -p deserr` passes with the patch; the demonstration passes on the clean tree and fails with the patch",
            "baseline_tests_passed_with_patch": r["baseline_with_patch"]["passed"],
            "demo_passes_clean": r["demo_clean_passes"],
            "demo_fails_patched": r["demo_patched_fails"],
        },
        "first_evaluation": {"framework": "as committed before round 9 was evaluated (frozen copy)", "caught_by": sorted(caught(first).keys()), "inconclusive": inconcl(first), "caught_by_own_property_check": pid in caught(first)},
        "final_evaluation": {"framework": "after the strengthening described in DESIGN.md §7", "checks_run": {c: {"exit": v["exit"], "n_violation_signatures": v["n_signatures"], "secs": v["secs"]} for c, v in final["checks"].items()}, "caught_by": caught(final), "inconclusive": inconcl(final), "caught_by_own_property_check": pid in caught(final)},
    }
    json.dump(meta, open(f"{d}/meta.json", "w"), indent=1)
    rows.append((meta["id"], pid in caught(first), sorted(caught(first).keys()), inconcl(first), pid in caught(final), sorted(caught(final).keys())))
print("| seeded change | first evaluation: own check / all checks that fired | after strengthening: own check / all checks that fired |")
print("|---|---|---|")
for tag, own1, c1, inc1, own2, c2 in rows:
    a = ("yes" if own1 else "**no**") + " / " + (", ".join(c1) if c1 else "**none**") + (" (inconclusive: " + ", ".join(inc1) + ")" if inc1 and not own1 else "")
    b = "unchanged" if (own1 and c1 == c2) else (("yes" if own2 else "**no**") + " / " + ", ".join(c2))
    print(f"| {tag} | {a} | {b} |")
