#!/bin/bash
# seedbatch.sh C01 C03 ...  (CHECKS=own runs only the check of the change's own property; default auto = all): evaluates $SEED_PREFIX<ID>/patch{1,2}.diff (default /tmp/seed-), results in $RESULTS
export MUT_DIR="${MUT_DIR:-/tmp/mut}"
SEED_PREFIX="${SEED_PREFIX:-/tmp/seed-}"
RESULTS="${RESULTS:-/tmp/mut/results}"
mkdir -p "$RESULTS"
for id in "$@"; do
  for n in 1 2; do
    p=$SEED_PREFIX$id/patch$n.diff
    [ -f "$p" ] || continue
    out=$RESULTS/$id-$n.json
    [ -f "$out" ] && continue
    demo=$SEED_PREFIX$id/demo$n.rs
    [ -f "$demo" ] || demo=$SEED_PREFIX$id/demo$n.sh
    [ -f "$demo" ] || demo=""
    if c="${CHECKS:-auto}"; [ "$c" = own ] && c=$id; python3 /verif/tools/seedrun.py "$p" "$demo" "$c" > "$out.tmp" 2>&1; then mv "$out.tmp" "$out"; else mv "$out.tmp" "$out.err"; fi
  done
done
echo BATCH-DONE
