#!/bin/bash
# seedbatch.sh C01 C03 ...  : evaluates /tmp/seed-<ID>/patch{1,2}.diff, results in /tmp/mut/results/
export MUT_DIR="${MUT_DIR:-/tmp/mut}"
mkdir -p /tmp/mut/results
for id in "$@"; do
  for n in 1 2; do
    p=/tmp/seed-$id/patch$n.diff
    [ -f "$p" ] || continue
    out=/tmp/mut/results/$id-$n.json
    [ -f "$out" ] && continue
    demo=/tmp/seed-$id/demo$n.rs
    [ -f "$demo" ] || demo=/tmp/seed-$id/demo$n.sh
    [ -f "$demo" ] || demo=""
    python3 /verif/tools/seedrun.py "$p" "$demo" auto > "$out.tmp" 2>&1 && mv "$out.tmp" "$out" || mv "$out.tmp" "$out.err"
  done
done
echo BATCH-DONE
