//! Verdict + evidence plumbing shared by all drivers.
//!
//! Three-valued verdicts: held (exit 0), violated (exit 1, `VIOLATION property=<id> replay=<path>`),
//! inconclusive (exit 2, `INCONCLUSIVE property=<id> reason=...`; never a VIOLATION line).
use serde_json::{json, Map, Value};
use std::collections::{BTreeMap, BTreeSet, HashSet};
use std::hash::{Hash, Hasher};
use std::path::PathBuf;
use std::time::Instant;

#[derive(Clone, Copy, Debug, PartialEq, Eq)]
pub enum Tier {
    Quick,
    Thorough,
}

impl Tier {
    pub fn name(self) -> &'static str {
        match self {
            Tier::Quick => "quick",
            Tier::Thorough => "thorough",
        }
    }
    pub fn pick<T>(self, q: T, t: T) -> T {
        match self {
            Tier::Quick => q,
            Tier::Thorough => t,
        }
    }
}

pub fn hash64<T: Hash + ?Sized>(t: &T) -> u64 {
    let mut h = std::collections::hash_map::DefaultHasher::new();
    t.hash(&mut h);
    h.finish()
}

#[derive(Clone, Debug)]
pub struct Violation {
    /// exact signature: what known findings are keyed on, and what witnesses are de-duplicated by
    pub signature: String,
    pub rule: String,
    pub witness: Value,
}

/// Per-thread accumulator; merged at the end.
#[derive(Default)]
pub struct Acc {
    pub evaluations: u64,
    pub distinct: HashSet<u64>,
    pub counters: BTreeMap<String, u64>,
    pub sets: BTreeMap<String, BTreeSet<String>>,
    pub samples: Vec<Value>,
    pub sample_cap: usize,
    pub violations: Vec<Violation>,
    pub inconclusive: Vec<String>,
}

impl Acc {
    pub fn new() -> Self {
        Acc { sample_cap: 6, ..Default::default() }
    }
    pub fn eval(&mut self) {
        self.evaluations += 1;
    }
    pub fn nontrivial<T: Hash + ?Sized>(&mut self, key: &T) {
        self.distinct.insert(hash64(key));
    }
    pub fn count(&mut self, k: &str) {
        *self.counters.entry(k.to_string()).or_insert(0) += 1;
    }
    pub fn add(&mut self, k: &str, n: u64) {
        *self.counters.entry(k.to_string()).or_insert(0) += n;
    }
    pub fn note(&mut self, set: &str, item: &str) {
        let s = self.sets.entry(set.to_string()).or_default();
        if s.len() < 4096 {
            s.insert(item.to_string());
        }
    }
    pub fn sample(&mut self, f: impl FnOnce() -> Value) {
        if self.samples.len() < self.sample_cap {
            self.samples.push(f());
        }
    }
    pub fn violation(&mut self, signature: impl Into<String>, rule: impl Into<String>, witness: Value) {
        let signature = signature.into();
        if self.violations.len() < 200 && !self.violations.iter().any(|v| v.signature == signature) {
            self.violations.push(Violation { signature, rule: rule.into(), witness });
        } else {
            self.count("violations_not_kept_as_witness");
        }
    }
    pub fn inconclusive(&mut self, reason: impl Into<String>) {
        let r = reason.into();
        if self.inconclusive.len() < 20 && !self.inconclusive.contains(&r) {
            self.inconclusive.push(r);
        }
    }
    pub fn merge(&mut self, o: Acc) {
        self.evaluations += o.evaluations;
        self.distinct.extend(o.distinct);
        for (k, v) in o.counters {
            *self.counters.entry(k).or_insert(0) += v;
        }
        for (k, v) in o.sets {
            self.sets.entry(k).or_default().extend(v);
        }
        for s in o.samples {
            if self.samples.len() < self.sample_cap.max(6) {
                self.samples.push(s);
            }
        }
        for v in o.violations {
            if !self.violations.iter().any(|x| x.signature == v.signature) {
                self.violations.push(v);
            }
        }
        for r in o.inconclusive {
            self.inconclusive(r);
        }
    }
}

pub struct Ctx {
    pub property: String,
    pub tier: Tier,
    pub seed: u64,
    pub root: PathBuf,
    pub start: Instant,
    pub threads: usize,
    /// extra information the entry point wants in the evidence (generated programs etc.)
    pub extra: Map<String, Value>,
}

pub struct Finish {
    pub level: &'static str,
    pub rule: String,
    pub exhaustive: bool,
    pub assumptions: Vec<String>,
}

impl Ctx {
    pub fn new(property: &str, tier: Tier) -> Ctx {
        let seed = std::env::var("VERIF_SEED").ok().and_then(|s| s.trim().parse::<u64>().ok()).unwrap_or(1);
        let root = PathBuf::from(std::env::var("VERIF_ROOT").unwrap_or_else(|_| "/verif".into()));
        let threads = std::env::var("VERIF_THREADS")
            .ok()
            .and_then(|s| s.parse().ok())
            .unwrap_or_else(|| std::thread::available_parallelism().map(|n| n.get()).unwrap_or(8).min(16));
        Ctx { property: property.to_string(), tier, seed, root, start: Instant::now(), threads, extra: Map::new() }
    }

    /// Run `f(shard, nshards)` on every shard in parallel and merge the accumulators.
    pub fn par<F>(&self, f: F) -> Acc
    where
        F: Fn(usize, usize) -> Acc + Sync,
    {
        let n = self.threads.max(1);
        let mut total = Acc::new();
        let results: Vec<Result<Acc, String>> = std::thread::scope(|s| {
            let hs: Vec<_> = (0..n)
                .map(|i| {
                    let f = &f;
                    std::thread::Builder::new()
                        .stack_size(64 << 20)
                        .spawn_scoped(s, move || f(i, n))
                        .expect("spawn")
                })
                .collect();
            hs.into_iter()
                .map(|h| h.join().map_err(|e| panic_text(&e)))
                .collect()
        });
        for r in results {
            match r {
                Ok(a) => total.merge(a),
                Err(msg) => total.inconclusive(format!("harness thread panicked: {msg}")),
            }
        }
        total
    }

    fn known_findings(&self) -> Vec<(String, String)> {
        let p = self.root.join("known_findings.json");
        let Ok(txt) = std::fs::read_to_string(&p) else { return vec![] };
        let Ok(v) = serde_json::from_str::<Value>(&txt) else { return vec![] };
        let mut out = vec![];
        if let Some(arr) = v.get("findings").and_then(|x| x.as_array()) {
            for f in arr {
                if f.get("property").and_then(|x| x.as_str()) == Some(&self.property) {
                    if let Some(sig) = f.get("signature").and_then(|x| x.as_str()) {
                        let what = f.get("what").and_then(|x| x.as_str()).unwrap_or("");
                        out.push((sig.to_string(), what.to_string()));
                    }
                }
            }
        }
        out
    }

    /// Write the evidence file, print the verdict lines, return the process exit code.
    pub fn finish(&self, mut acc: Acc, fin: Finish) -> i32 {
        let wall = self.start.elapsed().as_secs_f64();
        let known = self.known_findings();
        let mut real: Vec<&Violation> = vec![];
        let mut known_hit: Vec<(&Violation, &String)> = vec![];
        for v in &acc.violations {
            if let Some((_, what)) = known.iter().find(|(sig, _)| *sig == v.signature) {
                known_hit.push((v, what));
            } else {
                real.push(v);
            }
        }
        if acc.evaluations == 0 {
            acc.inconclusive.push("no execution was observed".into());
        }
        let distinct = acc.distinct.len() as u64;
        if real.is_empty() && distinct < 2 && acc.inconclusive.is_empty() {
            acc.inconclusive.push("fewer than two distinct non-trivial cases were observed".into());
        }

        // replay files
        let rdir = self.root.join("replays").join(&self.property);
        let mut lines = vec![];
        for (i, v) in real.iter().enumerate() {
            if i >= 20 {
                break;
            }
            let _ = std::fs::create_dir_all(&rdir);
            let path = rdir.join(format!("{:016x}.json", hash64(&v.signature)));
            let body = json!({
                "property": self.property,
                "signature": v.signature,
                "rule": v.rule,
                "tier": self.tier.name(),
                "seed": self.seed,
                "witness": v.witness,
            });
            let _ = std::fs::write(&path, serde_json::to_string_pretty(&body).unwrap());
            lines.push(format!("VIOLATION property={} replay={}", self.property, path.display()));
            eprintln!("  signature: {}\n  rule: {}", v.signature, v.rule);
        }

        let mut cov = Map::new();
        cov.insert("evaluations".into(), json!(acc.evaluations));
        cov.insert("distinct_nontrivial".into(), json!(distinct));
        cov.insert("rule".into(), json!(fin.rule));
        cov.insert("samples".into(), Value::Array(acc.samples.clone()));
        cov.insert("exhaustive".into(), json!(fin.exhaustive));
        cov.insert("observed".into(), json!(acc.counters));
        let sets: BTreeMap<String, Value> = acc
            .sets
            .iter()
            .map(|(k, v)| {
                (k.clone(), json!({"distinct": v.len(), "first": v.iter().take(40).collect::<Vec<_>>()}))
            })
            .collect();
        cov.insert("observed_sets".into(), json!(sets));
        cov.insert("threads".into(), json!(self.threads));
        for (k, v) in &self.extra {
            cov.insert(k.clone(), v.clone());
        }
        cov.insert(
            "known_findings_hit".into(),
            json!(known_hit.iter().map(|(v, _)| v.signature.clone()).collect::<Vec<_>>()),
        );
        cov.insert("violation_signatures".into(), json!(real.iter().map(|v| v.signature.clone()).collect::<Vec<_>>()));
        cov.insert("inconclusive".into(), json!(acc.inconclusive));
        let ev = json!({
            "property_id": self.property,
            "tier": self.tier.name(),
            "seed": self.seed,
            "level": fin.level,
            "coverage": Value::Object(cov),
            "assumptions": fin.assumptions,
            "wall_s": (wall * 1000.0).round() / 1000.0,
            "violations": real.len(),
        });
        let edir = self.root.join("evidence");
        let _ = std::fs::create_dir_all(&edir);
        let epath = edir.join(format!("{}.json", self.property));
        if let Err(e) = std::fs::write(&epath, serde_json::to_string_pretty(&ev).unwrap() + "\n") {
            println!("INCONCLUSIVE property={} reason=cannot write evidence: {e}", self.property);
            return 2;
        }

        for (v, what) in &known_hit {
            println!("KNOWN-FINDING: property={} {} [{}]", self.property, what, v.signature);
        }
        println!(
            "{} {} seed={} evaluations={} distinct_nontrivial={} violations={} wall={:.1}s",
            self.property,
            self.tier.name(),
            self.seed,
            acc.evaluations,
            distinct,
            real.len(),
            wall
        );
        for (k, v) in &acc.counters {
            println!("  observed {k} = {v}");
        }
        if !real.is_empty() {
            for l in lines {
                println!("{l}");
            }
            return 1;
        }
        if !acc.inconclusive.is_empty() {
            for r in &acc.inconclusive {
                println!("INCONCLUSIVE property={} reason={}", self.property, r);
            }
            return 2;
        }
        0
    }
}

pub fn panic_text(e: &Box<dyn std::any::Any + Send>) -> String {
    if let Some(s) = e.downcast_ref::<&str>() {
        s.to_string()
    } else if let Some(s) = e.downcast_ref::<String>() {
        s.clone()
    } else {
        "non-string panic".to_string()
    }
}
