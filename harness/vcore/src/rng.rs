/// splitmix64: every random choice of the harness comes from one of these, seeded from VERIF_SEED.
#[derive(Clone, Debug)]
pub struct Rng(pub u64);

impl Rng {
    pub fn new(seed: u64) -> Self {
        Rng(seed.wrapping_mul(0x9E37_79B9_7F4A_7C15) ^ 0xD1B5_4A32_D192_ED03)
    }
    /// Independent stream for (seed, a, b).
    pub fn derive(seed: u64, a: u64, b: u64) -> Self {
        let mut r = Rng::new(seed ^ a.rotate_left(21) ^ b.rotate_left(43));
        r.next();
        r.next();
        r
    }
    pub fn next(&mut self) -> u64 {
        self.0 = self.0.wrapping_add(0x9E37_79B9_7F4A_7C15);
        let mut z = self.0;
        z = (z ^ (z >> 30)).wrapping_mul(0xBF58_476D_1CE4_E5B9);
        z = (z ^ (z >> 27)).wrapping_mul(0x94D0_49BB_1331_11EB);
        z ^ (z >> 31)
    }
    /// uniform in 0..n (n > 0)
    pub fn below(&mut self, n: usize) -> usize {
        (self.next() % (n as u64)) as usize
    }
    pub fn range(&mut self, lo: i64, hi: i64) -> i64 {
        lo + (self.next() % ((hi - lo + 1) as u64)) as i64
    }
    pub fn chance(&mut self, num: u32, den: u32) -> bool {
        (self.next() % den as u64) < num as u64
    }
    pub fn pick<'a, T>(&mut self, xs: &'a [T]) -> &'a T {
        &xs[self.below(xs.len())]
    }
    pub fn shuffle<T>(&mut self, xs: &mut [T]) {
        for i in (1..xs.len()).rev() {
            let j = self.below(i + 1);
            xs.swap(i, j);
        }
    }
}
