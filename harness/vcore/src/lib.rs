//! Shared plain data: PRNG, payload trees, projections, evidence and verdict plumbing.
pub mod evidence;
pub mod ov;
pub mod proj;
pub mod rng;

pub use evidence::{Ctx, Tier};
pub use ov::{render_path, resolve, Ov, Path, Step, VK};
pub use proj::Proj;
pub use rng::Rng;
