use serde::{Deserialize, Serialize};

/// Mirror of deserr's ValueKind (so that the model does not depend on deserr).
#[derive(Clone, Copy, Debug, PartialEq, Eq, PartialOrd, Ord, Hash, Serialize, Deserialize)]
pub enum VK {
    Null,
    Boolean,
    Integer,
    NegativeInteger,
    Float,
    String,
    Sequence,
    Map,
}

pub const ALL_KINDS: [VK; 8] = [
    VK::Null,
    VK::Boolean,
    VK::Integer,
    VK::NegativeInteger,
    VK::Float,
    VK::String,
    VK::Sequence,
    VK::Map,
];

/// Order preserving payload tree: the harness's own value source and the witness format.
/// Duplicate keys, non-finite floats and `Neg(0)` are representable.
#[derive(Clone, Debug, Serialize, Deserialize)]
pub enum Ov {
    #[serde(rename = "n")]
    Null,
    #[serde(rename = "b")]
    Bool(bool),
    #[serde(rename = "u")]
    Int(u64),
    #[serde(rename = "i")]
    Neg(i64),
    /// stored as bits so that NaN payloads and -0.0 survive a replay file
    #[serde(rename = "f")]
    Float(FBits),
    #[serde(rename = "s")]
    Str(String),
    #[serde(rename = "a")]
    Seq(Vec<Ov>),
    #[serde(rename = "o")]
    Map(Vec<(String, Ov)>),
}

#[derive(Clone, Copy, Debug, PartialEq, Eq, Hash, Serialize, Deserialize)]
pub struct FBits(pub u64);

impl FBits {
    pub fn get(self) -> f64 {
        f64::from_bits(self.0)
    }
}

impl PartialEq for Ov {
    fn eq(&self, o: &Ov) -> bool {
        match (self, o) {
            (Ov::Null, Ov::Null) => true,
            (Ov::Bool(a), Ov::Bool(b)) => a == b,
            (Ov::Int(a), Ov::Int(b)) => a == b,
            (Ov::Neg(a), Ov::Neg(b)) => a == b,
            (Ov::Float(a), Ov::Float(b)) => a == b,
            (Ov::Str(a), Ov::Str(b)) => a == b,
            (Ov::Seq(a), Ov::Seq(b)) => a == b,
            (Ov::Map(a), Ov::Map(b)) => a == b,
            _ => false,
        }
    }
}
impl Eq for Ov {}

impl Ov {
    /// Equality modulo the order of object members (serde_json enumerates members sorted by key).
    pub fn eq_modulo_order(&self, o: &Ov) -> bool {
        match (self, o) {
            (Ov::Seq(a), Ov::Seq(b)) => a.len() == b.len() && a.iter().zip(b.iter()).all(|(x, y)| x.eq_modulo_order(y)),
            (Ov::Map(a), Ov::Map(b)) => {
                if a.len() != b.len() {
                    return false;
                }
                let mut used = vec![false; b.len()];
                'outer: for (k, v) in a {
                    for (j, (k2, v2)) in b.iter().enumerate() {
                        if !used[j] && k == k2 && v.eq_modulo_order(v2) {
                            used[j] = true;
                            continue 'outer;
                        }
                    }
                    return false;
                }
                true
            }
            (a, b) => a == b,
        }
    }
    pub fn float(f: f64) -> Ov {
        Ov::Float(FBits(f.to_bits()))
    }
    pub fn str(s: &str) -> Ov {
        Ov::Str(s.to_string())
    }
    pub fn kind(&self) -> VK {
        match self {
            Ov::Null => VK::Null,
            Ov::Bool(_) => VK::Boolean,
            Ov::Int(_) => VK::Integer,
            Ov::Neg(_) => VK::NegativeInteger,
            Ov::Float(_) => VK::Float,
            Ov::Str(_) => VK::String,
            Ov::Seq(_) => VK::Sequence,
            Ov::Map(_) => VK::Map,
        }
    }
    pub fn get_key(&self, k: &str) -> Option<&Ov> {
        match self {
            Ov::Map(m) => m.iter().find(|(kk, _)| kk == k).map(|(_, v)| v),
            _ => None,
        }
    }
    /// Number of nodes.
    pub fn size(&self) -> usize {
        match self {
            Ov::Seq(v) => 1 + v.iter().map(|x| x.size()).sum::<usize>(),
            Ov::Map(m) => 1 + m.iter().map(|(_, x)| x.size()).sum::<usize>(),
            _ => 1,
        }
    }
    pub fn depth(&self) -> usize {
        match self {
            Ov::Seq(v) => 1 + v.iter().map(|x| x.depth()).max().unwrap_or(0),
            Ov::Map(m) => 1 + m.iter().map(|(_, x)| x.depth()).max().unwrap_or(0),
            _ => 1,
        }
    }
    /// True when the tree can be presented as a serde_json::Value without loss of the facts the
    /// oracles look at: unique keys, finite floats, canonical number kinds (no Neg(>=0)).
    pub fn json_representable(&self) -> bool {
        match self {
            Ov::Float(f) => f.get().is_finite(),
            Ov::Neg(i) => *i < 0,
            Ov::Seq(v) => v.iter().all(|x| x.json_representable()),
            Ov::Map(m) => {
                for (i, (k, v)) in m.iter().enumerate() {
                    if m[..i].iter().any(|(kk, _)| kk == k) || !v.json_representable() {
                        return false;
                    }
                }
                true
            }
            _ => true,
        }
    }
    pub fn to_json(&self) -> serde_json::Value {
        use serde_json::Value as J;
        match self {
            Ov::Null => J::Null,
            Ov::Bool(b) => J::Bool(*b),
            Ov::Int(u) => J::from(*u),
            Ov::Neg(i) => J::from(*i),
            Ov::Float(f) => serde_json::Number::from_f64(f.get()).map(J::Number).unwrap_or(J::Null),
            Ov::Str(s) => J::String(s.clone()),
            Ov::Seq(v) => J::Array(v.iter().map(|x| x.to_json()).collect()),
            Ov::Map(m) => J::Object(m.iter().map(|(k, v)| (k.clone(), v.to_json())).collect()),
        }
    }
    /// Inverse of `to_json` with serde_json's own number classification, written from its public
    /// accessors (is_u64 / is_i64), independent of deserr's bridge.
    pub fn from_json(j: &serde_json::Value) -> Ov {
        use serde_json::Value as J;
        match j {
            J::Null => Ov::Null,
            J::Bool(b) => Ov::Bool(*b),
            J::Number(n) => {
                if n.is_u64() {
                    Ov::Int(n.as_u64().unwrap())
                } else if n.is_i64() {
                    Ov::Neg(n.as_i64().unwrap())
                } else {
                    Ov::float(n.as_f64().unwrap())
                }
            }
            J::String(s) => Ov::Str(s.clone()),
            J::Array(v) => Ov::Seq(v.iter().map(Ov::from_json).collect()),
            J::Object(m) => Ov::Map(m.iter().map(|(k, v)| (k.clone(), Ov::from_json(v))).collect()),
        }
    }
    /// Compact human readable rendering for samples (not JSON: keeps number kinds visible).
    pub fn show(&self) -> String {
        match self {
            Ov::Null => "null".into(),
            Ov::Bool(b) => b.to_string(),
            Ov::Int(u) => u.to_string(),
            Ov::Neg(i) => format!("{i}n"),
            Ov::Float(f) => format!("{:?}f", f.get()),
            Ov::Str(s) => format!("{s:?}"),
            Ov::Seq(v) => format!("[{}]", v.iter().map(|x| x.show()).collect::<Vec<_>>().join(",")),
            Ov::Map(m) => format!(
                "{{{}}}",
                m.iter().map(|(k, v)| format!("{k:?}:{}", v.show())).collect::<Vec<_>>().join(",")
            ),
        }
    }
}

#[derive(Clone, Debug, PartialEq, Eq, PartialOrd, Ord, Hash, Serialize, Deserialize)]
pub enum Step {
    #[serde(rename = "k")]
    Key(String),
    #[serde(rename = "i")]
    Index(usize),
}

pub type Path = Vec<Step>;

/// `.a[1].b` (JSON style, empty at the root)
pub fn render_path(p: &[Step]) -> String {
    let mut s = String::new();
    for st in p {
        match st {
            Step::Key(k) => {
                s.push('.');
                s.push_str(k);
            }
            Step::Index(i) => {
                s.push_str(&format!("[{i}]"));
            }
        }
    }
    s
}

/// Resolve a path in a payload; the first member with a given key is the one a key step names.
pub fn resolve<'a>(root: &'a Ov, p: &[Step]) -> Option<&'a Ov> {
    let mut cur = root;
    for st in p {
        cur = match (st, cur) {
            (Step::Key(k), Ov::Map(m)) => &m.iter().find(|(kk, _)| kk == k)?.1,
            (Step::Index(i), Ov::Seq(v)) => v.get(*i)?,
            _ => return None,
        };
    }
    Some(cur)
}

pub fn is_prefix(a: &[Step], b: &[Step]) -> bool {
    a.len() <= b.len() && a.iter().zip(b.iter()).all(|(x, y)| x == y)
}
