use serde::{Deserialize, Serialize};
use std::collections::{BTreeMap, BTreeSet};

/// What `Ok` values are compared as. Produced by `ToProj` from real Rust values and by the
/// reference model from payloads; independent of serialisation keys.
#[derive(Clone, Debug, PartialEq, Eq, PartialOrd, Ord, Hash, Serialize, Deserialize)]
pub enum Proj {
    Unit,
    Bool(bool),
    UInt(u128),
    Int(i128),
    F32(u32),
    F64(u64),
    Char(char),
    Str(String),
    None,
    Some(Box<Proj>),
    Seq(Vec<Proj>),
    Set(BTreeSet<Proj>),
    Map(BTreeMap<Proj, Proj>),
    /// struct name, (rust field identifier, value) in declaration order
    Struct(String, Vec<(String, Proj)>),
    /// enum name, variant identifier, fields
    Variant(String, String, Vec<(String, Proj)>),
    /// a serde_json document, as compact text (keeps 1 vs 1.0 and -0.0 apart)
    Json(String),
    Phantom,
}

impl Proj {
    /// Number of leaves; used by the `val_leaves` validate function and its model.
    pub fn leaves(&self) -> usize {
        match self {
            Proj::Some(p) => p.leaves(),
            Proj::Seq(v) => v.iter().map(|x| x.leaves()).sum(),
            Proj::Set(s) => s.iter().map(|x| x.leaves()).sum(),
            Proj::Map(m) => m.iter().map(|(k, v)| k.leaves() + v.leaves()).sum(),
            Proj::Struct(_, f) | Proj::Variant(_, _, f) => f.iter().map(|(_, v)| v.leaves()).sum(),
            Proj::None | Proj::Phantom | Proj::Unit => 0,
            _ => 1,
        }
    }
    pub fn show(&self) -> String {
        let s = format!("{self:?}");
        if s.len() > 400 {
            format!("{}…", &s[..s.char_indices().take(400).last().map(|x| x.0).unwrap_or(0)])
        } else {
            s
        }
    }
}
