//! C18 — did-you-mean suggests only a closest accepted name within the typo budget.
//!
//! Independent oracle: true (unrestricted) Damerau–Levenshtein distance over `char`s written here
//! (Lowrance–Wagner), validated at start-up against a breadth-first search over the four edit
//! operations; budget table over the BYTE length of `received`.
use crate::{report, shard_of, Finding};
use deserr::errors::helpers::did_you_mean as real_did_you_mean;

/// The function under test, with a panic turned into an output that is neither empty nor a suggestion.
fn did_you_mean(received: &str, accepted: &[&str]) -> String {
    if accepted.len() <= 8 && received.len() <= 64 {
        monitor::watch::set_context(|| format!("did_you_mean({received:?}, {accepted:?})"));
    }
    match monitor::run::quiet_catch(|| real_did_you_mean(received, accepted)) {
        Ok(s) => s,
        Err(m) => format!("<the function panicked: {m}>"),
    }
}
use serde_json::{json, Value as J};
use std::collections::{HashSet, VecDeque};
use vcore::evidence::{Acc, Finish};
use vcore::{Ctx, Rng};

/// True Damerau–Levenshtein distance (insert, delete, substitute, transpose two adjacent characters;
/// a substring may be edited more than once, unlike optimal-string-alignment).
pub fn dl(a: &[char], b: &[char]) -> usize {
    let (n, m) = (a.len(), b.len());
    let inf = n + m;
    let w = m + 2;
    let mut d = vec![0usize; (n + 2) * w];
    d[0] = inf;
    for i in 0..=n {
        d[(i + 1) * w] = inf;
        d[(i + 1) * w + 1] = i;
    }
    for j in 0..=m {
        d[j + 1] = inf;
        d[w + j + 1] = j;
    }
    // last row in which each character of `a` was seen
    let mut last_row: Vec<(char, usize)> = Vec::new();
    for i in 1..=n {
        let mut last_match_col = 0usize;
        for j in 1..=m {
            let i1 = last_row.iter().find(|(c, _)| *c == b[j - 1]).map(|x| x.1).unwrap_or(0);
            let j1 = last_match_col;
            let cost = if a[i - 1] == b[j - 1] {
                last_match_col = j;
                0
            } else {
                1
            };
            let sub = d[i * w + j] + cost;
            let ins = d[(i + 1) * w + j] + 1;
            let del = d[i * w + j + 1] + 1;
            let tra = d[i1 * w + j1] + (i - i1 - 1) + 1 + (j - j1 - 1);
            d[(i + 1) * w + j + 1] = sub.min(ins).min(del).min(tra);
        }
        match last_row.iter_mut().find(|(c, _)| *c == a[i - 1]) {
            Some(e) => e.1 = i,
            None => last_row.push((a[i - 1], i)),
        }
    }
    d[(n + 1) * w + m + 1]
}

pub fn dl_str(a: &str, b: &str) -> usize {
    let a: Vec<char> = a.chars().collect();
    let b: Vec<char> = b.chars().collect();
    dl(&a, &b)
}

/// Definition-level distance: breadth-first search over single edits (alphabet = letters of both
/// strings, intermediate length bounded by max+1). Only for tiny strings.
fn bfs_distance(a: &[char], b: &[char], alphabet: &[char]) -> usize {
    let maxlen = a.len().max(b.len()) + 1;
    let mut seen: HashSet<Vec<char>> = HashSet::new();
    let mut q: VecDeque<(Vec<char>, usize)> = VecDeque::new();
    seen.insert(a.to_vec());
    q.push_back((a.to_vec(), 0));
    while let Some((s, dist)) = q.pop_front() {
        if s == b {
            return dist;
        }
        let mut next: Vec<Vec<char>> = vec![];
        for i in 0..s.len() {
            let mut t = s.clone();
            t.remove(i);
            next.push(t);
            for c in alphabet {
                if *c != s[i] {
                    let mut t = s.clone();
                    t[i] = *c;
                    next.push(t);
                }
            }
            if i + 1 < s.len() && s[i] != s[i + 1] {
                let mut t = s.clone();
                t.swap(i, i + 1);
                next.push(t);
            }
        }
        if s.len() < maxlen {
            for i in 0..=s.len() {
                for c in alphabet {
                    let mut t = s.clone();
                    t.insert(i, *c);
                    next.push(t);
                }
            }
        }
        for t in next {
            if seen.insert(t.clone()) {
                q.push_back((t, dist + 1));
            }
        }
    }
    usize::MAX
}

/// Self-check of the oracle's distance (harness fault => inconclusive, never a violation).
pub fn self_check() -> Result<u64, String> {
    let fixed = [("ca", "abc", 2), ("", "", 0), ("abc", "", 3), ("ab", "ba", 1), ("abcd", "acbd", 1), ("abcdef", "badcfe", 3), ("kitten", "sitting", 3)];
    for (a, b, want) in fixed {
        if dl_str(a, b) != want {
            return Err(format!("oracle distance({a:?},{b:?}) = {} instead of {want}", dl_str(a, b)));
        }
    }
    let alphabet = ['a', 'b', 'c'];
    let all = strings_upto(&alphabet, 3);
    let mut n = 0;
    for a in &all {
        for b in &all {
            let (x, y) = (dl(a, b), bfs_distance(a, b, &alphabet));
            if x != y {
                return Err(format!("oracle distance({a:?},{b:?}) = {x} but breadth-first search over edits finds {y}"));
            }
            n += 1;
        }
    }
    Ok(n)
}

pub fn strings_upto(alphabet: &[char], max: usize) -> Vec<Vec<char>> {
    let mut out: Vec<Vec<char>> = vec![vec![]];
    let mut level: Vec<Vec<char>> = vec![vec![]];
    for _ in 0..max {
        let mut next = vec![];
        for s in &level {
            for c in alphabet {
                let mut t = s.clone();
                t.push(*c);
                next.push(t);
            }
        }
        out.extend(next.iter().cloned());
        level = next;
    }
    out
}

/// Budget from the statement, over the byte length of the received string. None = never suggest.
pub fn budget(bytes: usize) -> Option<usize> {
    if bytes <= 3 {
        None
    } else if bytes <= 7 {
        Some(1)
    } else if bytes <= 12 {
        Some(2)
    } else if bytes <= 17 {
        Some(3)
    } else if bytes <= 24 {
        Some(4)
    } else {
        Some(5)
    }
}

pub struct Spec {
    pub distances: Vec<usize>,
    pub budget: Option<usize>,
    /// index of the earliest candidate at minimal distance within the budget
    pub choice: Option<usize>,
}

pub fn spec(received: &str, accepted: &[&str]) -> Spec {
    let r: Vec<char> = received.chars().collect();
    let distances: Vec<usize> = accepted.iter().map(|c| dl(&r, &c.chars().collect::<Vec<_>>())).collect();
    let budget = budget(received.len());
    let mut choice: Option<usize> = None;
    if let Some(bd) = budget {
        for (i, d) in distances.iter().enumerate() {
            if *d <= bd && choice.map(|c| *d < distances[c]).unwrap_or(true) {
                choice = Some(i);
            }
        }
    }
    Spec { distances, budget, choice }
}

/// Compare the real function's output with the specification.
pub fn judge(received: &str, accepted: &[&str], out: &str, sp: &Spec) -> Option<Finding> {
    let bucket = sp.budget.map(|b| format!("budget{b}")).unwrap_or_else(|| "short".into());
    let f = |rule: String, text: &str| {
        Some(Finding::new(
            format!("C18/{rule}"),
            text.to_string(),
            json!({"received": received, "received_bytes": received.len(), "accepted": accepted, "output": out, "oracle_distances": sp.distances, "budget": sp.budget, "oracle_choice": sp.choice.map(|i| accepted[i])}),
        ))
    };
    if out.is_empty() {
        return match sp.choice {
            None => None,
            Some(_) => f(format!("missing-suggestion/{bucket}"), "no suggestion although an accepted string lies within the budget"),
        };
    }
    let Some(x) = out.strip_prefix("did you mean `").and_then(|s| s.strip_suffix("`? ")) else {
        return f("malformed-output".into(), "a suggestion is either empty or names exactly one accepted string (`did you mean `X`? `)");
    };
    let Some(pos) = accepted.iter().position(|a| *a == x) else {
        return f("names-non-accepted".into(), "the suggested string is not one of the accepted strings");
    };
    let Some(bd) = sp.budget else {
        return f("suggestion-for-short-input".into(), "a suggestion was made for a received string of at most three bytes");
    };
    if sp.distances[pos] > bd {
        return f(format!("suggestion-beyond-budget/{bucket}"), "the suggested string is farther than the budget for the received length");
    }
    let best = sp.choice.expect("a candidate within budget exists");
    if sp.distances[pos] > sp.distances[best] {
        return f("not-minimal-distance".into(), "the suggested string is not at minimal distance");
    }
    if accepted[best] != x {
        return f("not-earliest".into(), "among the closest accepted strings the earliest in the list must be named");
    }
    None
}

fn observe(acc: &mut Acc, received: &str, accepted: &[&str], part: &str) {
    let out = did_you_mean(received, accepted);
    acc.eval();
    acc.count(&format!("calls.{part}"));
    let sp = spec(received, accepted);
    if out.is_empty() {
        acc.count("observed.no_suggestion");
    } else {
        acc.count("observed.suggestion");
        if sp.choice.map(|c| sp.distances[c] == 0).unwrap_or(false) {
            acc.count("observed.suggestion_exact_match");
        }
        if sp.distances.iter().filter(|d| Some(**d) == sp.choice.map(|c| sp.distances[c])).count() > 1 {
            acc.count("observed.suggestion_with_tie");
        }
    }
    match sp.budget {
        None => acc.count("received.le3_bytes"),
        Some(b) => acc.count(&format!("received.budget{b}")),
    }
    if received.len() != received.chars().count() {
        acc.count("received.multi_byte");
    }
    if received.len() >= 4 && !accepted.is_empty() {
        acc.nontrivial(&(received, accepted));
        if !out.is_empty() && accepted.len() >= 3 && received.len() >= 8 {
            acc.sample(|| json!({"received": received, "accepted": accepted, "output": out, "oracle_distances": sp.distances, "budget": sp.budget}));
        }
    }
    if let Some(f) = judge(received, accepted, &out, &sp) {
        report(acc, vec![f]);
    }
}

const LETTERS: [char; 8] = ['a', 'b', 'c', 'd', 'e', 'é', '日', '😀'];
/// characters that quoting / escaping routines rewrite (the suggestion has to name the accepted string itself)
const HOSTILE: [char; 10] = ['\'', '"', '\\', '\t', '\n', '\u{0}', '\u{7f}', '\u{301}', '\u{200b}', '`'];

/// A string of exactly `bytes` bytes (multi-byte characters included when they fit).
fn string_of_bytes(rng: &mut Rng, bytes: usize, ascii_only: bool) -> Vec<char> {
    let mut s = vec![];
    let mut left = bytes;
    while left > 0 {
        let c = if ascii_only {
            LETTERS[rng.below(5)]
        } else if rng.chance(1, 8) {
            *rng.pick(&HOSTILE)
        } else {
            *rng.pick(&LETTERS)
        };
        if c.len_utf8() <= left {
            left -= c.len_utf8();
            s.push(c);
        }
    }
    s
}

/// One random edit; the two compound shapes are the ones on which optimal-string-alignment and true
/// Damerau–Levenshtein differ (xy -> yzx and xzy -> yx: distance 2, OSA 3).
fn edit(rng: &mut Rng, s: &mut Vec<char>) {
    let letter = |rng: &mut Rng| {
        if rng.chance(1, 16) {
            return *rng.pick(&HOSTILE);
        }
        let k = if rng.chance(1, 4) { 8 } else { 5 };
        LETTERS[rng.below(k)]
    };
    match rng.below(7) {
        0 => {
            let i = rng.below(s.len() + 1);
            let c = letter(rng);
            s.insert(i, c);
        }
        1 if !s.is_empty() => {
            let i = rng.below(s.len());
            s.remove(i);
        }
        2 if !s.is_empty() => {
            let i = rng.below(s.len());
            s[i] = letter(rng);
        }
        3 | 4 if s.len() >= 2 => {
            let i = rng.below(s.len() - 1);
            s.swap(i, i + 1);
        }
        5 if s.len() >= 2 => {
            // transpose, then insert between the two
            let i = rng.below(s.len() - 1);
            s.swap(i, i + 1);
            let c = letter(rng);
            s.insert(i + 1, c);
        }
        6 if s.len() >= 3 => {
            // delete the middle one, then transpose its neighbours
            let i = rng.below(s.len() - 2);
            s.remove(i + 1);
            s.swap(i, i + 1);
        }
        _ => {
            let c = letter(rng);
            s.push(c);
        }
    }
}

const LENGTHS: [usize; 16] = [0, 2, 3, 4, 5, 7, 8, 9, 12, 13, 15, 17, 18, 24, 25, 31];

fn random_case(rng: &mut Rng) -> (String, Vec<String>) {
    let bytes = *rng.pick(&LENGTHS);
    let ascii = rng.chance(1, 2);
    let base = string_of_bytes(rng, bytes, ascii);
    // the received string itself is sometimes an edit of the base, so that its length drifts across a threshold
    let mut received = base.clone();
    if rng.chance(1, 4) {
        edit(rng, &mut received);
    }
    let n = match rng.below(10) {
        0 => 0,
        1 | 2 | 3 => 1,
        _ => 2 + rng.below(5),
    };
    // one case in fifty has a long list (33..80 entries: selection routines switch algorithm with the size)
    let n = if rng.chance(1, 50) { 33 + rng.below(48) } else { n };
    let mut accepted: Vec<Vec<char>> = vec![];
    for _ in 0..n {
        let c = match rng.below(12) {
            0 => {
                let l = *rng.pick(&LENGTHS);
                string_of_bytes(rng, l, ascii)
            }
            1 if !accepted.is_empty() => accepted[rng.below(accepted.len())].clone(), // duplicate
            2 => received.clone(),                                                    // exact match
            _ => {
                let mut c = received.clone();
                for _ in 0..1 + rng.below(6) {
                    edit(rng, &mut c);
                }
                c
            }
        };
        accepted.push(c);
    }
    (received.into_iter().collect(), accepted.into_iter().map(|c| c.into_iter().collect()).collect())
}

pub fn run(ctx: &Ctx) -> i32 {
    let n_random: u64 = ctx.tier.pick(1_000_000, 16_000_000);
    let small = strings_upto(&['a', 'b', 'c'], 6);
    let small: Vec<String> = small.into_iter().map(|s| s.into_iter().collect()).collect();
    let checked = self_check();
    let acc = ctx.par(|shard, n| {
        let mut acc = Acc::new();
        match &checked {
            Err(e) => {
                acc.inconclusive(format!("oracle self-check failed: {e}"));
                return acc;
            }
            Ok(k) => {
                if shard == 0 {
                    acc.add("oracle_distance_pairs_validated_by_bfs", *k);
                }
            }
        }
        // exhaustive: every (received, single candidate) pair over {a,b,c}, lengths 0..=6
        for (i, r) in small.iter().enumerate() {
            if !shard_of(i as u64, shard, n) {
                continue;
            }
            for c in &small {
                observe(&mut acc, r, &[c.as_str()], "exhaustive_pairs");
            }
        }
        // very long received strings: distances around 256 and 512 (a distance kept in a narrow integer wraps)
        if shard == 0 {
            for pad in (236usize..=276).chain(500..=530) {
                let near = format!("searchable{}", "x".repeat(pad.saturating_sub(2)));
                let received = format!("searchable{}", "x".repeat(pad));
                let far = "searchable".to_string();
                let other = "limit".to_string();
                observe(&mut acc, &received, &[far.as_str(), other.as_str()], "long_strings");
                observe(&mut acc, &received, &[far.as_str(), near.as_str()], "long_strings");
                observe(&mut acc, &far, &[received.as_str()], "long_strings");
            }
        }
        // deterministic compound shapes at every budget: transpose + insert between, inside a longer word
        if shard == 0 {
            for bytes in [4usize, 6, 8, 10, 12, 13, 17, 18, 24, 25, 30] {
                let base: Vec<char> = "abcdefghijklmnopqrstuvwxyzabcdefgh".chars().take(bytes).collect();
                for at in 0..bytes - 1 {
                    let mut c = base.clone();
                    c.swap(at, at + 1);
                    c.insert(at + 1, 'Z');
                    let (r, c): (String, String) = (base.iter().collect(), c.into_iter().collect());
                    observe(&mut acc, &r, &[c.as_str()], "compound_shapes");
                    observe(&mut acc, &c, &[r.as_str()], "compound_shapes");
                    observe(&mut acc, &r, &["zzzz", c.as_str(), r.as_str()], "compound_shapes");
                }
            }
            observe(&mut acc, "abcd", &[], "compound_shapes");
            // long accepted lists (33..80 names) with several names tied at the minimal distance, not ordered by
            // distance: "the earliest of the closest" must survive whatever selection / sorting routine is used
            for n in [33usize, 40, 47, 64, 65, 80] {
                for shift in 0..6usize {
                    let received = "sortt";
                    let mut names: Vec<String> = (0..n).map(|i| format!("unrelated_name_{i:02}")).collect();
                    let first = (7 * shift + 3) % (n - 4);
                    let second = first + 1 + (shift * 11) % (n - first - 1);
                    names[first] = "sorts".into(); // distance 1
                    names[second] = "sort".into(); // distance 1 too, later in the list
                    if shift % 2 == 0 {
                        names[(first + second) / 2] = "sorrt".into(); // a third one in between (when distinct index)
                    }
                    names[n - 1] = "sortta".into();
                    let refs: Vec<&str> = names.iter().map(|s| s.as_str()).collect();
                    observe(&mut acc, received, &refs, "long_lists_with_ties");
                    let mut rev = refs.clone();
                    rev.reverse();
                    observe(&mut acc, received, &rev, "long_lists_with_ties");
                }
            }
            // names that an escaping routine would rewrite, one edit away from the received string
            for h in HOSTILE {
                for name in [format!("user{h}s_name"), format!("{h}leading"), format!("trailing{h}"), format!("{h}{h}twice{h}")] {
                    let mut received: Vec<char> = name.chars().collect();
                    let last = received.len() - 2;
                    received.remove(last);
                    let received: String = received.into_iter().collect();
                    observe(&mut acc, &received, &[name.as_str()], "hostile_names");
                    observe(&mut acc, &received, &["unrelated", name.as_str(), "other"], "hostile_names");
                    observe(&mut acc, &name, &[name.as_str()], "hostile_names");
                }
            }
            observe(&mut acc, "", &[""], "compound_shapes");
        }
        // seeded random multi-candidate lists around every threshold
        let mut rng = Rng::derive(ctx.seed, 0xC18, shard as u64);
        let mine = n_random / n as u64 + u64::from((shard as u64) < n_random % n as u64);
        for _ in 0..mine {
            let (r, a) = random_case(&mut rng);
            let refs: Vec<&str> = a.iter().map(|s| s.as_str()).collect();
            observe(&mut acc, &r, &refs, "random_lists");
        }
        acc
    });
    ctx.finish(
        acc,
        Finish {
            level: "exploration",
            rule: format!(
                "exhaustive (seed independent): every (received, single accepted string) pair over the alphabet {{a,b,c}} with lengths 0..=6 (1093^2 = 1194649 calls); deterministic transpose+insert shapes at byte lengths 4..30. Plus {n_random} seeded random cases: received string of byte length 0,2,3,4,5,7,8,9,12,13,15,17,18,24,25,31 (optionally one edit more), over {{a..e, e-acute, CJK, emoji}} plus characters that escaping routines rewrite (quotes, backslash, tab, newline, NUL, DEL, a combining accent, a zero-width space, a back-tick); accepted list of 0..6 strings (one case in fifty: 33..80), each 0..6 random edits of the received string (insert, delete, substitute, adjacent transposition, transpose+insert-between, delete-between+transpose), an exact copy, a duplicate of an earlier entry, or an unrelated string. Oracle: own unrestricted Damerau-Levenshtein distance over chars (validated by breadth-first search over edits on all pairs of strings up to length 3), budget by BYTE length (<=3 never, 4-7:1, 8-12:2, 13-17:3, 18-24:4, else 5); output must be \"\" or exactly `did you mean `X`? ` with X the earliest accepted string at minimal distance within budget; \"\" iff none is within budget. Non-trivial = received string of >= 4 bytes with a non-empty accepted list; distinct = (received, accepted list)."
            ),
            exhaustive: true,
            assumptions: vec![
                "exhaustive refers to the single-candidate pairs over {a,b,c} up to length 6; the random part is extra".into(),
                "distance counts Unicode scalar values, the budget counts bytes (as the statement says)".into(),
            ],
        },
    )
}

pub fn replay(w: &J) -> Result<Vec<Finding>, String> {
    self_check()?;
    let received = w["received"].as_str().ok_or("witness has no received string")?;
    let accepted: Vec<String> = serde_json::from_value(w["accepted"].clone()).map_err(|e| format!("witness accepted: {e}"))?;
    let refs: Vec<&str> = accepted.iter().map(|s| s.as_str()).collect();
    let out = did_you_mean(received, &refs);
    let sp = spec(received, &refs);
    println!("received {received:?} ({} bytes) accepted {accepted:?}", received.len());
    println!("output {out:?}; oracle distances {:?}, budget {:?}, choice {:?}", sp.distances, sp.budget, sp.choice.map(|i| refs[i]));
    Ok(judge(received, &refs, &out, &sp).into_iter().collect())
}
