//! C05 — scalars accept exactly the representable values, exactly, and say why not.
//!
//! Oracle: independent i128/u128 arithmetic + an exact-rounding float spec that never uses `as`
//! (exact decimal expansion of the input, parsed by `str::parse`, which is correctly rounded).
use crate::{report, shard_of, Finding};
use monitor::{run_json, run_ov, Outcome, RKind, Run, Script};
use serde_json::{json, Value as J};
use std::collections::BTreeSet;
use std::num::*;
use vcore::evidence::{Acc, Finish};
use vcore::{Ctx, Ov, Proj, Rng, VK};

// ------------------------------------------------------------------------------------------------
// targets

#[derive(Clone, Copy, Debug, PartialEq)]
pub enum Class {
    Unsigned { max: u128, nonzero: bool },
    Signed { min: i128, max: i128, nonzero: bool },
    F32,
    F64,
    Bool,
    Unit,
    Char,
    Str,
}

pub struct Target {
    pub name: &'static str,
    pub class: Class,
    pub ov: fn(&Ov) -> Run,
    pub json: fn(&J) -> Run,
}

fn umax(bits: u32) -> u128 {
    if bits >= 128 {
        u128::MAX
    } else {
        (1u128 << bits) - 1
    }
}
fn imax(bits: u32) -> i128 {
    if bits >= 128 {
        i128::MAX
    } else {
        (1i128 << (bits - 1)) - 1
    }
}
fn imin(bits: u32) -> i128 {
    if bits >= 128 {
        i128::MIN
    } else {
        -(1i128 << (bits - 1))
    }
}
const fn u(bits: u32, nonzero: bool) -> (u32, bool, bool) {
    (bits, false, nonzero)
}
const fn s(bits: u32, nonzero: bool) -> (u32, bool, bool) {
    (bits, true, nonzero)
}
fn int_class(spec: (u32, bool, bool)) -> Class {
    let (bits, signed, nonzero) = spec;
    if signed {
        Class::Signed { min: imin(bits), max: imax(bits), nonzero }
    } else {
        Class::Unsigned { max: umax(bits), nonzero }
    }
}

macro_rules! tgt {
    ($t:ty, $class:expr) => {
        Target {
            name: stringify!($t),
            class: $class,
            ov: |p| run_ov::<$t>(p, Script::Continue),
            json: |j| run_json::<$t>(j, Script::Continue),
        }
    };
}

/// The 30 scalar targets of the statement (4 + 12 plain integers + 12 NonZero + 2 floats). Widths are written down here (pointer width is the
/// platform's), not taken from `T::MAX`.
pub fn targets() -> Vec<Target> {
    let p = usize::BITS;
    vec![
        tgt!(bool, Class::Bool),
        tgt!((), Class::Unit),
        tgt!(char, Class::Char),
        tgt!(String, Class::Str),
        tgt!(u8, int_class(u(8, false))),
        tgt!(u16, int_class(u(16, false))),
        tgt!(u32, int_class(u(32, false))),
        tgt!(u64, int_class(u(64, false))),
        tgt!(u128, int_class(u(128, false))),
        tgt!(usize, int_class(u(p, false))),
        tgt!(i8, int_class(s(8, false))),
        tgt!(i16, int_class(s(16, false))),
        tgt!(i32, int_class(s(32, false))),
        tgt!(i64, int_class(s(64, false))),
        tgt!(i128, int_class(s(128, false))),
        tgt!(isize, int_class(s(p, false))),
        tgt!(NonZeroU8, int_class(u(8, true))),
        tgt!(NonZeroU16, int_class(u(16, true))),
        tgt!(NonZeroU32, int_class(u(32, true))),
        tgt!(NonZeroU64, int_class(u(64, true))),
        tgt!(NonZeroU128, int_class(u(128, true))),
        tgt!(NonZeroUsize, int_class(u(p, true))),
        tgt!(NonZeroI8, int_class(s(8, true))),
        tgt!(NonZeroI16, int_class(s(16, true))),
        tgt!(NonZeroI32, int_class(s(32, true))),
        tgt!(NonZeroI64, int_class(s(64, true))),
        tgt!(NonZeroI128, int_class(s(128, true))),
        tgt!(NonZeroIsize, int_class(s(p, true))),
        tgt!(f32, Class::F32),
        tgt!(f64, Class::F64),
    ]
}

// ------------------------------------------------------------------------------------------------
// oracle

#[derive(Clone, Debug, PartialEq)]
pub enum Why {
    TooLarge { value: i128, bound: String },
    TooSmall { value: i128, bound: String },
    /// non-canonical input (a non-negative number presented as NegativeInteger) above MAX: which of
    /// the two bounds the message names is not constrained
    TooLargeNonCanonical { value: i128 },
    Zero,
    CharCount { s: String, n: usize },
    Empty,
}

impl Why {
    fn tag(&self) -> &'static str {
        match self {
            Why::TooLarge { .. } | Why::TooLargeNonCanonical { .. } => "too_large",
            Why::TooSmall { .. } => "too_small",
            Why::Zero => "zero",
            Why::CharCount { .. } => "char_count",
            Why::Empty => "empty_string",
        }
    }
}

#[derive(Clone, Debug, PartialEq)]
pub enum Expect {
    Ok(Proj),
    /// a float target fed NaN: any NaN is the IEEE conversion
    OkNan,
    Kind(Vec<VK>),
    Domain(Why),
}

pub fn admissible(c: Class) -> Vec<VK> {
    match c {
        Class::Unsigned { .. } => vec![VK::Integer],
        Class::Signed { .. } => vec![VK::Integer, VK::NegativeInteger],
        Class::F32 | Class::F64 => vec![VK::Integer, VK::NegativeInteger, VK::Float],
        Class::Bool => vec![VK::Boolean],
        Class::Unit => vec![VK::Null],
        Class::Char | Class::Str => vec![VK::String],
    }
}

/// Exact decimal expansion of the number an input denotes (None for non-finite floats).
fn exact_decimal(p: &Ov) -> Option<String> {
    match p {
        Ov::Int(u) => Some(u.to_string()),
        Ov::Neg(i) => Some(i.to_string()),
        Ov::Float(f) if f.get().is_finite() => Some(format!("{:.1100}", f.get())),
        _ => None,
    }
}

fn float_expect(p: &Ov, single: bool) -> Expect {
    if let Ov::Float(f) = p {
        let x = f.get();
        if x.is_nan() {
            return Expect::OkNan;
        }
        if x.is_infinite() {
            return Expect::Ok(if single {
                Proj::F32(if x > 0.0 { f32::INFINITY } else { f32::NEG_INFINITY }.to_bits())
            } else {
                Proj::F64(x.to_bits())
            });
        }
    }
    let d = exact_decimal(p).expect("numeric input");
    // str::parse is correctly rounded (round-to-nearest-even, overflow to infinity, sign of zero kept)
    if single {
        Expect::Ok(Proj::F32(d.parse::<f32>().expect("decimal").to_bits()))
    } else {
        Expect::Ok(Proj::F64(d.parse::<f64>().expect("decimal").to_bits()))
    }
}

pub fn expect(c: Class, p: &Ov) -> Expect {
    let adm = admissible(c);
    if !adm.contains(&p.kind()) {
        return Expect::Kind(adm);
    }
    match (c, p) {
        (Class::Bool, Ov::Bool(b)) => Expect::Ok(Proj::Bool(*b)),
        (Class::Unit, Ov::Null) => Expect::Ok(Proj::Unit),
        (Class::Str, Ov::Str(s)) => Expect::Ok(Proj::Str(s.clone())),
        (Class::Char, Ov::Str(s)) => {
            let n = s.chars().count();
            match n {
                1 => Expect::Ok(Proj::Char(s.chars().next().unwrap())),
                0 => Expect::Domain(Why::Empty),
                _ => Expect::Domain(Why::CharCount { s: s.clone(), n }),
            }
        }
        (Class::Unsigned { max, nonzero }, Ov::Int(u)) => {
            let v = u128::from(*u);
            if v == 0 && nonzero {
                Expect::Domain(Why::Zero)
            } else if v > max {
                Expect::Domain(Why::TooLarge { value: i128::from(*u), bound: max.to_string() })
            } else {
                Expect::Ok(Proj::UInt(v))
            }
        }
        (Class::Signed { min, max, nonzero }, Ov::Int(_) | Ov::Neg(_)) => {
            let (v, noncanonical) = match p {
                Ov::Int(u) => (i128::from(*u), false),
                Ov::Neg(i) => (i128::from(*i), *i > 0),
                _ => unreachable!(),
            };
            if v == 0 && nonzero {
                Expect::Domain(Why::Zero)
            } else if v > max {
                if noncanonical {
                    Expect::Domain(Why::TooLargeNonCanonical { value: v })
                } else {
                    Expect::Domain(Why::TooLarge { value: v, bound: max.to_string() })
                }
            } else if v < min {
                Expect::Domain(Why::TooSmall { value: v, bound: min.to_string() })
            } else {
                Expect::Ok(Proj::Int(v))
            }
        }
        (Class::F32, _) => float_expect(p, true),
        (Class::F64, _) => float_expect(p, false),
        _ => unreachable!("admissible kind without a rule"),
    }
}

/// Does `msg` contain the decimal number `dec` ("-128", "255") as a whole number (a maximal run of
/// digits)? A negative number needs its minus sign; for a non-negative one a preceding '-' is
/// tolerated (it may be punctuation).
fn names_number(msg: &str, dec: &str) -> bool {
    let (neg, digits) = match dec.strip_prefix('-') {
        Some(d) => (true, d),
        None => (false, dec),
    };
    let b = msg.as_bytes();
    let mut i = 0;
    while i < b.len() {
        if b[i].is_ascii_digit() {
            let st = i;
            while i < b.len() && b[i].is_ascii_digit() {
                i += 1;
            }
            if &msg[st..i] == digits && (!neg || (st > 0 && b[st - 1] == b'-')) {
                return true;
            }
        } else {
            i += 1;
        }
    }
    false
}

#[derive(Clone, Copy, PartialEq, Eq, Debug)]
pub enum Source {
    Ov,
    Json,
}
impl Source {
    pub fn name(self) -> &'static str {
        match self {
            Source::Ov => "ov",
            Source::Json => "serde_json",
        }
    }
}

fn wit(t: &Target, p: &Ov, src: Source, e: &Expect, run: &Run, detail: String) -> J {
    json!({
        "target": t.name,
        "payload": p,
        "payload_shown": p.show(),
        "source": src.name(),
        "expected": format!("{e:?}"),
        "outcome": run.outcome.show(),
        "trace": run.trace_lines(8),
        "detail": detail,
    })
}

/// Compare one monitored run with the oracle. Returns the refuting observations (at most one per run).
pub fn judge(t: &Target, p: &Ov, src: Source, e: &Expect, run: &Run) -> Option<Finding> {
    let f = |rule: &str, text: &str, detail: String| {
        Some(Finding::new(format!("C05/{rule}/{}", t.name), text.to_string(), wit(t, p, src, e, run, detail)))
    };
    if let Outcome::Panic(m) = &run.outcome {
        return f("panic", "deserialization of a scalar panicked", m.clone());
    }
    let reports: Vec<_> = run.reports().collect();
    match e {
        Expect::Ok(_) | Expect::OkNan => {
            let Outcome::Ok(got) = &run.outcome else {
                return f("rejected-in-domain", "admissible kind and value in the domain, yet deserialization failed", String::new());
            };
            let equal = match e {
                Expect::Ok(want) => got == want,
                _ => match got {
                    Proj::F32(b) => f32::from_bits(*b).is_nan(),
                    Proj::F64(b) => f64::from_bits(*b).is_nan(),
                    _ => false,
                },
            };
            if !equal {
                return match t.class {
                    Class::F32 | Class::F64 => f("float-bits", "float result is not the IEEE (round-to-nearest-even) conversion of the given number", format!("got {got:?}")),
                    _ => f("wrapped-value", "accepted value differs from the input (wrapped / truncated / clamped / altered)", format!("got {got:?}")),
                };
            }
            if !reports.is_empty() {
                return f("report-on-success", "a report was made although the call succeeded", String::new());
            }
            None
        }
        Expect::Kind(adm) => {
            if let Outcome::Ok(_) = run.outcome {
                return f("accepted-wrong-kind", "payload kind is not admissible for the target, yet it was accepted", String::new());
            }
            if reports.len() != 1 {
                return f("report-count", "a scalar failure must make exactly one report", format!("{} reports", reports.len()));
            }
            let r = reports[0];
            let RKind::Kind { actual, accepted, .. } = &r.kind else {
                return f("kind-error-expected", "wrong kind must be reported as a kind error", format!("got {}", r.kind.tag()));
            };
            let set: BTreeSet<VK> = accepted.iter().copied().collect();
            if set.len() != accepted.len() {
                return f("accepted-duplicates", "`accepted` of a kind error lists a kind twice", format!("{accepted:?}"));
            }
            let want: BTreeSet<VK> = adm.iter().copied().collect();
            if set != want {
                return f("accepted-set", "`accepted` of a kind error is not exactly the admissible kinds", format!("accepted {accepted:?}, admissible {adm:?}"));
            }
            if !actual.eq_modulo_order(p) {
                return f("actual-mismatch", "`actual` of a kind error is not the received value", format!("actual {}", actual.show()));
            }
            if !r.loc.is_empty() {
                return f("location", "report of a root scalar is not located at the root", vcore::render_path(&r.loc));
            }
            None
        }
        Expect::Domain(why) => {
            if let Outcome::Ok(got) = &run.outcome {
                return f("accepted-out-of-domain", "value outside the target's domain was accepted", format!("got {got:?}"));
            }
            if reports.len() != 1 {
                return f("report-count", "a scalar failure must make exactly one report", format!("{} reports", reports.len()));
            }
            let r = reports[0];
            let RKind::Unexpected { msg } = &r.kind else {
                return f("domain-error-expected", "admissible kind outside the domain must be a domain (Unexpected) error", format!("got {}", r.kind.tag()));
            };
            match why {
                Why::TooLarge { value, bound } | Why::TooSmall { value, bound } => {
                    if !names_number(msg, &value.to_string()) {
                        return f("domain-msg-value", "domain error does not quote the received number", msg.clone());
                    }
                    if !names_number(msg, bound) {
                        return f("domain-msg-bound", "domain error does not quote the violated bound (MAX when too large, MIN when too small)", msg.clone());
                    }
                }
                Why::TooLargeNonCanonical { value } => {
                    if !names_number(msg, &value.to_string()) {
                        return f("domain-msg-value", "domain error does not quote the received number", msg.clone());
                    }
                }
                Why::Zero => {
                    if !(msg.to_lowercase().contains("zero") || names_number(msg, "0")) {
                        return f("domain-msg-zero", "domain error for 0 into a NonZero target does not mention a zero", msg.clone());
                    }
                    // a bound that the message names must be a bound the target has (round 8): every number between
                    // backticks is 0, the target's MIN or the target's MAX
                    let bounds: Vec<String> = match t.class {
                        Class::Unsigned { max, .. } => vec!["0".into(), max.to_string()],
                        Class::Signed { min, max, .. } => vec!["0".into(), min.to_string(), max.to_string()],
                        _ => vec![],
                    };
                    for q in msg.split('`').skip(1).step_by(2) {
                        let digits = q.strip_prefix('-').unwrap_or(q);
                        if !bounds.is_empty() && !digits.is_empty() && digits.bytes().all(|b| b.is_ascii_digit()) && !bounds.iter().any(|b| b == q) {
                            return f("domain-msg-bound", "domain error for 0 into a NonZero target names a bound the target does not have", msg.clone());
                        }
                    }
                }
                Why::CharCount { s, n } => {
                    if !msg.contains(s.as_str()) || !names_number(msg, &n.to_string()) {
                        return f("domain-msg-char", "domain error for char does not contain the received string and its number of scalar values", msg.clone());
                    }
                }
                Why::Empty => {
                    if !msg.to_lowercase().contains("empty") {
                        return f("domain-msg-char", "domain error for char from \"\" does not say the string is empty", msg.clone());
                    }
                }
            }
            if !r.loc.is_empty() {
                return f("location", "report of a root scalar is not located at the root", vcore::render_path(&r.loc));
            }
            None
        }
    }
}

// ------------------------------------------------------------------------------------------------
// inputs

/// The enumerated integers (seed independent), as mathematical values that fit u64 or i64.
pub fn enumerated_integers() -> Vec<i128> {
    let mut s: BTreeSet<i128> = BTreeSet::new();
    for v in -70_000i128..=70_000 {
        s.insert(v);
    }
    for k in 0..=64u32 {
        let p = 1i128 << k;
        for d in [-1i128, 0, 1] {
            s.insert(p + d);
            s.insert(-(p + d));
        }
    }
    // every type's MIN / MAX, ± 1
    for bits in [8u32, 16, 32, 64, usize::BITS] {
        for b in [umax(bits) as i128, imax(bits), imin(bits)] {
            for d in [-1i128, 0, 1] {
                s.insert(b + d);
            }
        }
    }
    // shapes on which converting an integer to f32 through f64 rounds twice:
    // 2^k + 2^(k-24) (+1 / -1 / +2^(k-53)): just above / at / just below an f32 tie
    for k in 25..=63u32 {
        let base = (1i128 << k) + (1i128 << (k - 24));
        for d in [-1i128, 0, 1, 3] {
            s.insert(base + d);
            s.insert(-(base + d));
            s.insert(base + (1i128 << (k - 23)) + d); // odd mantissa neighbour: tie rounds up
            s.insert(-(base + (1i128 << (k - 23)) + d));
        }
    }
    s.into_iter().filter(|v| *v >= i128::from(i64::MIN) && *v <= i128::from(u64::MAX)).collect()
}

pub fn int_ov(v: i128) -> Ov {
    if v >= 0 {
        Ov::Int(u64::try_from(v).expect("fits u64"))
    } else {
        Ov::Neg(i64::try_from(v).expect("fits i64"))
    }
}

/// ~2 000 floats chosen at the places where a conversion can go wrong (seed independent).
pub fn enumerated_floats() -> Vec<f64> {
    let mut bits: BTreeSet<u64> = BTreeSet::new();
    let mut add = |x: f64| {
        bits.insert(x.to_bits());
        bits.insert((-x).to_bits());
    };
    let nb = |x: f64, d: i64| f64::from_bits((x.to_bits() as i64 + d) as u64);
    add(0.0);
    // powers of two over the whole exponent range of f64 (dense where f32 has its limits)
    for k in -1074i32..=1023 {
        if (-160..=130).contains(&k) || k % 8 == 0 || k < -1066 || k > 1016 {
            add(2f64.powi(k));
        }
    }
    // neighbourhoods (± 1, 2 ulp of f64) of: f64 subnormal limits, f32 subnormal limits, f32 ties at
    // the bottom (2^-150) and at the top (f32::MAX + half an ulp = 2^128 - 2^103), 2^24, 2^53, 1e300
    let f32_max = f64::from(f32::MAX);
    let centres = [
        f64::from_bits(1),
        f64::MIN_POSITIVE,
        f64::MAX,
        2f64.powi(-149),
        2f64.powi(-150),
        2f64.powi(-126),
        1.5 * 2f64.powi(-149),
        2.5 * 2f64.powi(-149),
        f32_max,
        f32_max + 2f64.powi(103),
        2f64.powi(128),
        2f64.powi(24),
        2f64.powi(24) + 1.0,
        2f64.powi(24) - 1.0,
        2f64.powi(25) + 2.0,
        2f64.powi(25) + 1.0,
        2f64.powi(25) + 3.0,
        2f64.powi(53),
        2f64.powi(53) - 1.0,
        2f64.powi(53) + 2.0,
        2f64.powi(63),
        2f64.powi(64),
        1e300,
        1e-300,
        1e38,
        3.4028235e38,
        3.4028236e38,
        1.0,
        0.1,
        0.2,
        0.3,
        0.5,
        1.5,
        2.5,
        1.0 / 3.0,
        std::f64::consts::PI,
        16777217.0,
        4294967295.0,
        4294967296.0,
        1.8446744073709552e19,
        9.223372036854776e18,
    ];
    for c in centres {
        for d in -2i64..=2 {
            let y = nb(c, d);
            if y.is_finite() {
                add(y);
            }
        }
    }
    // f32 tie patterns: an f32 mantissa followed by exactly half an ulp, and one f64 ulp either side
    for (e, m) in [(0i32, 0u64), (0, 1), (10, 0x2a_aaaa), (-20, 0x7f_ffff), (100, 0x40_0001), (-126, 3), (127, 0x7f_fffe)] {
        let x = f64::from_bits((((e + 1023) as u64) << 52) | (m << 29) | (1 << 28));
        for d in -1i64..=1 {
            add(nb(x, d));
        }
    }
    // integral floats and halves
    for k in -300i32..=300 {
        add(f64::from(k));
        add(f64::from(k) + 0.5);
    }
    for k in [255.0, 256.0, 65535.0, 65536.0, 70000.0, 1e10, 1e15, 1e16, 1e17, 1e19, 1e20, 1e22, 1e23] {
        add(k);
    }
    bits.into_iter().map(f64::from_bits).collect()
}

pub const ALPHABET: [char; 6] = ['a', 'Z', 'é', '日', '😀', '\u{301}'];

pub fn enumerated_strings() -> Vec<String> {
    let mut out = vec![String::new()];
    let mut level = vec![String::new()];
    for _ in 0..4 {
        let mut next = vec![];
        for s in &level {
            for c in ALPHABET {
                let mut t = s.clone();
                t.push(c);
                next.push(t);
            }
        }
        out.extend(next.iter().cloned());
        level = next;
    }
    out
}

pub fn enumerated_others() -> Vec<Ov> {
    vec![
        Ov::Null,
        Ov::Bool(true),
        Ov::Bool(false),
        Ov::Seq(vec![]),
        Ov::Seq(vec![Ov::Int(1), Ov::str("x")]),
        Ov::Seq(vec![Ov::Seq(vec![Ov::Null])]),
        Ov::Map(vec![]),
        Ov::Map(vec![("a".into(), Ov::Int(1))]),
        Ov::Map(vec![("b".into(), Ov::Null), ("a".into(), Ov::Seq(vec![Ov::Neg(-1)]))]),
    ]
}

/// Inputs only the second value source can present: non-finite floats, a NegativeInteger that is not
/// negative.
pub fn ov_only_inputs() -> Vec<Ov> {
    let mut v = vec![
        Ov::float(f64::INFINITY),
        Ov::float(f64::NEG_INFINITY),
        Ov::float(f64::NAN),
        Ov::float(f64::from_bits(0xfff8_0000_0000_0001)),
        Ov::float(f64::from_bits(0x7ff0_0000_0000_0001)),
    ];
    for i in [0i64, 1, 5, 127, 128, 200, 255, 256, 32767, 32768, 65535, 65536, 1 << 31, 1 << 32, i64::MAX] {
        v.push(Ov::Neg(i));
    }
    v
}

// ------------------------------------------------------------------------------------------------
// driver

fn bucket(p: &Ov) -> u32 {
    match p {
        Ov::Int(u) => 64 - u.leading_zeros(),
        Ov::Neg(i) => 64 - i.unsigned_abs().leading_zeros(),
        Ov::Float(f) => ((f.0 >> 52) & 0x7ff) as u32 / 8,
        Ov::Str(s) => s.chars().count() as u32,
        Ov::Seq(v) => v.len() as u32,
        Ov::Map(v) => v.len() as u32,
        _ => 0,
    }
}

fn kind_name(k: VK) -> &'static str {
    match k {
        VK::Null => "null",
        VK::Boolean => "boolean",
        VK::Integer => "integer",
        VK::NegativeInteger => "negative_integer",
        VK::Float => "float",
        VK::String => "string",
        VK::Sequence => "sequence",
        VK::Map => "map",
    }
}

/// One (target, input) pair through the value sources that can present the input.
pub fn check_pair(acc: &mut Acc, t: &Target, p: &Ov, jv: Option<&J>) {
    let e = expect(t.class, p);
    let class: &str = match &e {
        Expect::Ok(_) | Expect::OkNan => "accepted",
        Expect::Kind(_) => "kind_error",
        Expect::Domain(w) => w.tag(),
    };
    let float_target = matches!(t.class, Class::F32 | Class::F64);
    let nontrivial = match &e {
        Expect::Ok(want) => {
            float_target
                && match p {
                    Ov::Float(f) => match want {
                        // a rounding happened
                        Proj::F32(b) => f64::from(f32::from_bits(*b)).to_bits() != f.0,
                        _ => false,
                    },
                    _ => true,
                }
        }
        _ => true,
    };
    for src in [Source::Ov, Source::Json] {
        let run = match src {
            Source::Ov => (t.ov)(p),
            Source::Json => match jv {
                Some(j) => (t.json)(j),
                None => continue,
            },
        };
        acc.eval();
        match src {
            Source::Ov => acc.count("runs.ov"),
            Source::Json => acc.count("runs.serde_json"),
        }
        match &run.outcome {
            Outcome::Ok(_) => acc.count("observed.accepted"),
            Outcome::Panic(_) => acc.count("observed.panic"),
            Outcome::Err { .. } => match run.reports().next().map(|r| &r.kind) {
                Some(RKind::Kind { .. }) => acc.count("observed.kind_error"),
                Some(RKind::Unexpected { .. }) => acc.count("observed.domain_error"),
                _ => acc.count("observed.other_error"),
            },
        }
        acc.count(&format!("expected.{class}"));
        if float_target && matches!(e, Expect::Ok(_) | Expect::OkNan) {
            acc.count("float_conversions_checked_bit_for_bit");
        }
        if let Some(f) = judge(t, p, src, &e, &run) {
            report(acc, vec![f]);
        }
        if nontrivial && acc.samples.len() < acc.sample_cap && !acc.sets.get("sampled").map(|s| s.contains(class)).unwrap_or(false) {
            acc.note("sampled", class);
            acc.sample(|| json!({"target": t.name, "payload": p.show(), "source": src.name(), "expected": format!("{e:?}"), "outcome": run.outcome.show(), "trace": run.trace_lines(4)}));
        }
    }
    if nontrivial {
        acc.nontrivial(&(t.name, kind_name(p.kind()), class, bucket(p)));
    }
}

fn random_input(rng: &mut Rng, t: &Target) -> Ov {
    let around = |rng: &mut Rng, b: i128| -> Ov {
        let v = b + rng.range(-3, 3) as i128;
        let v = v.clamp(i128::from(i64::MIN), i128::from(u64::MAX));
        int_ov(v)
    };
    match rng.below(10) {
        // raw 64 random bits, as Integer or as the i64 they spell
        0 | 1 => {
            let x = rng.next();
            if rng.chance(1, 2) {
                Ov::Int(x)
            } else {
                let i = i64::from_ne_bytes(x.to_ne_bytes());
                if i < 0 {
                    Ov::Neg(i)
                } else {
                    Ov::Int(x)
                }
            }
        }
        // random bit length, random sign
        2 | 3 | 4 => {
            let len = rng.below(65) as u32;
            let mag = if len == 0 { 0 } else { rng.next() >> (64 - len) };
            if rng.chance(1, 2) && mag <= (1u64 << 63) && mag > 0 {
                int_ov(-i128::from(mag))
            } else {
                Ov::Int(mag)
            }
        }
        // near the target's own bounds
        5 | 6 => match t.class {
            Class::Unsigned { max, .. } => {
                let b = if max > u128::from(u64::MAX) { i128::from(u64::MAX) } else { max as i128 };
                if rng.chance(1, 4) {
                    around(rng, 0)
                } else {
                    around(rng, b)
                }
            }
            Class::Signed { min, max, .. } => {
                let hi = max.min(i128::from(u64::MAX));
                let lo = min.max(i128::from(i64::MIN));
                match rng.below(3) {
                    0 => around(rng, hi),
                    1 => around(rng, lo),
                    _ => around(rng, 0),
                }
            }
            _ => {
                let k = rng.below(64);
                around(rng, 1i128 << k)
            }
        },
        // an integer on / next to an f32 or f64 rounding tie
        7 => {
            let k = 25 + rng.below(39) as u32;
            let keep = if rng.chance(1, 2) { 24 } else { 53 };
            let top = (rng.next() | (1 << 63)) >> (64 - keep.min(k + 1));
            let shift = (k + 1).saturating_sub(keep);
            let mut v = (u128::from(top) << shift) as i128;
            if shift > 0 {
                v += 1i128 << (shift - 1); // half an ulp
                v += rng.range(-1, 1) as i128;
            }
            let v = v.min(i128::from(u64::MAX));
            if rng.chance(1, 2) && v <= (1i128 << 63) {
                int_ov(-v)
            } else {
                int_ov(v)
            }
        }
        // random float bit pattern (finite), or an f32 tie pattern
        8 => loop {
            let mut b = rng.next();
            if rng.chance(1, 2) {
                // keep the exponent inside f32's range and put the low 29 bits on / next to a tie
                let e = (1023 - 150 + rng.below(280)) as u64;
                b = (b & 0x800f_ffff_e000_0000) | (e << 52) | (1 << 28);
                b = (b as i64 + rng.range(-1, 1)) as u64;
            }
            let f = f64::from_bits(b);
            if f.is_finite() {
                break Ov::float(f);
            }
        },
        // strings
        _ => {
            let n = rng.below(6);
            let mut s = String::new();
            for _ in 0..n {
                s.push(*rng.pick(&ALPHABET));
            }
            Ov::Str(s)
        }
    }
}

pub fn run(ctx: &Ctx) -> i32 {
    let ts = targets();
    let mut inputs: Vec<Ov> = enumerated_integers().into_iter().map(int_ov).collect();
    let n_int = inputs.len();
    let floats = enumerated_floats();
    let n_float = floats.len();
    inputs.extend(floats.into_iter().map(Ov::float));
    let strings = enumerated_strings();
    let n_str = strings.len();
    inputs.extend(strings.into_iter().map(Ov::Str));
    let others = enumerated_others();
    let n_other = others.len();
    inputs.extend(others);
    let ovonly = ov_only_inputs();
    let n_ovonly = ovonly.len();
    inputs.extend(ovonly);
    let n_random: u64 = ctx.tier.pick(300_000, 5_000_000);

    let acc = ctx.par(|shard, n| {
        let mut acc = Acc::new();
        acc.sample_cap = if shard == 0 { 6 } else { 0 };
        // control: the oracle and the implementation must trivially agree on these
        if shard == 0 {
            for (name, p) in [("u8", Ov::Int(7)), ("bool", Ov::Bool(true)), ("String", Ov::str("ok")), ("f64", Ov::float(1.5))] {
                let t = ts.iter().position(|t| t.name == name).expect("control target");
                let e = expect(ts[t].class, &p);
                let run = (ts[t].ov)(&p);
                if !matches!(e, Expect::Ok(_)) || judge(&ts[t], &p, Source::Ov, &e, &run).is_some() {
                    // not a reason to stop: if the implementation is at fault the enumeration below says so
                    // with a witness (a violation outranks this note); if the harness is, this note remains
                    acc.inconclusive(format!("control case {} <- {} does not pass", ts[t].name, p.show()));
                }
            }
        }
        // The same received value gives the same domain error whichever integer kind carried it: a zero is
        // "a zero" for a signed NonZero target both as Integer(0) and as NegativeInteger(0) (only the second
        // value source can present the latter). Wording-free: the two messages are compared with each other.
        if shard == 0 {
            for t in ts.iter().filter(|t| matches!(t.class, Class::Signed { nonzero: true, .. })) {
                let a = (t.ov)(&Ov::Int(0));
                let b = (t.ov)(&Ov::Neg(0));
                acc.eval();
                acc.count("zero_presented_as_both_integer_kinds");
                let msg = |r: &Run| r.reports().next().and_then(|x| if let RKind::Unexpected { msg } = &x.kind { Some(msg.clone()) } else { None });
                let (ma, mb) = (msg(&a), msg(&b));
                if ma.is_none() || ma != mb {
                    let e = expect(t.class, &Ov::Neg(0));
                    report(
                        &mut acc,
                        vec![Finding::new(
                            format!("C05/zero-identified-differently-by-integer-kind/{}", t.name),
                            "0 into a signed NonZero target is reported differently as NegativeInteger(0) than as Integer(0): one of the two does not identify a zero".to_string(),
                            wit(t, &Ov::Neg(0), Source::Ov, &e, &b, format!("Integer(0): {ma:?} ; NegativeInteger(0): {mb:?}")),
                        )],
                    );
                }
            }
        }
        for (i, p) in inputs.iter().enumerate() {
            if !shard_of(i as u64, shard, n) {
                continue;
            }
            let jv = if p.json_representable() { Some(p.to_json()) } else { None };
            for t in &ts {
                check_pair(&mut acc, t, p, jv.as_ref());
            }
        }
        // seeded part
        for (ti, t) in ts.iter().enumerate() {
            let mut rng = Rng::derive(ctx.seed, 0xC05, (ti * n + shard) as u64);
            let mine = n_random / n as u64 + u64::from((shard as u64) < n_random % n as u64);
            for _ in 0..mine {
                let p = random_input(&mut rng, t);
                let jv = if p.json_representable() { Some(p.to_json()) } else { None };
                check_pair(&mut acc, t, &p, jv.as_ref());
                acc.count("random_inputs");
            }
        }
        acc.sets.remove("sampled");
        acc
    });
    ctx.finish(
        acc,
        Finish {
            level: "exploration",
            rule: format!(
                "30 scalar targets (bool, (), char, String, u8..u128/usize, i8..i128/isize, the 12 NonZero types, f32, f64) x every enumerated payload, each through both value sources (serde_json::Value and the instrumented ordered source) with the keep-going recording error type. Enumerated, independent of the seed: {n_int} integers (all of [-70000,70000] as Integer when >=0 / NegativeInteger when <0; 2^k-1, 2^k, 2^k+1 and negations for k<=64 where they fit u64/i64; every width's MIN/MAX +-1; 0; integers sitting on or next to an f32 rounding tie), {n_float} floats (+-0, subnormals, every power of two in f32's range, neighbours of f32::MAX and of the overflow tie 2^128-2^103, 2^24+-1, 2^53+-1, 1e300, f64::MAX, integral floats and halves, f32 tie bit patterns), {n_str} strings of 0..4 scalar values over {{a,Z,e-acute,CJK,emoji,combining accent}}, {n_other} non-scalar payloads (null, booleans, empty/non-empty/nested arrays and objects), {n_ovonly} payloads only the second source can present (+-inf, NaN, NegativeInteger(>=0)). Plus {n_random} seeded random payloads per target (random bit lengths, raw 64-bit values, values around the target's own bounds, tie-shaped integers and floats, strings). Oracle in i128/u128 arithmetic; floats bit-for-bit against str::parse of the exact decimal expansion. Non-trivial = any case other than an in-range value accepted without conversion (i.e. every rejection, every integer->float conversion, every f64->f32 rounding); distinct = (target, payload kind, outcome class, bit-length / exponent / length bucket)."
            ),
            exhaustive: true,
            assumptions: vec![
                "exhaustive refers to the enumerated finite space named in the rule (seed independent); the random part is extra".into(),
                "usize/isize are checked at this platform's pointer width".into(),
                "a message 'contains' a number when the decimal digits appear as a whole number token (a negative number with its minus sign); wording is otherwise free".into(),
                "NegativeInteger(v>=0) is presented only through the second value source; for v above MAX the message must quote v but either bound is tolerated".into(),
                "that the returned error holds exactly the report made is C01's concern; here 'exactly one report' counts reports made during the call".into(),
            ],
        },
    )
}

pub fn replay(w: &J) -> Result<Vec<Finding>, String> {
    let name = w["target"].as_str().ok_or("witness has no target")?;
    let ts = targets();
    let t = ts.iter().find(|t| t.name == name).ok_or_else(|| format!("unknown target {name}"))?;
    let p: Ov = serde_json::from_value(w["payload"].clone()).map_err(|e| format!("witness payload: {e}"))?;
    let src = if w["source"].as_str() == Some("serde_json") { Source::Json } else { Source::Ov };
    let e = expect(t.class, &p);
    let run = match src {
        Source::Ov => (t.ov)(&p),
        Source::Json => {
            if !p.json_representable() {
                return Err("payload is not representable as serde_json::Value".into());
            }
            (t.json)(&p.to_json())
        }
    };
    println!("target {} source {} payload {}", t.name, src.name(), p.show());
    println!("expected {e:?}");
    for l in run.trace_lines(20) {
        println!("  {l}");
    }
    println!("outcome {}", run.outcome.show());
    Ok(judge(t, &p, src, &e, &run).into_iter().collect())
}
