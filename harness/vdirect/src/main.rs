//! `vdirect <ID> [--tier quick|thorough] [--replay FILE]` — direct-oracle checks C05, C13, C17, C18, C19.
fn main() {
    let args = vdirect::parse_args();
    let ctx = vcore::Ctx::new(&args.property, args.tier);
    // a function under test that does not return never produces the specified answer: own violation
    vdirect::start_watchdog(&args.property, args.tier);
    let code = match &args.replay {
        Some(path) => vdirect::replay(&ctx, &args.property, path),
        None => vdirect::run(&ctx, &args.property),
    };
    let code = code.unwrap_or_else(|| {
        println!("INCONCLUSIVE property={} reason=no driver for this property in this binary (vdirect has C05 C13 C17 C18 C19)", args.property);
        2
    });
    std::process::exit(code);
}
