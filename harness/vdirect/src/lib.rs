//! Direct-oracle checks: properties whose oracle is a small piece of independent arithmetic or
//! string code (no reference model, no subject catalogue).
//!
//! * C05 — scalars accept exactly the representable values (both value sources, recording error type)
//! * C13 — serde_json bridge is lossless and self-consistent
//! * C17 — expected-kinds phrase depends only on the set of kinds
//! * C18 — did-you-mean suggests only a closest accepted name within the typo budget
//! * C19 — value pointers faithfully record the path that was pushed
//!
//! Nothing in here uses strsim, convert_case or any other code deserr itself uses to compute the
//! answers that are checked.
pub mod c05;
pub mod c13;
pub mod c17;
pub mod c18;
pub mod c19;

use serde_json::Value;
use vcore::{Ctx, Tier};

pub struct Args {
    pub property: String,
    pub tier: Tier,
    pub replay: Option<String>,
}

/// Same command line as the vchecks drivers: `<ID> [--tier quick|thorough] [--replay FILE]`,
/// tier default from VERIF_TIER (seed from VERIF_SEED is read by `Ctx::new`).
pub fn parse_args() -> Args {
    let a: Vec<String> = std::env::args().collect();
    let mut property = String::new();
    let mut tier = match std::env::var("VERIF_TIER").as_deref() {
        Ok("thorough") => Tier::Thorough,
        _ => Tier::Quick,
    };
    let mut replay = None;
    let mut i = 1;
    while i < a.len() {
        match a[i].as_str() {
            "--tier" => {
                i += 1;
                tier = if a.get(i).map(|s| s.as_str()) == Some("thorough") { Tier::Thorough } else { Tier::Quick };
            }
            "--replay" => {
                i += 1;
                replay = a.get(i).cloned();
            }
            s if property.is_empty() => property = s.to_string(),
            _ => {}
        }
        i += 1;
    }
    Args { property, tier, replay }
}

pub const PROPERTIES: [&str; 5] = ["C05", "C13", "C17", "C18", "C19"];

/// Run the check of `property`; `None` when this crate has no driver for it.
pub fn run(ctx: &Ctx, property: &str) -> Option<i32> {
    Some(match property {
        "C05" => c05::run(ctx),
        "C13" => c13::run(ctx),
        "C17" => c17::run(ctx),
        "C18" => c18::run(ctx),
        "C19" => c19::run(ctx),
        _ => return None,
    })
}

/// Re-evaluate the single case recorded in a replay file; prints `VIOLATION property=<id> replay=<path>`
/// (exit code 1) iff it still fails.
pub fn replay(ctx: &Ctx, property: &str, path: &str) -> Option<i32> {
    if !PROPERTIES.contains(&property) {
        return None;
    }
    let Ok(txt) = std::fs::read_to_string(path) else {
        println!("INCONCLUSIVE property={property} reason=cannot read replay file {path}");
        return Some(2);
    };
    let Ok(v) = serde_json::from_str::<Value>(&txt) else {
        println!("INCONCLUSIVE property={property} reason=replay file is not JSON");
        return Some(2);
    };
    if let Some(p) = v.get("property").and_then(|x| x.as_str()) {
        if p != property {
            println!("INCONCLUSIVE property={property} reason=replay file belongs to property {p}");
            return Some(2);
        }
    }
    println!("replay of {} [{}]", v["signature"].as_str().unwrap_or("?"), v["rule"].as_str().unwrap_or("?"));
    let w = &v["witness"];
    let found: Result<Vec<Finding>, String> = match property {
        "C05" => c05::replay(w),
        "C13" => c13::replay(w),
        "C17" => c17::replay(w),
        "C18" => c18::replay(w),
        "C19" => c19::replay(w),
        _ => unreachable!(),
    };
    let _ = ctx;
    Some(match found {
        Err(reason) => {
            println!("INCONCLUSIVE property={property} reason={reason}");
            2
        }
        Ok(fs) if fs.is_empty() => {
            println!("the recorded case no longer violates the oracle");
            0
        }
        Ok(fs) => {
            for f in &fs {
                println!("  {} — {}\n    {}", f.signature, f.rule, f.witness);
            }
            println!("VIOLATION property={property} replay={path}");
            1
        }
    })
}

/// One refuting observation.
#[derive(Clone, Debug)]
pub struct Finding {
    pub signature: String,
    pub rule: String,
    pub witness: Value,
}

impl Finding {
    pub fn new(signature: impl Into<String>, rule: impl Into<String>, witness: Value) -> Finding {
        Finding { signature: signature.into(), rule: rule.into(), witness }
    }
}

/// Record refuting observations. The witness also says after how many evaluations of this shard the
/// observation was made (the replay ignores that field).
pub(crate) fn report(acc: &mut vcore::evidence::Acc, fs: Vec<Finding>) {
    for mut f in fs {
        acc.count("refuting_observations");
        if let Some(o) = f.witness.as_object_mut() {
            o.insert("evaluation_in_shard".into(), serde_json::json!(acc.evaluations));
        }
        if !acc.violations.iter().any(|v| v.signature == f.signature) {
            acc.note("first_refutation_per_shard_(signature@evaluation)", &format!("{}@{}", f.signature, acc.evaluations));
        }
        acc.violation(f.signature, f.rule, f.witness);
    }
}

pub(crate) fn shard_of(i: u64, shard: usize, n: usize) -> bool {
    (i % n as u64) as usize == shard
}


/// Non-termination watchdog (monitor::watch): a thread that spends 20 s of its own CPU time inside ONE guarded call of a
/// function under test will not return; that function then never produces the answer its property specifies.
pub fn start_watchdog(property: &str, tier: vcore::Tier) {
    const LIMIT: u64 = 20;
    let prop = property.to_string();
    monitor::watch::start(
        LIMIT,
        Box::new(move |context, secs| {
            let ctx = vcore::Ctx::new(&prop, tier);
            let mut acc = vcore::evidence::Acc::new();
            acc.eval();
            acc.nontrivial(&("did-not-return", context));
            acc.violation(
                format!("{prop}/did-not-return"),
                "a call of the function under test did not return",
                serde_json::json!({"context": context, "cpu_seconds_inside_one_call": secs, "limit_cpu_seconds": LIMIT}),
            );
            let code = ctx.finish(
                acc,
                vcore::evidence::Finish {
                    level: "exploration",
                    rule: format!("watchdog: one guarded call consumed {secs} s of its thread's CPU time without returning (limit {LIMIT} s). The run was ended at that point; only this observation is reported."),
                    exhaustive: false,
                    assumptions: vec!["per-thread CPU time, not wall-clock".into()],
                },
            );
            std::process::exit(if code == 0 { 1 } else { code });
        }),
    );
}
