//! C17 — the expected-kinds phrase depends only on the set of kinds and covers it exactly.
use crate::{report, shard_of, Finding};
use deserr::errors::json::value_kinds_description_json as real_value_kinds_description_json;

/// The function under test, with a panic turned into an output that cannot be a valid phrase (so that it is
/// reported as a violation with its input instead of taking the harness thread down).
fn value_kinds_description_json(kinds: &[deserr::ValueKind]) -> String {
    if kinds.len() <= 12 {
        monitor::watch::set_context(|| format!("value_kinds_description_json({kinds:?})"));
    }
    match monitor::run::quiet_catch(|| real_value_kinds_description_json(kinds)) {
        Ok(s) => s,
        Err(m) => format!("<the function panicked: {m}>"),
    }
}
use deserr::ValueKind;
use serde_json::{json, Value as J};
use std::collections::BTreeSet;
use vcore::evidence::{Acc, Finish};
use vcore::Ctx;

pub const KINDS: [ValueKind; 8] = [
    ValueKind::Null,
    ValueKind::Boolean,
    ValueKind::Integer,
    ValueKind::NegativeInteger,
    ValueKind::Float,
    ValueKind::String,
    ValueKind::Sequence,
    ValueKind::Map,
];
pub const KIND_NAMES: [&str; 8] = ["Null", "Boolean", "Integer", "NegativeInteger", "Float", "String", "Sequence", "Map"];

/// Item vocabulary pinned by the snapshot test in src/errors/json.rs.
pub const VOCAB: [&str; 9] = [
    "null",
    "a boolean",
    "a positive integer",
    "a negative integer",
    "an integer",
    "a number",
    "a string",
    "an array",
    "an object",
];

/// The items the statement requires for a set of kinds (bit i = KINDS[i]).
pub fn spec_items(set: u8) -> BTreeSet<&'static str> {
    let has = |i: usize| set & (1 << i) != 0;
    let mut out = BTreeSet::new();
    if has(0) {
        out.insert("null");
    }
    if has(1) {
        out.insert("a boolean");
    }
    if has(4) {
        // "a number" stands for the integer kinds too
        out.insert("a number");
    } else if has(2) && has(3) {
        out.insert("an integer");
    } else if has(2) {
        out.insert("a positive integer");
    } else if has(3) {
        out.insert("a negative integer");
    }
    if has(5) {
        out.insert("a string");
    }
    if has(6) {
        out.insert("an array");
    }
    if has(7) {
        out.insert("an object");
    }
    out
}

/// Parse `a` / `a or b` / `a, b, ..., or z` over the vocabulary.
pub fn parse_phrase(s: &str) -> Result<Vec<&'static str>, String> {
    let parts: Vec<&str> = if let Some((head, last)) = s.rsplit_once(", or ") {
        let mut v: Vec<&str> = head.split(", ").collect();
        v.push(last);
        if v.len() < 3 {
            return Err(format!("`, or` form with {} items", v.len()));
        }
        v
    } else if let Some((a, b)) = s.split_once(" or ") {
        vec![a, b]
    } else {
        vec![s]
    };
    parts
        .into_iter()
        .map(|p| VOCAB.iter().copied().find(|v| *v == p).ok_or_else(|| format!("{p:?} is not an item of the vocabulary")))
        .collect()
}

fn seq_of(idx: &[usize]) -> Vec<ValueKind> {
    idx.iter().map(|i| KINDS[*i]).collect()
}
fn names_of(idx: &[usize]) -> Vec<&'static str> {
    idx.iter().map(|i| KIND_NAMES[*i]).collect()
}
fn set_of(idx: &[usize]) -> u8 {
    idx.iter().fold(0u8, |a, i| a | (1 << i))
}
fn sorted_members(set: u8) -> Vec<usize> {
    (0..8).filter(|i| set & (1 << i) != 0).collect()
}

/// Rules (i) and (ii) on one sequence. `canon` = output for the sorted duplicate-free sequence of the same set.
pub fn judge(idx: &[usize], out: &str, canon: &str) -> Vec<Finding> {
    let mut fs = vec![];
    let set = set_of(idx);
    let wit = |extra: J| json!({"kinds": names_of(idx), "output": out, "output_for_sorted_set": canon, "detail": extra});
    if out != canon {
        fs.push(Finding::new("C17/order-or-multiplicity-dependent", "two sequences with the same set of kinds give different phrases", wit(J::Null)));
        return fs;
    }
    match parse_phrase(out) {
        Err(e) => fs.push(Finding::new("C17/unparsable-phrase", "phrase is not of the form `a` / `a or b` / `a, b, ..., or z` over the item vocabulary", wit(json!(e)))),
        Ok(items) => {
            let got: BTreeSet<&str> = items.iter().copied().collect();
            if got.len() != items.len() {
                fs.push(Finding::new("C17/duplicate-item", "an item appears twice in the phrase", wit(J::Null)));
            }
            let want = spec_items(set);
            if let Some(m) = want.difference(&got).next() {
                fs.push(Finding::new(format!("C17/item-set/missing:{m}"), "the phrase does not name every kind of the set (number / integer merging per the statement)", wit(json!({"expected_items": want}))));
            } else if let Some(x) = got.difference(&want).next() {
                fs.push(Finding::new(format!("C17/item-set/extra:{x}"), "the phrase names something outside the set (or a separate integer item next to `a number` / `an integer`)", wit(json!({"expected_items": want}))));
            }
        }
    }
    fs
}

fn for_each_permutation(items: &mut Vec<usize>, k: usize, f: &mut dyn FnMut(&[usize])) {
    if k == items.len() {
        f(items);
        return;
    }
    for i in k..items.len() {
        items.swap(k, i);
        for_each_permutation(items, k + 1, f);
        items.swap(k, i);
    }
}

pub fn run(ctx: &Ctx) -> i32 {
    let acc = ctx.par(|shard, n| {
        let mut acc = Acc::new();
        // per-set reference output (sorted, duplicate free)
        let canon: Vec<String> = (0..=255u8).map(|s| value_kinds_description_json(&seq_of(&sorted_members(s)))).collect();
        let mut counter = 0u64;
        let mut one = |acc: &mut Acc, idx: &[usize], part: &str| {
            let mine = shard_of(counter, shard, n);
            counter += 1;
            if !mine {
                return;
            }
            let out = value_kinds_description_json(&seq_of(idx));
            acc.eval();
            acc.count("sequences");
            acc.count(part);
            if idx.len() >= 2 {
                acc.nontrivial(idx);
            }
            let set = set_of(idx);
            acc.note("distinct_sets", &format!("{set:08b}"));
            if out.contains("a number") {
                acc.count("phrases_with.a_number");
            }
            if out.contains("an integer") {
                acc.count("phrases_with.an_integer");
            }
            if out.contains(", or ") {
                acc.count("phrases_with.three_or_more_items");
            } else if out.contains(" or ") {
                acc.count("phrases_with.two_items");
            } else {
                acc.count("phrases_with.one_item");
            }
            if idx.len() == 5 && set.count_ones() >= 4 {
                acc.sample(|| json!({"kinds": names_of(idx), "output": out}));
            }
            report(acc, judge(idx, &out, &canon[set as usize]));
        };
        // all sequences of length 1..=5 with repetitions
        for len in 1..=5usize {
            let mut idx = vec![0usize; len];
            'seqs: loop {
                one(&mut acc, &idx, "sequences_len_1_to_5");
                let mut j = len;
                loop {
                    if j == 0 {
                        break 'seqs;
                    }
                    j -= 1;
                    idx[j] += 1;
                    if idx[j] < 8 {
                        break;
                    }
                    idx[j] = 0;
                }
            }
        }
        // every permutation of every subset of size 6, 7, 8
        for set in 0..=255u8 {
            if set.count_ones() >= 6 {
                let mut m = sorted_members(set);
                for_each_permutation(&mut m, 0, &mut |p| {
                    one(&mut acc, p, "permutations_of_sets_of_6_7_8");
                });
            }
        }
        // long lists with repetitions (9 .. 40 entries): a kind may first appear after any number of others
        {
            let mut rng = vcore::Rng::derive(ctx.seed, 0xC17, 0);
            let n_long: usize = ctx.tier.pick(20_000, 400_000);
            for _ in 0..n_long {
                let len = 9 + rng.below(32);
                // mostly few distinct kinds, the rare ones placed late
                let k = 1 + rng.below(8);
                let mut pool: Vec<usize> = (0..8).collect();
                rng.shuffle(&mut pool);
                let common = &pool[..k.min(3)];
                let mut idx: Vec<usize> = (0..len).map(|_| common[rng.below(common.len())]).collect();
                for (j, late) in pool[k.min(3)..k].iter().enumerate() {
                    let at = len - 1 - (j % len.min(4));
                    idx[at] = *late;
                }
                one(&mut acc, &idx, "long_sequences_with_repetitions");
            }
            // deterministic: eight or more copies of one kind followed by each other kind, and reversed
            for a in 0..8usize {
                for b in 0..8usize {
                    for copies in [7usize, 8, 9, 16] {
                        let mut idx = vec![a; copies];
                        idx.push(b);
                        one(&mut acc, &idx, "long_sequences_with_repetitions");
                        idx.reverse();
                        one(&mut acc, &idx, "long_sequences_with_repetitions");
                    }
                }
            }
        }
        if shard == 0 {
            // (iv) the empty list
            let e = value_kinds_description_json(&[]);
            acc.eval();
            acc.count("empty_list");
            if e.trim().is_empty() || VOCAB.iter().any(|v| e.contains(v)) {
                report(&mut acc, vec![Finding::new("C17/empty-fallback", "the empty list must give a non-empty generic fallback that names no kind", json!({"kinds": [], "output": e}))]);
            }
            // the 256 reference outputs were evaluations too
            acc.add("reference_outputs", 255);
            acc.evaluations += 255;
            // (iii) fixed relative order over the 256 per-set outputs
            let mut before = [[None::<u8>; 9]; 9];
            for set in 1..=255u8 {
                let Ok(items) = parse_phrase(&canon[set as usize]) else { continue };
                let pos: Vec<usize> = items.iter().map(|i| VOCAB.iter().position(|v| v == i).unwrap()).collect();
                for a in 0..pos.len() {
                    for b in a + 1..pos.len() {
                        if let Some(other) = before[pos[b]][pos[a]] {
                            report(
                                &mut acc,
                                vec![Finding::new(
                                    "C17/unstable-order",
                                    "two items appear in different relative orders in two phrases",
                                    json!({"kinds": names_of(&sorted_members(set)), "output": canon[set as usize], "other_kinds": names_of(&sorted_members(other)), "other_output": canon[other as usize], "items": [VOCAB[pos[a]], VOCAB[pos[b]]]}),
                                )],
                            );
                        }
                        before[pos[a]][pos[b]].get_or_insert(set);
                    }
                }
            }
            acc.count("order_matrix_checked");
        }
        acc
    });
    ctx.finish(
        acc,
        Finish {
            level: "exploration",
            rule: "every sequence of value kinds of length 1..=5 with repetitions (8+64+512+4096+32768 = 37448), the empty list, and every permutation of every subset of 6, 7 and 8 kinds (28*720 + 8*5040 + 40320 = 100800), so that all 256 sets are reached; plus the 255 sorted duplicate-free reference sequences; plus (not part of the exhaustive claim) seeded lists of 9..40 entries with repetitions in which rare kinds appear late, and 8..17-entry lists made of copies of one kind followed / preceded by another. Oracle: (i) output equals the output of the sorted duplicate-free sequence of the same set; (ii) the phrase parses as `a` / `a or b` / `a, b, ..., or z` over the 9-item vocabulary and its item set is the one the statement gives (Float => `a number` absorbing both integer kinds; both integer kinds without Float => `an integer`; else individual names); no item twice; (iii) any two items keep one relative order over all 256 outputs; (iv) the empty list gives a non-empty text naming no item. Non-trivial = sequence of >= 2 kinds (order or multiplicity can matter); distinct = the sequence.".into(),
            exhaustive: true,
            assumptions: vec!["the item vocabulary is the one pinned by the repository's snapshot test (null, a boolean, a positive integer, a negative integer, an integer, a number, a string, an array, an object)".into()],
        },
    )
}

pub fn replay(w: &J) -> Result<Vec<Finding>, String> {
    let names: Vec<String> = serde_json::from_value(w["kinds"].clone()).map_err(|e| format!("witness kinds: {e}"))?;
    let mut idx = vec![];
    for nme in &names {
        idx.push(KIND_NAMES.iter().position(|k| k == nme).ok_or_else(|| format!("unknown kind {nme}"))?);
    }
    let out = value_kinds_description_json(&seq_of(&idx));
    println!("kinds {names:?}\noutput {out:?}");
    if idx.is_empty() {
        return Ok(if out.trim().is_empty() || VOCAB.iter().any(|v| out.contains(v)) {
            vec![Finding::new("C17/empty-fallback", "the empty list must give a non-empty generic fallback that names no kind", json!({"kinds": [], "output": out}))]
        } else {
            vec![]
        });
    }
    let canon = value_kinds_description_json(&seq_of(&sorted_members(set_of(&idx))));
    let mut fs = judge(&idx, &out, &canon);
    // unstable order: compare with the other recorded set
    if let Ok(other) = serde_json::from_value::<Vec<String>>(w["other_kinds"].clone()) {
        let oidx: Vec<usize> = other.iter().filter_map(|n| KIND_NAMES.iter().position(|k| k == n)).collect();
        let oout = value_kinds_description_json(&seq_of(&oidx));
        if let (Ok(a), Ok(b)) = (parse_phrase(&out), parse_phrase(&oout)) {
            for i in 0..a.len() {
                for j in i + 1..a.len() {
                    if let (Some(pi), Some(pj)) = (b.iter().position(|x| *x == a[i]), b.iter().position(|x| *x == a[j])) {
                        if pi > pj {
                            fs.push(Finding::new("C17/unstable-order", "two items appear in different relative orders in two phrases", json!({"output": out, "other_output": oout, "items": [a[i], a[j]]})));
                        }
                    }
                }
            }
        }
    }
    Ok(fs)
}
