//! C19 — value pointers faithfully record the path that was pushed.
//!
//! Paths are built with real `push_key` / `push_index` chains; recursion keeps the borrowed chain
//! alive. `ValuePointerComponent` is not exported by deserr, so `to_owned()` is compared through its
//! `Debug` rendering (`ValuePointer { path: [Key("a"), Index(1)] }`) against a string built here.
use crate::{report, shard_of, Finding};
use deserr::ValuePointerRef;
use serde_json::{json, Value as J};
use vcore::evidence::{Acc, Finish};
use vcore::{Ctx, Rng, Step};

pub fn expected_path_debug(steps: &[Step]) -> String {
    let items: Vec<String> = steps
        .iter()
        .map(|s| match s {
            Step::Key(k) => format!("Key({k:?})"),
            Step::Index(i) => format!("Index({i})"),
        })
        .collect();
    format!("[{}]", items.join(", "))
}

/// All rules on one location built from `steps`.
pub fn judge(p: &ValuePointerRef, steps: &[Step]) -> Vec<Finding> {
    let mut fs = vec![];
    let wit = |detail: J| json!({"steps": steps, "path": vcore::render_path(steps), "detail": detail});
    let want_path = expected_path_debug(steps);
    let owned = p.to_owned();
    let got_owned = format!("{owned:?}");
    let want_owned = format!("ValuePointer {{ path: {want_path} }}");
    if got_owned != want_owned {
        fs.push(Finding::new("C19/to_owned", "to_owned() does not list exactly the pushed steps in order", wit(json!({"to_owned": got_owned, "expected": want_owned}))));
    } else {
        let got_path = format!("{:?}", owned.path);
        if got_path != want_path || owned.path.len() != steps.len() {
            fs.push(Finding::new("C19/path-field", "to_owned().path does not list exactly the pushed steps in order", wit(json!({"path": got_path, "expected": want_path}))));
        }
    }
    if p.is_origin() != steps.is_empty() {
        fs.push(Finding::new("C19/is_origin", "is_origin() must hold exactly when no step was pushed", wit(json!({"is_origin": p.is_origin()}))));
    }
    let first = steps.iter().find_map(|s| if let Step::Key(k) = s { Some(k.as_str()) } else { None });
    let last = steps.iter().rev().find_map(|s| if let Step::Key(k) = s { Some(k.as_str()) } else { None });
    if p.first_field() != first {
        fs.push(Finding::new("C19/first_field", "first_field() is not the first key step of the path (None without a key)", wit(json!({"first_field": p.first_field(), "expected": first}))));
    }
    if p.last_field() != last {
        fs.push(Finding::new("C19/last_field", "last_field() is not the last key step of the path (None without a key)", wit(json!({"last_field": p.last_field(), "expected": last}))));
    }
    fs
}

fn observe(acc: &mut Acc, p: &ValuePointerRef, steps: &[Step], part: &str) {
    // everything that touches the location under test counts as one guarded call for the non-termination watchdog
    let _active = monitor::watch::guard();
    if steps.len() <= 8 {
        monitor::watch::set_context(|| format!("location {}", vcore::render_path(steps)));
    }
    acc.eval();
    acc.count(&format!("paths.{part}"));
    if steps.is_empty() {
        acc.count("observed.origin");
    } else {
        acc.nontrivial(steps);
    }
    if p.is_origin() {
        acc.count("observed.is_origin_true");
    }
    match (p.first_field(), p.last_field()) {
        (None, None) => acc.count("observed.no_field"),
        (Some(a), Some(b)) if a == b => acc.count("observed.first_eq_last_field"),
        _ => acc.count("observed.first_ne_last_field"),
    }
    if steps.len() == 5 && matches!(steps[0], Step::Index(_)) && matches!(steps[4], Step::Index(_)) {
        acc.sample(|| json!({"path": vcore::render_path(steps), "to_owned": format!("{:?}", p.to_owned()), "first_field": p.first_field(), "last_field": p.last_field(), "is_origin": p.is_origin()}));
    }
    let fs = match monitor::run::quiet_catch(|| judge(p, steps)) {
        Ok(fs) => fs,
        Err(m) => {
            acc.count("panics");
            vec![panic_finding("to_owned / is_origin / first_field / last_field", steps, &m)]
        }
    };
    report(acc, fs);
}

pub const KEYS: [&str; 3] = ["a", "b", ""];
pub const INDICES: [usize; 3] = [0, 1, usize::MAX];

/// Depth-first walk over every path of at most `max` steps over {3 keys, 3 indices}.
fn walk(acc: &mut Acc, p: ValuePointerRef, steps: &mut Vec<Step>, max: usize, counter: &mut u64, shard: usize, n: usize) {
    if shard_of(*counter, shard, n) {
        observe(acc, &p, steps, "exhaustive");
    }
    *counter += 1;
    if steps.len() == max {
        return;
    }
    for k in KEYS {
        steps.push(Step::Key(k.to_string()));
        walk(acc, p.push_key(k), steps, max, counter, shard, n);
        steps.pop();
    }
    for i in INDICES {
        steps.push(Step::Index(i));
        // a panic of the function under test is an observation (violation with its input), not a harness fault
        match monitor::run::quiet_catch(|| p.push_index(i)) {
            Ok(q) => walk(acc, q, steps, max, counter, shard, n),
            Err(m) => {
                acc.count("panics");
                report(acc, vec![panic_finding("push_index", steps, &m)]);
            }
        }
        steps.pop();
    }
}

fn panic_finding(what: &str, steps: &[Step], msg: &str) -> Finding {
    Finding::new(
        "C19/panic",
        "building or reading a location panicked; every sequence of key / index steps is a location",
        json!({"operation": what, "steps": vcore::render_path(steps), "n_steps": steps.len(), "panic": msg}),
    )
}

/// Build the chain for `steps[at..]` on top of `p` and call `f` at the end and at the marked prefixes.
pub fn build(p: ValuePointerRef, steps: &[Step], at: usize, f: &mut dyn FnMut(&ValuePointerRef, usize)) {
    f(&p, at);
    if at == steps.len() {
        return;
    }
    match &steps[at] {
        Step::Key(k) => build(p.push_key(k), steps, at + 1, f),
        Step::Index(i) => build(p.push_index(*i), steps, at + 1, f),
    }
}

fn random_key(rng: &mut Rng) -> String {
    match rng.below(10) {
        0 => String::new(),
        1 => rng.below(5).to_string(), // a key that looks like an index
        2 => "é日\"\\\n".to_string(),
        3 => "a.b[0]".to_string(),
        // characters that pointer syntaxes (RFC 6901, JSONPath, URLs) treat specially
        8 => (*rng.pick(&["a/b", "~user", "a~1b", "text/plain", "~0", "/", "~", "a b", "%2F", "$.x", "#", "a\tb"])).to_string(),
        // spellings that Rust or the derive treat specially; in a pushed key they are ordinary characters (round 8)
        4 => (*rng.pick(&["r#type", "r#", "r#r#x", "r#a", "R#z", "_", "self", " a ", "a\n", "#[x]", "__Deserr_E"])).to_string(),
        // the previous key again (paths like next.next.next)
        9 => "next".to_string(),
        _ => {
            let n = 1 + rng.below(6);
            (0..n).map(|_| (b'a' + rng.below(26) as u8) as char).collect()
        }
    }
}

fn random_steps(rng: &mut Rng) -> Vec<Step> {
    let len = match rng.below(4) {
        0 => rng.below(8),
        1 => rng.below(40),
        _ => rng.below(201),
    };
    // some paths are index-only, some key-only, some have exactly one key somewhere
    let mode = rng.below(5);
    let lone = if len > 0 { rng.below(len) } else { 0 };
    (0..len)
        .map(|i| {
            let key = match mode {
                0 => false,
                1 => true,
                2 => i == lone,
                _ => rng.chance(1, 2),
            };
            if key {
                Step::Key(random_key(rng))
            } else {
                Step::Index(match rng.below(6) {
                    0 => 0,
                    1 => usize::MAX,
                    4 => isize::MAX as usize + rng.below(2),
                    5 => 1usize << (8 * (1 + rng.below(7))),
                    _ => rng.below(1000),
                })
            }
        })
        .collect()
}

pub fn run(ctx: &Ctx) -> i32 {
    let n_random: u64 = ctx.tier.pick(100_000, 2_000_000);
    let acc = ctx.par(|shard, n| {
        let mut acc = Acc::new();
        // control: the Debug format the comparison relies on
        let origin = ValuePointerRef::Origin;
        let a = origin.push_key("a");
        let b = a.push_index(1);
        let shown = format!("{:?}", b.to_owned());
        if shown != "ValuePointer { path: [Key(\"a\"), Index(1)] }" && shard == 0 {
            // not a harness fault by itself (to_owned is under test), but record how it looked
            acc.note("control_debug_rendering", &shown);
        }
        let mut counter = 0u64;
        walk(&mut acc, ValuePointerRef::Origin, &mut vec![], 6, &mut counter, shard, n);
        if counter != 55_987 && acc.counters.get("panics").copied().unwrap_or(0) == 0 {
            acc.inconclusive(format!("the exhaustive walk visited {counter} paths instead of 55987"));
        }
        let mut rng = Rng::derive(ctx.seed, 0xC19, shard as u64);
        let mine = n_random / n as u64 + u64::from((shard as u64) < n_random % n as u64);
        for _ in 0..mine {
            let steps = random_steps(&mut rng);
            let extra = if steps.is_empty() { 0 } else { rng.below(steps.len()) };
            let total = steps.len();
            acc.add("steps_pushed", total as u64);
            let built = monitor::run::quiet_catch(|| {
                build(ValuePointerRef::Origin, &steps, 0, &mut |p, at| {
                    if at == total || at == extra {
                        observe(&mut acc, p, &steps[..at], "random");
                    }
                })
            });
            if let Err(m) = built {
                acc.count("panics");
                report(&mut acc, vec![panic_finding("push_key / push_index chain", &steps, &m)]);
            }
        }
        acc
    });
    ctx.finish(
        acc,
        Finish {
            level: "exploration",
            rule: format!(
                "exhaustive (seed independent): every path of 0..=6 steps over the keys {{\"a\",\"b\",\"\"}} and the indices {{0,1,usize::MAX}} (sum of 6^k, k=0..6 = 55987 locations), each built with real push_key / push_index chains; plus {n_random} seeded random paths of up to 200 steps (index-only, key-only, exactly one key, mixed; keys that are empty, look like indices, contain dots, brackets, quotes, non-ASCII, start with `r#` or have blanks around them), checked at the end and at one random prefix. Oracle: Debug rendering of to_owned() and of its .path equals the list of pushed steps in order; is_origin() <=> no step; first_field / last_field = first / last key step or None. Non-trivial = path with >= 1 step; distinct = the path itself."
            ),
            exhaustive: true,
            assumptions: vec![
                "exhaustive refers to the 55987 paths of at most 6 steps over the stated keys and indices; the random part is extra".into(),
                "ValuePointerComponent is not exported, so owned paths are compared through their derived Debug rendering".into(),
            ],
        },
    )
}

pub fn replay(w: &J) -> Result<Vec<Finding>, String> {
    let steps: Vec<Step> = serde_json::from_value(w["steps"].clone()).map_err(|e| format!("witness steps: {e}"))?;
    println!("path {:?} ({} steps)", vcore::render_path(&steps), steps.len());
    let mut fs = vec![];
    let total = steps.len();
    build(ValuePointerRef::Origin, &steps, 0, &mut |p, at| {
        if at == total {
            println!("to_owned {:?} is_origin {} first_field {:?} last_field {:?}", p.to_owned(), p.is_origin(), p.first_field(), p.last_field());
            fs = judge(p, &steps);
        }
    });
    Ok(fs)
}
