//! C13 — the serde_json bridge is lossless and self-consistent.
//!
//! Documents are generated as TEXT; the expected number classification is computed from the literal
//! syntax alone (never from serde_json's accessors).
//!
//! The one documented corner: the literal `-0`. serde_json holds it as the float -0.0 (an integer
//! cannot carry the sign), so "by how serde_json holds them" its kind is Float; the oracle encodes
//! exactly that: `-0` (integer syntax, value zero, minus sign) => Float.
use crate::{report, shard_of, Finding};
use deserr::{IntoValue, ValueKind};
use monitor::run::monitored;
use monitor::{Event, Outcome, Rec, Script};
use serde_json::{json, Value as J};
use std::cell::Cell;
use vcore::evidence::{Acc, Finish};
use vcore::{Ctx, Proj, Rng};

// ------------------------------------------------------------------------------------------------
// documents as text

#[derive(Clone, Debug)]
pub struct Key {
    /// literal, with quotes and escapes
    pub text: String,
    pub decoded: String,
}

#[derive(Clone, Debug)]
pub enum Doc {
    /// a scalar literal exactly as it appears in the text
    Scalar(String),
    Arr(Vec<Doc>),
    Obj(Vec<(Key, Doc)>),
}

impl Doc {
    pub fn render(&self, out: &mut String) {
        match self {
            Doc::Scalar(s) => out.push_str(s),
            Doc::Arr(v) => {
                out.push('[');
                for (i, d) in v.iter().enumerate() {
                    if i > 0 {
                        out.push(',');
                    }
                    d.render(out);
                }
                out.push(']');
            }
            Doc::Obj(m) => {
                out.push('{');
                for (i, (k, d)) in m.iter().enumerate() {
                    if i > 0 {
                        out.push(',');
                    }
                    out.push_str(&k.text);
                    out.push(':');
                    d.render(out);
                }
                out.push('}');
            }
        }
    }
    pub fn text(&self) -> String {
        let mut s = String::new();
        self.render(&mut s);
        s
    }
}

#[derive(Clone, Copy, Debug, PartialEq, Eq)]
pub enum K {
    Null,
    Boolean,
    Integer,
    NegativeInteger,
    Float,
    String,
    Sequence,
    Map,
}

fn k_of(k: ValueKind) -> K {
    match k {
        ValueKind::Null => K::Null,
        ValueKind::Boolean => K::Boolean,
        ValueKind::Integer => K::Integer,
        ValueKind::NegativeInteger => K::NegativeInteger,
        ValueKind::Float => K::Float,
        ValueKind::String => K::String,
        ValueKind::Sequence => K::Sequence,
        ValueKind::Map => K::Map,
    }
}

/// digits (no sign, no leading zeros unless "0") <= bound (decimal digits)?
fn digits_le(d: &str, bound: &str) -> bool {
    d.len() < bound.len() || (d.len() == bound.len() && d <= bound)
}

/// Kind of a scalar literal, from its syntax alone; the bool says "boundary class" (a number that is
/// not a small plain non-negative integer).
pub fn classify_literal(l: &str) -> (K, bool) {
    match l.as_bytes()[0] {
        b'n' => (K::Null, false),
        b't' | b'f' => (K::Boolean, false),
        b'"' => (K::String, l.bytes().any(|b| b == b'\\' || b >= 0x80)),
        _ => {
            if l.contains(['.', 'e', 'E']) {
                return (K::Float, true);
            }
            match l.strip_prefix('-') {
                None => {
                    if digits_le(l, "18446744073709551615") {
                        (K::Integer, l.len() >= 16)
                    } else {
                        (K::Float, true)
                    }
                }
                // the documented corner: serde_json holds `-0` as the float -0.0
                Some("0") => (K::Float, true),
                Some(d) => {
                    if digits_le(d, "9223372036854775808") {
                        (K::NegativeInteger, true)
                    } else {
                        (K::Float, true)
                    }
                }
            }
        }
    }
}

// ------------------------------------------------------------------------------------------------
// oracle

fn shape(v: &J) -> String {
    match v {
        J::Null => "null".into(),
        J::Bool(_) => "bool".into(),
        J::Number(n) => {
            let t = n.to_string();
            if t.contains(['.', 'e', 'E']) {
                "float".into()
            } else if t.starts_with('-') {
                "negative-integer".into()
            } else {
                "integer".into()
            }
        }
        J::String(_) => "string".into(),
        J::Array(_) => "array".into(),
        J::Object(_) => "object".into(),
    }
}

/// First place where two documents differ (value or text): (path, shape of the original there).
fn first_diff(a: &J, b: &J, path: &mut String) -> Option<(String, String, String)> {
    match (a, b) {
        (J::Array(x), J::Array(y)) if x.len() == y.len() => {
            for (i, (p, q)) in x.iter().zip(y.iter()).enumerate() {
                let l = path.len();
                path.push_str(&format!("[{i}]"));
                if let Some(d) = first_diff(p, q, path) {
                    return Some(d);
                }
                path.truncate(l);
            }
            None
        }
        (J::Object(x), J::Object(y)) if x.len() == y.len() && x.keys().all(|k| y.contains_key(k)) => {
            for (k, p) in x {
                let l = path.len();
                path.push_str(&format!(".{k}"));
                if let Some(d) = first_diff(p, &y[k], path) {
                    return Some(d);
                }
                path.truncate(l);
            }
            None
        }
        _ => {
            let (ta, tb) = (a.to_string(), b.to_string());
            if a != b || ta != tb {
                Some((path.clone(), shape(a), format!("{ta} became {tb}")))
            } else {
                None
            }
        }
    }
}

struct Walk<'a> {
    text: &'a str,
    findings: Vec<Finding>,
    harness_fault: Option<String>,
    numbers: [u64; 3],
    nodes: u64,
}

impl Walk<'_> {
    fn node(&mut self, d: &Doc, v: &J, path: &str) {
        self.nodes += 1;
        let k1 = k_of(IntoValue::kind(v));
        let k2 = k_of(v.clone().into_value().kind());
        if k1 != k2 {
            self.findings.push(Finding::new(
                format!("C13/kind-vs-into-value/{k1:?}-{k2:?}"),
                "kind() of an unconsumed value differs from the kind of its consumed view",
                json!({"text": self.text, "at": path, "kind": format!("{k1:?}"), "into_value_kind": format!("{k2:?}")}),
            ));
        }
        match (d, v) {
            (Doc::Scalar(l), v) if !matches!(v, J::Array(_) | J::Object(_)) => {
                let (want, _) = classify_literal(l);
                match want {
                    K::Integer => self.numbers[0] += 1,
                    K::NegativeInteger => self.numbers[1] += 1,
                    K::Float => self.numbers[2] += 1,
                    _ => {}
                }
                if k1 != want {
                    self.findings.push(Finding::new(
                        format!("C13/classification/{want:?}-as-{k1:?}"),
                        "a value is not classified by how serde_json holds the literal (integer literal in 0..=u64::MAX => Integer; negative integer literal >= i64::MIN => NegativeInteger; fraction, exponent, out of range, -0 => Float)",
                        json!({"text": self.text, "at": path, "literal": l, "expected_kind": format!("{want:?}"), "kind": format!("{k1:?}")}),
                    ));
                }
            }
            (Doc::Arr(ds), J::Array(vs)) if ds.len() == vs.len() => {
                if k1 != K::Sequence {
                    self.findings.push(Finding::new(format!("C13/classification/Sequence-as-{k1:?}"), "an array is not a Sequence", json!({"text": self.text, "at": path})));
                }
                for (i, (d, v)) in ds.iter().zip(vs.iter()).enumerate() {
                    self.node(d, v, &format!("{path}[{i}]"));
                }
            }
            (Doc::Obj(dm), J::Object(vm)) if dm.len() == vm.len() => {
                // the map view: removing a member by key hands back exactly that member (null included), once
                for (key, val) in vm.iter() {
                    let mut view = vm.clone();
                    let got = deserr::Map::remove(&mut view, key);
                    let again = deserr::Map::remove(&mut view, key);
                    if got.as_ref() != Some(val) || again.is_some() || deserr::Map::len(&view) != vm.len() - 1 {
                        self.findings.push(Finding::new(
                            "C13/map-view-remove".to_string(),
                            "Map::remove on the serde_json object view does not hand back the member stored under the key (exactly once)",
                            json!({"text": self.text, "at": path, "key": key, "member": val, "removed": got, "removed_again": again}),
                        ));
                    }
                }
                if deserr::Map::remove(&mut vm.clone(), "\u{1}no such key").is_some() {
                    self.findings.push(Finding::new("C13/map-view-remove".to_string(), "Map::remove invents a member", json!({"text": self.text, "at": path})));
                }
                if k1 != K::Map {
                    self.findings.push(Finding::new(format!("C13/classification/Map-as-{k1:?}"), "an object is not a Map", json!({"text": self.text, "at": path})));
                }
                for (k, d) in dm {
                    match vm.get(&k.decoded) {
                        Some(v) => self.node(d, v, &format!("{path}.{}", k.decoded)),
                        None => self.harness_fault = Some(format!("generated key {} not found after parsing {}", k.text, self.text)),
                    }
                }
            }
            _ => self.harness_fault = Some(format!("parsed document does not have the generated structure at {path:?}: {}", self.text)),
        }
    }
}

pub struct Checked {
    pub findings: Vec<Finding>,
    pub harness_fault: Option<String>,
    pub numbers: [u64; 3],
    pub nodes: u64,
}

/// All C13 rules on one parsed document.
pub fn check_doc(doc: &Doc, text: &str, v: &J) -> Checked {
    let _active = monitor::watch::guard();
    monitor::watch::set_context(|| format!("document {}", text.chars().take(400).collect::<String>()));
    let mut w = Walk { text, findings: vec![], harness_fault: None, numbers: [0; 3], nodes: 0 };
    w.node(doc, v, "");
    let mut findings = w.findings;
    let vt = serde_json::to_string(v).unwrap_or_default();

    // (1) through the Deserr implementation for serde_json::Value, keep-going recording error type
    let same = Cell::new(false);
    let input = v.clone();
    let (outcome, events) = monitored(
        Script::Continue,
        move || deserr::deserialize::<J, J, Rec>(input),
        |out: &J| {
            same.set(out == v);
            Proj::Json(serde_json::to_string(out).unwrap_or_default())
        },
    );
    let n_reports = events.iter().filter(|e| matches!(e, Event::Report(_))).count();
    match &outcome {
        Outcome::Ok(Proj::Json(t)) => {
            if !same.get() || *t != vt {
                let back: J = serde_json::from_str(t).unwrap_or(J::Null);
                let (at, sh, what) = first_diff(v, &back, &mut String::new()).unwrap_or_else(|| (String::new(), "document".into(), format!("{vt} became {t}")));
                findings.push(Finding::new(
                    format!("C13/deserr-roundtrip/{sh}"),
                    "deserialize::<serde_json::Value> of a document does not give the same document (value and serialized text)",
                    json!({"text": text, "at": at, "what": what, "document": vt, "result": t}),
                ));
            }
            if n_reports != 0 {
                findings.push(Finding::new("C13/deserr-roundtrip/report-on-success", "a report was made while viewing a valid document", json!({"text": text, "reports": n_reports})));
            }
        }
        other => findings.push(Finding::new(
            format!("C13/deserr-roundtrip/{}", if matches!(other, Outcome::Panic(_)) { "panic" } else { "failed" }),
            "deserialize::<serde_json::Value> failed on a document serde_json can hold",
            json!({"text": text, "outcome": other.show(), "reports": n_reports}),
        )),
    }

    // (2) through From<Value<V>>
    let back = match monitor::run::quiet_catch(|| J::from(v.clone().into_value())) {
        Ok(b) => b,
        Err(m) => {
            findings.push(Finding::new("C13/from-roundtrip/panic".to_string(), "serde_json::Value::from(v.into_value()) panicked", json!({"text": text, "panic": m})));
            return Checked { findings, harness_fault: w.harness_fault, numbers: w.numbers, nodes: w.nodes };
        }
    };
    let bt = serde_json::to_string(&back).unwrap_or_default();
    if back != *v || bt != vt {
        let (at, sh, what) = first_diff(v, &back, &mut String::new()).unwrap_or_else(|| (String::new(), "document".into(), format!("{vt} became {bt}")));
        findings.push(Finding::new(
            format!("C13/from-roundtrip/{sh}"),
            "serde_json::Value::from(v.into_value()) is not the same document (value and serialized text)",
            json!({"text": text, "at": at, "what": what, "document": vt, "result": bt}),
        ));
    }
    Checked { findings, harness_fault: w.harness_fault, numbers: w.numbers, nodes: w.nodes }
}

// ------------------------------------------------------------------------------------------------
// generation

pub const SCALARS: [&str; 12] = [
    "null",
    "true",
    "false",
    "0",
    "-0",
    "-1",
    "18446744073709551615",
    "18446744073709551616",
    "-9223372036854775809",
    "1.0",
    "\"\"",
    "\"\\u00e9\\n\"",
];

pub fn keys() -> [Key; 3] {
    [
        Key { text: "\"a\"".into(), decoded: "a".into() },
        Key { text: "\"\"".into(), decoded: "".into() },
        Key { text: "\"\\u00e9\"".into(), decoded: "é".into() },
    ]
}

pub const BOUNDARY_NUMBERS: [&str; 58] = [
    "0",
    "-0",
    "-0.0",
    "0.0",
    "0e0",
    "-0e0",
    "0E5",
    "1",
    "-1",
    "1.0",
    "-1.0",
    "1e0",
    "1E0",
    "1e2",
    "1e+2",
    "1E-2",
    "0.1",
    "255",
    "256",
    "4294967295",
    "4294967296",
    "9223372036854775806",
    "9223372036854775807",
    "9223372036854775808",
    "9223372036854775809",
    "18446744073709551614",
    "18446744073709551615",
    "18446744073709551616",
    "18446744073709551617",
    "18446744073709551615.0",
    "1.8446744073709551615e19",
    "18446744073709551615e0",
    "-9223372036854775807",
    "-9223372036854775808",
    "-9223372036854775809",
    "-9223372036854775810",
    "-9223372036854775808.0",
    "-18446744073709551615",
    "9007199254740991",
    "9007199254740992",
    "9007199254740993",
    "-9007199254740991",
    "-9007199254740992",
    "-9007199254740993",
    "100000000000000000000",
    "-100000000000000000000",
    "123456789012345678901234567890",
    "-123456789012345678901234567890",
    "5e-324",
    "4.9406564584124654e-324",
    "2.2250738585072014e-308",
    "2.2250738585072009e-308",
    "1.7976931348623157e308",
    "-1.7976931348623157e308",
    "1e308",
    "1e-400",
    "3.4028234663852886e38",
    "16777217",
];
/// literals serde_json is expected to refuse (counted, not judged)
pub const REFUSED_NUMBERS: [&str; 3] = ["1E400", "-1e400", "1.8e308"];

/// Compositions of `total` into `k` positive parts.
fn compositions(total: usize, k: usize, cur: &mut Vec<usize>, out: &mut Vec<Vec<usize>>) {
    if k == 0 {
        if total == 0 {
            out.push(cur.clone());
        }
        return;
    }
    for first in 1..=total.saturating_sub(k - 1) {
        cur.push(first);
        compositions(total - first, k - 1, cur, out);
        cur.pop();
    }
}

fn key_orders(k: usize) -> Vec<Vec<usize>> {
    // ordered selections of k distinct keys out of 3
    let mut out = vec![];
    fn rec(k: usize, cur: &mut Vec<usize>, out: &mut Vec<Vec<usize>>) {
        if cur.len() == k {
            out.push(cur.clone());
            return;
        }
        for i in 0..3 {
            if !cur.contains(&i) {
                cur.push(i);
                rec(k, cur, out);
                cur.pop();
            }
        }
    }
    rec(k, &mut vec![], &mut out);
    out
}

/// Every document with exactly `size` nodes, children taken from `memo[child size]`. `f` is given
/// the running index and a builder (so that a shard only builds its own documents).
fn for_each_of_size(size: usize, memo: &[Vec<Doc>], idx: &mut u64, f: &mut dyn FnMut(u64, &dyn Fn() -> Doc)) {
    let ks = keys();
    if size == 1 {
        for s in SCALARS {
            f(*idx, &|| Doc::Scalar(s.to_string()));
            *idx += 1;
        }
    }
    let m = size - 1;
    for k in 0..=m {
        if k == 0 && m != 0 {
            continue;
        }
        let mut comps = vec![];
        compositions(m, k, &mut vec![], &mut comps);
        let orders = if k <= 3 { key_orders(k) } else { vec![] };
        for parts in &comps {
            // odometer over the children
            let lens: Vec<usize> = parts.iter().map(|p| memo[*p].len()).collect();
            let mut at = vec![0usize; k];
            loop {
                let children = || -> Vec<Doc> { at.iter().zip(parts.iter()).map(|(i, p)| memo[*p][*i].clone()).collect() };
                f(*idx, &|| Doc::Arr(children()));
                *idx += 1;
                for order in &orders {
                    f(*idx, &|| Doc::Obj(order.iter().map(|i| ks[*i].clone()).zip(children()).collect()));
                    *idx += 1;
                }
                // next combination of children
                let mut done = true;
                let mut j = k;
                while j > 0 {
                    j -= 1;
                    at[j] += 1;
                    if at[j] < lens[j] {
                        done = false;
                        break;
                    }
                    at[j] = 0;
                }
                if done {
                    break;
                }
            }
        }
    }
}

/// memo[s] = all documents of exactly s nodes, for s < max_size.
pub fn build_memo(max_size: usize) -> Vec<Vec<Doc>> {
    let mut memo: Vec<Vec<Doc>> = vec![vec![]];
    for s in 1..max_size {
        let mut v = vec![];
        let mut idx = 0;
        for_each_of_size(s, &memo, &mut idx, &mut |_, b| v.push(b()));
        memo.push(v);
    }
    memo
}

fn random_string(rng: &mut Rng, max: usize) -> Key {
    let mut text = String::from("\"");
    let mut decoded = String::new();
    for _ in 0..rng.below(max + 1) {
        match rng.below(16) {
            0 => {
                text.push_str("\\\"");
                decoded.push('"');
            }
            1 => {
                text.push_str("\\\\");
                decoded.push('\\');
            }
            2 => {
                text.push_str("\\n");
                decoded.push('\n');
            }
            3 => {
                text.push_str("\\u0001");
                decoded.push('\u{1}');
            }
            4 => {
                text.push_str("\\u00e9");
                decoded.push('é');
            }
            5 => {
                text.push('é');
                decoded.push('é');
            }
            6 => {
                text.push('日');
                decoded.push('日');
            }
            7 => {
                text.push_str("\\ud83d\\ude00");
                decoded.push('😀');
            }
            8 => {
                text.push('😀');
                decoded.push('😀');
            }
            9 => {
                text.push_str("\\/");
                decoded.push('/');
            }
            10 => {
                text.push(' ');
                decoded.push(' ');
            }
            _ => {
                let c = (b'a' + rng.below(26) as u8) as char;
                text.push(c);
                decoded.push(c);
            }
        }
    }
    text.push('"');
    Key { text, decoded }
}

fn random_digits(rng: &mut Rng, n: usize, leading_nonzero: bool) -> String {
    let mut s = String::new();
    for i in 0..n {
        let d = if i == 0 && leading_nonzero { 1 + rng.below(9) } else { rng.below(10) };
        s.push((b'0' + d as u8) as char);
    }
    s
}

pub fn random_number(rng: &mut Rng) -> String {
    match rng.below(10) {
        0 | 1 => rng.pick(&BOUNDARY_NUMBERS).to_string(),
        // near u64::MAX / i64::MIN / i64::MAX / 2^53, computed in i128
        2 | 3 => {
            let c: i128 = *rng.pick(&[u64::MAX as i128, i64::MIN as i128, i64::MAX as i128, 1i128 << 53, -(1i128 << 53), 0, 1i128 << 32]);
            let v = c + rng.range(-3, 3) as i128;
            v.to_string()
        }
        // random integer literal of 1..=25 digits
        4 | 5 | 6 => {
            let n = 1 + rng.below(25);
            let d = if n == 1 { random_digits(rng, 1, false) } else { random_digits(rng, n, true) };
            if rng.chance(1, 2) {
                format!("-{d}")
            } else {
                d
            }
        }
        // fraction and/or exponent
        _ => {
            let n = 1 + rng.below(20);
            let mut s = String::new();
            if rng.chance(1, 2) {
                s.push('-');
            }
            s.push_str(&if n == 1 { random_digits(rng, 1, false) } else { random_digits(rng, n, true) });
            let frac = rng.chance(2, 3);
            if frac {
                s.push('.');
                let k = 1 + rng.below(20);
                s.push_str(&random_digits(rng, k, false));
            }
            if !frac || rng.chance(1, 2) {
                s.push(*rng.pick(&['e', 'E']));
                match rng.below(3) {
                    0 => s.push('+'),
                    1 => s.push('-'),
                    _ => {}
                }
                let e = if rng.chance(1, 8) { rng.below(280) } else { rng.below(25) };
                s.push_str(&e.to_string());
            }
            s
        }
    }
}

pub fn random_doc(rng: &mut Rng, depth: usize, budget: &mut usize) -> Doc {
    *budget = budget.saturating_sub(1);
    let container = depth > 1 && *budget > 0 && rng.chance(if depth >= 5 { 3 } else { 2 }, 4);
    if !container {
        return match rng.below(8) {
            0 => Doc::Scalar("null".into()),
            1 => Doc::Scalar(if rng.chance(1, 2) { "true" } else { "false" }.into()),
            2 | 3 => Doc::Scalar(random_string(rng, 6).text),
            _ => Doc::Scalar(random_number(rng)),
        };
    }
    let n = rng.below(5);
    if rng.chance(1, 2) {
        Doc::Arr((0..n).map(|_| random_doc(rng, depth - 1, budget)).collect())
    } else {
        let mut m: Vec<(Key, Doc)> = vec![];
        for _ in 0..n {
            let k = random_string(rng, 3);
            if m.iter().any(|(kk, _)| kk.decoded == k.decoded) {
                continue;
            }
            let d = random_doc(rng, depth - 1, budget);
            m.push((k, d));
        }
        Doc::Obj(m)
    }
}

// ------------------------------------------------------------------------------------------------
// driver

fn features(d: &Doc, depth: usize, out: &mut (bool, bool, bool)) {
    match d {
        Doc::Scalar(l) => {
            let (k, boundary) = classify_literal(l);
            if k == K::String {
                out.2 |= boundary;
            } else {
                out.0 |= boundary;
            }
        }
        Doc::Arr(v) => {
            out.1 |= depth >= 1;
            for x in v {
                features(x, depth + 1, out);
            }
        }
        Doc::Obj(m) => {
            out.1 |= depth >= 1;
            for (k, x) in m {
                out.2 |= k.text.bytes().any(|b| b == b'\\' || b >= 0x80);
                features(x, depth + 1, out);
            }
        }
    }
}

fn one(acc: &mut Acc, doc: &Doc, must_parse: bool) {
    let text = doc.text();
    let v: J = match serde_json::from_str(&text) {
        Ok(v) => v,
        Err(e) => {
            acc.count("documents_refused_by_serde_json");
            if must_parse {
                acc.inconclusive(format!("serde_json refused a generated document that should be valid: {text} ({e})"));
            }
            return;
        }
    };
    acc.eval();
    let c = check_doc(doc, &text, &v);
    if let Some(h) = c.harness_fault {
        acc.inconclusive(h);
        return;
    }
    acc.add("nodes_checked_kind_vs_into_value", c.nodes);
    acc.add("numbers_classified.integer", c.numbers[0]);
    acc.add("numbers_classified.negative_integer", c.numbers[1]);
    acc.add("numbers_classified.float", c.numbers[2]);
    acc.count("documents_round_tripped_both_ways");
    let mut f = (false, false, false);
    features(doc, 0, &mut f);
    if f.0 {
        acc.count("documents_with.boundary_number");
    }
    if f.1 {
        acc.count("documents_with.nested_container");
    }
    if f.2 {
        acc.count("documents_with.non_ascii_or_escaped_string");
    }
    if f.0 || f.1 || f.2 {
        acc.nontrivial(&text);
        if c.findings.is_empty() && text.len() > 12 {
            acc.sample(|| json!({"text": text, "serialized": v.to_string(), "nodes": c.nodes, "round_trips": "equal (value and text), no report"}));
        }
    }
    report(acc, c.findings);
}

/// Documents nested deeper than serde_json's own *parser* accepts (its recursion limit is 128) can still be
/// held by a `serde_json::Value` built programmatically; "arbitrary nesting" is part of the quantifier.
pub const DEEP_SHAPES: [&str; 4] = ["arrays", "objects", "mixed", "wide-mixed"];
pub const DEEP_DEPTHS: [usize; 9] = [126, 127, 128, 129, 130, 200, 512, 1000, 2000];

pub fn deep_doc(shape: &str, depth: usize) -> J {
    // "wide" shapes reuse the second parameter as a width: long arrays and objects, flat and one level down
    match shape {
        "wide-array" => return J::Array((0..depth).map(|i| if i % 7 == 0 { J::Null } else if i % 3 == 0 { json!(-(i as i64)) } else { json!(i) }).collect()),
        "wide-object" => return J::Object((0..depth).map(|i| (format!("k{i}"), if i % 5 == 0 { J::Null } else { json!([i, null]) })).collect()),
        "wide-nested" => return json!({"outer": [null, J::Array((0..depth).map(|i| json!(i)).collect()), {"inner": J::Array((0..depth).map(|_| J::Null).collect())}]}),
        _ => {}
    }
    let mut v = json!(-0.0);
    for i in 0..depth {
        v = match shape {
            "arrays" => J::Array(vec![v]),
            "objects" => json!({ "k": v }),
            "mixed" => {
                if i % 2 == 0 {
                    J::Array(vec![v])
                } else {
                    json!({ "\u{e9}": v })
                }
            }
            _ => {
                if i % 3 == 0 {
                    json!([null, v, 18446744073709551615u64])
                } else {
                    json!({ "a": i, "b": v, "c": [-1, 1.5] })
                }
            }
        };
    }
    v
}

pub fn deep_findings(shape: &str, depth: usize) -> Vec<Finding> {
    let v = deep_doc(shape, depth);
    let text = format!("<deep:{shape}:{depth}>");
    let mut findings = vec![];
    let same = Cell::new(false);
    let input = v.clone();
    let vref = &v;
    let (outcome, events) = monitored(
        Script::Continue,
        move || deserr::deserialize::<J, J, Rec>(input),
        |out: &J| {
            same.set(out == vref);
            Proj::Unit
        },
    );
    let n_reports = events.iter().filter(|e| matches!(e, Event::Report(_))).count();
    match &outcome {
        Outcome::Ok(_) => {
            if !same.get() || n_reports != 0 {
                findings.push(Finding::new(
                    "C13/deserr-roundtrip/deep-document".to_string(),
                    "deserialize::<serde_json::Value> of a deeply nested document does not give the same document",
                    json!({"text": text, "reports": n_reports}),
                ));
            }
        }
        other => findings.push(Finding::new(
            format!("C13/deserr-roundtrip/deep-document-{}", if matches!(other, Outcome::Panic(_)) { "panic" } else { "failed" }),
            "deserialize::<serde_json::Value> failed on a document serde_json can hold (nesting deeper than serde_json's parser limit, built programmatically)",
            json!({"text": text, "outcome": other.show(), "reports": n_reports, "first_report": events.iter().find_map(|e| if let Event::Report(r) = e { Some(format!("{:?} at depth {}", r.kind, r.loc.len())) } else { None })}),
        )),
    }
    let back = match monitor::run::quiet_catch(|| J::from(v.clone().into_value())) {
        Ok(b) => b,
        Err(m) => {
            findings.push(Finding::new("C13/from-roundtrip/deep-document-panic".to_string(), "serde_json::Value::from(v.into_value()) panicked on a deeply nested document", json!({"text": text, "panic": m})));
            return findings;
        }
    };
    if back != v || serde_json::to_string(&back).ok() != serde_json::to_string(&v).ok() {
        findings.push(Finding::new(
            "C13/from-roundtrip/deep-document".to_string(),
            "serde_json::Value::from(v.into_value()) is not the same document for a deeply nested document",
            json!({"text": text}),
        ));
    }
    findings
}

pub fn run(ctx: &Ctx) -> i32 {
    let max_size: usize = ctx.tier.pick(4, 5);
    let n_random: u64 = ctx.tier.pick(100_000, 3_000_000);
    let memo = build_memo(max_size);
    let ks = keys();
    let acc = ctx.par(|shard, n| {
        let mut acc = Acc::new();
        // control: a plain document must pass
        if shard == 0 {
            let d = Doc::Arr(vec![Doc::Scalar("1".into()), Doc::Scalar("\"x\"".into())]);
            let t = d.text();
            let v: J = serde_json::from_str(&t).unwrap();
            let c = check_doc(&d, &t, &v);
            if !c.findings.is_empty() || c.harness_fault.is_some() {
                // not a reason to stop: a violation found below outranks this note
                acc.inconclusive(format!("control document {t} does not pass: {:?}", c.findings.first().map(|f| &f.signature)));
            }
        }
        // exhaustive: every document of <= max_size nodes
        let mut idx = 0u64;
        for size in 1..=max_size {
            for_each_of_size(size, &memo, &mut idx, &mut |i, build| {
                if shard_of(i, shard, n) {
                    one(&mut acc, &build(), true);
                    acc.count("exhaustive_documents");
                }
            });
        }
        // every boundary literal: bare, in an array, as an object member, nested
        let mut j = 0u64;
        for (lits, must) in [(&BOUNDARY_NUMBERS[..], true), (&REFUSED_NUMBERS[..], false)] {
            for l in lits {
                let s = || Doc::Scalar(l.to_string());
                for d in [
                    s(),
                    Doc::Arr(vec![s()]),
                    Doc::Arr(vec![Doc::Scalar("null".into()), s(), s()]),
                    Doc::Obj(vec![(ks[0].clone(), s())]),
                    Doc::Obj(vec![(ks[2].clone(), Doc::Arr(vec![Doc::Obj(vec![(ks[1].clone(), s())])]))]),
                ] {
                    if shard_of(j, shard, n) {
                        one(&mut acc, &d, must);
                        acc.count("boundary_literal_documents");
                    }
                    j += 1;
                }
            }
        }
        // deeply nested documents built programmatically (126 .. 2000 levels)
        let mut dj = 0u64;
        for (shape, depth) in [("wide-array", 127usize), ("wide-array", 128), ("wide-array", 129), ("wide-array", 255), ("wide-array", 256), ("wide-array", 257), ("wide-array", 1000), ("wide-array", 70000), ("wide-object", 128), ("wide-object", 129), ("wide-object", 300), ("wide-object", 5000), ("wide-nested", 129), ("wide-nested", 1025)] {
            if shard_of(dj, shard, n) {
                acc.eval();
                acc.count("wide_documents");
                acc.nontrivial(&(shape, depth));
                report(&mut acc, deep_findings(shape, depth));
            }
            dj += 1;
        }
        for shape in DEEP_SHAPES {
            for depth in DEEP_DEPTHS {
                if shard_of(dj, shard, n) {
                    acc.eval();
                    acc.count("deep_documents");
                    acc.nontrivial(&(shape, depth));
                    report(&mut acc, deep_findings(shape, depth));
                }
                dj += 1;
            }
        }
        // seeded random documents, depth <= 6
        let mut rng = Rng::derive(ctx.seed, 0xC13, shard as u64);
        let mine = n_random / n as u64 + u64::from((shard as u64) < n_random % n as u64);
        for _ in 0..mine {
            let depth = 1 + rng.below(6);
            let mut budget = 40;
            let d = random_doc(&mut rng, depth, &mut budget);
            one(&mut acc, &d, false);
            acc.count("random_documents");
        }
        acc
    });
    ctx.finish(
        acc,
        Finish {
            level: "exploration",
            rule: format!(
                "JSON documents generated as text and parsed with serde_json::from_str. Exhaustive (seed independent): every document of at most {max_size} nodes over the 12 scalar literals {SCALARS:?} and the 3 keys \"a\", \"\", \"\\u00e9\" (arrays; objects with distinct keys in every order), plus {} numeric boundary literals each bare / in arrays / as object members / nested. Plus 14 wide documents (arrays of 127..70000 elements, objects of 128..5000 members, flat and nested) and 36 documents nested 126..2000 levels deep (arrays / objects / mixed, built programmatically because serde_json's parser stops at 128 while serde_json::Value can hold any depth), round-tripped both ways. Plus {n_random} seeded random documents of depth <= 6 (integer literals of 1..25 digits, values around u64::MAX, i64::MIN, i64::MAX, 2^53, fractions, exponents, escaped and non-ASCII strings and keys). Per document: deserialize::<serde_json::Value,_,Rec> gives the same document (== and serialized text) with no report; Value::from(into_value()) gives the same document (== and text); at every node kind() == into_value().kind(); every number's kind equals the kind computed from the literal's syntax. Non-trivial = the document contains a number that is not a small plain non-negative integer, a container inside a container, or a non-ASCII / escaped string; distinct = distinct document text.",
                BOUNDARY_NUMBERS.len()
            ),
            exhaustive: true,
            assumptions: vec![
                format!("exhaustive refers to the documents of at most {max_size} nodes over the stated alphabet and to the boundary literal list; the random part is extra"),
                "`-0` (integer syntax) is held by serde_json as the float -0.0, so its kind is Float: 'numbers are classified by how serde_json holds them'".into(),
                "objects are generated without duplicate keys (serde_json keeps the last one; not part of the statement)".into(),
                "documents serde_json itself refuses (overflowing exponents) are counted and skipped".into(),
                "serde_json is built with its default features (no arbitrary_precision, no preserve_order)".into(),
            ],
        },
    )
}

/// Rebuild a `Doc` from document text (replay): a minimal reader for the JSON this module writes.
pub fn parse_doc(text: &str) -> Result<Doc, String> {
    struct P<'a> {
        b: &'a [u8],
        s: &'a str,
        i: usize,
    }
    impl P<'_> {
        fn string(&mut self) -> Result<Key, String> {
            let st = self.i;
            self.i += 1;
            while self.i < self.b.len() && self.b[self.i] != b'"' {
                if self.b[self.i] == b'\\' {
                    self.i += 1;
                }
                self.i += 1;
            }
            if self.i >= self.b.len() {
                return Err("unterminated string".into());
            }
            self.i += 1;
            let text = &self.s[st..self.i];
            // decoding a key is delegated to serde_json (harness side only; keys are not judged)
            let decoded: String = serde_json::from_str(text).map_err(|e| e.to_string())?;
            Ok(Key { text: text.to_string(), decoded })
        }
        fn value(&mut self) -> Result<Doc, String> {
            match self.b.get(self.i) {
                Some(b'[') => {
                    self.i += 1;
                    let mut v = vec![];
                    if self.b.get(self.i) == Some(&b']') {
                        self.i += 1;
                        return Ok(Doc::Arr(v));
                    }
                    loop {
                        v.push(self.value()?);
                        match self.b.get(self.i) {
                            Some(b',') => self.i += 1,
                            Some(b']') => {
                                self.i += 1;
                                return Ok(Doc::Arr(v));
                            }
                            _ => return Err("expected , or ]".into()),
                        }
                    }
                }
                Some(b'{') => {
                    self.i += 1;
                    let mut m = vec![];
                    if self.b.get(self.i) == Some(&b'}') {
                        self.i += 1;
                        return Ok(Doc::Obj(m));
                    }
                    loop {
                        let k = self.string()?;
                        if self.b.get(self.i) != Some(&b':') {
                            return Err("expected :".into());
                        }
                        self.i += 1;
                        let v = self.value()?;
                        m.push((k, v));
                        match self.b.get(self.i) {
                            Some(b',') => self.i += 1,
                            Some(b'}') => {
                                self.i += 1;
                                return Ok(Doc::Obj(m));
                            }
                            _ => return Err("expected , or }".into()),
                        }
                    }
                }
                Some(b'"') => Ok(Doc::Scalar(self.string()?.text)),
                Some(_) => {
                    let st = self.i;
                    while self.i < self.b.len() && !matches!(self.b[self.i], b',' | b']' | b'}') {
                        self.i += 1;
                    }
                    if st == self.i {
                        return Err("empty scalar".into());
                    }
                    Ok(Doc::Scalar(self.s[st..self.i].to_string()))
                }
                None => Err("unexpected end".into()),
            }
        }
    }
    let mut p = P { b: text.as_bytes(), s: text, i: 0 };
    let d = p.value()?;
    if p.i != text.len() {
        return Err("trailing text".into());
    }
    Ok(d)
}

pub fn replay(w: &J) -> Result<Vec<Finding>, String> {
    let text = w["text"].as_str().ok_or("witness has no document text")?;
    if let Some(rest) = text.strip_prefix("<deep:") {
        let mut it = rest.trim_end_matches('>').split(':');
        let shape = it.next().unwrap_or("arrays").to_string();
        let depth: usize = it.next().and_then(|d| d.parse().ok()).ok_or("bad deep witness")?;
        println!("deep document, shape {shape}, depth {depth}");
        return Ok(deep_findings(&shape, depth));
    }
    let doc = parse_doc(text)?;
    let v: J = serde_json::from_str(text).map_err(|e| format!("serde_json refuses the document: {e}"))?;
    println!("document {text}");
    let c = check_doc(&doc, text, &v);
    if let Some(h) = c.harness_fault {
        return Err(h);
    }
    Ok(c.findings)
}
