//! C11 — from / try_from / map / validate see only good values, once, in order.
use crate::common::*;
use monitor::{Event, Outcome, Run, Script};
use serde_json::json;
use subjects::{Registry, Subject};
use vcore::evidence::{Acc, Finish};
use vcore::Ctx;

const A: Aspects = Aspects { value: true, reports: true, handovers: true, examined: false, calls: true };

const FROM_FNS: &[&str] = &["u64_to_string", "len_of_ref", "str_to_wrap", "vec_sum", "try_even", "try_even_ref", "try_ascii_ref", "try_small", "try_nonempty", "try_nonempty_vec"];
const MAP_FNS: &[&str] = &["inc_u8", "inc_u64", "neg_i16", "upper", "not_bool", "some_to_none_if_zero", "push_seven"];
const VAL_FNS: &[&str] = &["val_leaves", "val_ok"];

/// Model-free rules on the keep-going trace.
fn local_rules(run: &Run) -> Option<(&'static str, String)> {
    // (1) a report received by the field-level error type reaches the container's error type through
    //     exactly one MergeWithError<Rec2> hand-over
    for r in run.reports().filter(|r| r.ety == 1) {
        let crossings = run.merges().filter(|m| m.ety == 0 && m.other_ety == 1 && m.other_holding.contains(&r.id)).count();
        if crossings != 1 {
            return Some(("field-error-type-not-handed-over-exactly-once", format!("report r{} of the field-level error type crossed into the container's error type {crossings} times", r.id)));
        }
    }
    // (2) validate runs after every examination below its location and after every map call that
    //     precedes the construction: no Examine / conversion / map event of the same container after it
    //     is observable without container identity, so the checked part is: a validate call at L is never
    //     followed by an Examine of a node under L or by a Report located strictly under L
    for (i, e) in run.events.iter().enumerate() {
        if let Event::Call { name, loc: Some(l), .. } = e {
            if VAL_FNS.contains(&name.as_str()) {
                for later in &run.events[i + 1..] {
                    match later {
                        Event::Examine { node } => {
                            if let Some(ni) = run.nodes.get(*node as usize) {
                                if ni.path.len() > l.len() && vcore::ov::is_prefix(l, &ni.path) {
                                    return Some(("validate-before-all-fields", format!("validate at {:?} ran before the node at {:?} was examined", vcore::render_path(l), vcore::render_path(&ni.path))));
                                }
                            }
                        }
                        Event::Report(r) if r.loc.len() > l.len() && vcore::ov::is_prefix(l, &r.loc) => {
                            return Some(("validate-before-all-fields", format!("validate at {:?} ran before the report at {:?}", vcore::render_path(l), vcore::render_path(&r.loc))));
                        }
                        _ => {}
                    }
                }
            }
        }
    }
    None
}

/// Stage order inside one flat (non-nested) container: conversions, then maps, then validate.
fn stage_order(run: &Run) -> Option<(&'static str, String)> {
    let stages: Vec<u8> = run
        .events
        .iter()
        .filter_map(|e| if let Event::Call { name, .. } = e { Some(name.as_str()) } else { None })
        .filter_map(|n| if FROM_FNS.contains(&n) { Some(0) } else if MAP_FNS.contains(&n) { Some(1) } else if VAL_FNS.contains(&n) { Some(2) } else { None })
        .collect();
    if stages.windows(2).any(|w| w[0] > w[1]) {
        return Some(("stages-out-of-order", format!("user functions ran in stage order {stages:?} (0 = from/try_from, 1 = map, 2 = validate)")));
    }
    None
}

fn check(acc: &mut Acc, reg: &Registry, s: &dyn Subject, case: &Case, flat: bool) {
    for src in [Source::Ov, Source::Json] {
        if src == Source::Json && !case.payload.json_representable() {
            continue;
        }
        let r = model_case(acc, reg, "C11", s, case, src, &A);
        if matches!(r.outcome, Outcome::Panic(_)) {
            continue;
        }
        let ncalls = r.events.iter().filter(|e| matches!(e, Event::Call { .. })).count();
        if ncalls > 0 {
            acc.nontrivial(&(s.name(), trace_shape(&r), "calls"));
        }
        let mut fails = vec![];
        if let Some(f) = local_rules(&r) {
            fails.push(f);
        }
        {
            let seen = if src == Source::Json { vcore::Ov::from_json(&case.payload.to_json()) } else { case.payload.clone() };
            let pred = refmodel::interp(&reg.defs, s.ty(), &seen);
            if let Some(d) = compare_receiving_type(&pred, &r) {
                fails.push((d.rule, d.detail));
            }
        }
        if flat {
            if let Some(f) = stage_order(&r) {
                fails.push(f);
            }
        }
        for f in fails {
            acc.violation(format!("C11/{}/{}", f.0, ctor(&reg.defs, s.ty())), f.0, witness(s, &case.payload, src, &Script::Continue, &r, json!({"what": f.1})));
        }
        // under stop answers (by kind of decision): a conversion / validate failure is still handed over at the
        // field's (container's) own position first, and only user functions the keep-going run calls are called
        if src == Source::Ov && unique_keys(&case.payload) && r.reports().any(|x| matches!(x.kind, monitor::RKind::Foreign { .. })) {
            let pred = refmodel::interp(&reg.defs, s.ty(), &case.payload);
            let allowed = observed_calls(&r);
            for pol in policies() {
                let rp = run_case(s, &case.payload, src, pol.clone());
                acc.eval();
                acc.count("runs_under_answer_policies");
                if matches!(rp.outcome, Outcome::Panic(_)) {
                    continue;
                }
                if let Some(d) = handover_chain(&pred, &rp) {
                    acc.violation(format!("C11/{}/{}", d.rule, ctor(&reg.defs, s.ty())), d.rule, witness(s, &case.payload, src, &pol, &rp, json!({"what": d.detail})));
                }
                // a conversion failure answered stop makes the container fail there and then, whatever the following
                // hand-over is answered: no later field is examined and no later user function runs (round 8; same
                // local rule as C03 rule 5, here over the conversion subjects and the by-kind answer policies)
                if let Some((rule, detail, at)) = crate::c03::field_conversion_stop_rule(reg, s, &case.payload, &rp) {
                    acc.count("conversion_stop_rule_violations");
                    acc.violation(
                        format!("C11/conversion-failure-answered-stop-did-not-end-the-container/{}", ctor(&reg.defs, s.ty())),
                        "a try_from failure was answered stop, yet the container went on (later fields examined / user functions called)",
                        witness(s, &case.payload, src, &pol, &rp, json!({"rule": rule, "what": detail, "at": vcore::render_path(&at)})),
                    );
                }
                // ... and the error the call returns is what the error type built: every report it accepted on the way
                // (also those made before the conversion failure) is still held when the failure is answered stop
                // (round 9; the conservation rule of C01 over the conversion subjects and the by-kind policies)
                if let Some(loss) = conservation(&rp) {
                    acc.violation(
                        format!("C11/report-lost-around-a-conversion-failure/{}", ctor(&reg.defs, s.ty())),
                        "a report accepted by the error type is not in the error returned after a conversion / validate failure",
                        witness(s, &case.payload, src, &pol, &rp, json!({"rule": loss.rule, "what": loss.detail, "at": vcore::render_path(&loss.at)})),
                    );
                }
                let mut pool = allowed.clone();
                for c in observed_calls(&rp) {
                    match pool.iter().position(|x| *x == c) {
                        Some(i) => {
                            pool.swap_remove(i);
                        }
                        None => {
                            acc.violation(
                                format!("C11/user-function-called-only-under-stop-answers/{}", ctor(&reg.defs, s.ty())),
                                "a user function ran (or ran twice) under stop answers although the keep-going run does not call it",
                                witness(s, &case.payload, src, &pol, &rp, json!({"call": format!("{c:?}")})),
                            );
                            break;
                        }
                    }
                }
            }
        }
        acc.sample(|| json!({"subject": s.name(), "payload": case.payload.show(), "outcome": r.outcome.show(), "trace": r.trace_lines(14)}));
    }
}

pub fn run(ctx: &Ctx, reg: &Registry) -> i32 {
    let n_cases: u64 = ctx.tier.pick(1000, 15000);
    let n_base: u64 = ctx.tier.pick(10, 80);
    let acc = ctx.par(|shard, n| {
        let mut acc = Acc::new();
        let mut unit = 0u64;
        for s in reg.subjects.iter().filter(|s| s.has("conv") || s.has("generated")) {
            let s = s.as_ref();
            // a subject is "flat" when user functions of only one container can run
            let flat = matches!(s.name(), "ConvS" | "Validated" | "ValidatedEnum" | "CFrom" | "CTryFrom" | "CTryFromValidated" | "FieldErr");
            for i in 0..n_cases {
                unit += 1;
                if !shard_of(unit, shard, n) {
                    continue;
                }
                let case = gen_case(reg, s, ctx.seed.wrapping_add(1111), i, false);
                note_case(&mut acc, s, &case);
                check(&mut acc, reg, s, &case, flat);
            }
            for b in 0..n_base {
                unit += 1;
                if !shard_of(unit, shard, n) {
                    continue;
                }
                let base = valid_case(reg, s, ctx.seed.wrapping_add(11), b, 2);
                if base.size() > 100 {
                    continue;
                }
                check(&mut acc, reg, s, &Case { payload: base.clone(), faults: vec![] }, flat);
                for (tag, m) in mutations(&base) {
                    check(&mut acc, reg, s, &Case { payload: m, faults: vec![tag] }, flat);
                    acc.count("systematic_mutations");
                }
            }
        }
        acc
    });
    ctx.finish(
        acc,
        Finish {
            level: "exploration",
            rule: "every subject using from / try_from (by value and by reference) / map / validate / field-level `error =` at field and container level (catalogue + generated), keep-going script, both sources; random payloads plus every single structural mutation of valid payloads (so that every subset of stages fails somewhere). Oracle: the multiset of user-function Call events (name, argument projection, location) == the reference interpreter's (each conversion exactly once per field whose intermediate value deserialized, with exactly that value; map once per field and validate once only when all fields succeeded, validate receiving the finished value and the container's location); failures appear as exactly one foreign report at the field's / container's location (report multiset, hand-over sets); the Ok value is what the functions returned; every report is received first by the error type in scope (the field-level one under `error =`) and reports of the field-level error type cross into the container's error type exactly once; no examination or report below a container after its validate ran; stage order conversions -> maps -> validate inside flat subjects; under the by-kind answer policies a conversion failure answered stop ends its container whatever the next hand-over is answered, and no accepted report is lost from the returned error. Non-trivial = at least one user function ran or a report was made.".into(),
            exhaustive: false,
            assumptions: vec!["the instrumented user functions are pure and their behaviour is mirrored in refmodel::vf".into()],
        },
    )
}
