//! C09 — unknown keys: denied exactly and completely, otherwise ignored completely.
use crate::common::*;
use monitor::{Outcome, Run, Script};
use refmodel::{Def, Deny, Ty};
use serde_json::json;
use std::collections::BTreeMap;
use subjects::{Registry, Subject};
use vcore::evidence::{Acc, Finish};
use vcore::{resolve, Ctx, Ov, Path, Rng};

const A: Aspects = Aspects { value: true, reports: true, handovers: false, examined: false, calls: true };

fn report_multiset(run: &Run) -> BTreeMap<(String, Path), u32> {
    let mut m = BTreeMap::new();
    for r in run.reports() {
        *m.entry((obs_digest(&r.kind), r.loc.clone())).or_insert(0) += 1;
    }
    m
}

/// For the object at `path`: the keys an extra member must avoid, and whether its type ignores unknown keys.
fn object_info(reg: &Registry, s: &dyn Subject, p: &Ov, path: &Path) -> Option<(bool, Vec<String>, Vec<String>)> {
    let ty = ty_at(&reg.defs, s.ty(), p, path)?;
    let Ty::Named(n) = crate::bodies::strip(&ty) else { return None };
    match reg.defs.0.get(n)? {
        Def::Struct(sd) => Some((
            sd.deny == Deny::No,
            sd.fields.iter().filter(|f| !f.skip).map(|f| f.key.clone()).collect(),
            sd.fields.iter().filter(|f| f.skip).map(|f| f.key.clone()).collect(),
        )),
        Def::Enum(e) => {
            let node = resolve(p, path)?;
            let Ov::Str(t) = node.get_key(&e.tag)? else { return None };
            let v = e.variants.iter().find(|v| v.key == *t)?;
            let fs = v.fields.as_ref()?;
            let mut known: Vec<String> = fs.iter().filter(|f| !f.skip).map(|f| f.key.clone()).collect();
            known.push(e.tag.clone());
            Some((e.deny == Deny::No, known, fs.iter().filter(|f| f.skip).map(|f| f.key.clone()).collect()))
        }
        _ => None,
    }
}

pub fn run(ctx: &Ctx, reg: &Registry) -> i32 {
    let n_cases: u64 = ctx.tier.pick(800, 3000);
    let acc = ctx.par(|shard, n| {
        let mut acc = Acc::new();
        let mut unit = 0u64;
        for s in reg.subjects.iter().filter(|s| s.has("derive") || s.has("generated") || s.has("nested")) {
            let s = s.as_ref();
            for i in 0..n_cases {
                unit += 1;
                if !shard_of(unit, shard, n) {
                    continue;
                }
                // (a) model-based: payloads with many extra keys at every depth
                let h = vcore::evidence::hash64(s.name());
                let mut rng = Rng::derive(ctx.seed.wrapping_add(909), h, i);
                let opts = refmodel::payload::GenOpts { fault_pm: *rng.pick(&[0u32, 0, 60]), extra_key_pm: *rng.pick(&[300u32, 600, 800]), max_len: 2, ..Default::default() };
                let mut g = refmodel::payload::Gen::new(&reg.defs, rng.clone(), opts);
                let payload = g.payload(s.ty(), 0);
                let case = Case { payload, faults: g.faults.clone() };
                note_case(&mut acc, s, &case);
                let base_run = model_case(&mut acc, reg, "C09", s, &case, Source::Ov, &A);
                acc.add("unknown_key_reports_seen", base_run.reports().filter(|x| matches!(x.kind, monitor::RKind::UnknownKey { .. })).count() as u64);
                if case.payload.json_representable() {
                    model_case(&mut acc, reg, "C09", s, &case, Source::Json, &A);
                }
                // (a') the same with repeated members (second value source): a repeated KNOWN key is still a known
                // key — never reported unknown, never passed to the custom function; the model processes repeated
                // keys in enumeration order
                if i % 3 == 0 {
                    let dcase = gen_case_h(reg, s, ctx.seed.wrapping_add(9090), i, Host { dup: true, nonfinite: false, noncanon: false, alias: false });
                    if !unique_keys(&dcase.payload) {
                        note_case(&mut acc, s, &dcase);
                        let r = model_case(&mut acc, reg, "C09", s, &dcase, Source::Ov, &A);
                        acc.count("payloads_with_repeated_keys");
                        for rep in r.reports() {
                            if let monitor::RKind::UnknownKey { key, accepted } = &rep.kind {
                                if accepted.contains(key) {
                                    acc.violation(
                                        format!("C09/known-key-reported-unknown/{}", ctor(&reg.defs, s.ty())),
                                        "a key that is among the accepted keys was reported as unknown",
                                        witness(s, &dcase.payload, Source::Ov, &Script::Continue, &r, json!({"key": key, "accepted": accepted})),
                                    );
                                }
                            }
                        }
                    }
                }
                // (b) metamorphic, no model: add extra members to every object whose type ignores unknown keys
                if matches!(base_run.outcome, Outcome::Panic(_)) {
                    continue;
                }
                let mut extended = case.payload.clone();
                let mut added = 0;
                for path in all_paths(&case.payload) {
                    if !matches!(resolve(&case.payload, &path), Some(Ov::Map(_))) {
                        continue;
                    }
                    let Some((ignores, known, skipped)) = object_info(reg, s, &case.payload, &path) else { continue };
                    if !ignores {
                        continue;
                    }
                    let k = 1 + rng.below(4);
                    for j in 0..k {
                        let cand = match rng.below(5) {
                            0 if !known.is_empty() => refmodel::payload::flip_case(&known[rng.below(known.len())]),
                            1 if !known.is_empty() => refmodel::payload::one_edit(&mut rng, &known[0]),
                            2 if !skipped.is_empty() => skipped[rng.below(skipped.len())].clone(),
                            3 => format!("extra_{j}"),
                            _ => g.word(),
                        };
                        let exists = matches!(resolve(&extended, &path), Some(Ov::Map(m)) if m.iter().any(|(kk, _)| *kk == cand));
                        if known.contains(&cand) || exists {
                            continue;
                        }
                        let val = g.any(3);
                        let pos = rng.below(8);
                        extended = edit_at(&extended, &path, &|nd| {
                            if let Ov::Map(m) = nd {
                                let mut m = m.clone();
                                m.insert(pos.min(m.len()), (cand.clone(), val.clone()));
                                Ov::Map(m)
                            } else {
                                nd.clone()
                            }
                        });
                        added += 1;
                    }
                }
                if added == 0 {
                    continue;
                }
                let ext_run = run_case(s, &extended, Source::Ov, Script::Continue);
                let ecase = Case { payload: extended.clone(), faults: vec!["extra-keys-where-ignored"] };
                account(&mut acc, s, &ecase, &ext_run);
                acc.count("metamorphic_pairs");
                acc.add("extra_keys_added", added);
                acc.nontrivial(&(s.name(), "meta", trace_shape(&ext_run), added));
                let same_value = match (&base_run.outcome, &ext_run.outcome) {
                    (Outcome::Ok(a), Outcome::Ok(b)) => a == b,
                    (Outcome::Err { .. }, Outcome::Err { .. }) => true,
                    _ => false,
                };
                if !same_value || report_multiset(&base_run) != report_multiset(&ext_run) {
                    acc.violation(
                        format!("C09/unknown-key-changed-the-outcome/{}", ctor(&reg.defs, s.ty())),
                        "adding members that the type must ignore changed the value or the reports",
                        witness(s, &extended, Source::Ov, &Script::Continue, &ext_run, json!({"original_payload": case.payload.show(), "original_outcome": base_run.outcome.show(), "original_trace": base_run.trace_lines(40)})),
                    );
                }
                acc.sample(|| json!({"subject": s.name(), "payload": case.payload.show(), "extended": extended.show(), "outcome": base_run.outcome.show()}));
            }
        }
        acc
    });
    ctx.finish(
        acc,
        Finish {
            level: "exploration",
            rule: "(a) vs the reference interpreter, payloads with 30-80% extra-key rate at every object depth (random words, case-flipped / one-edit near misses of real keys, identifiers instead of effective keys, names of skipped fields, the tag key): the multiset of UnknownKey{key, accepted = effective keys of non-skipped fields in declaration order}@container reports, the custom deny_unknown_fields calls with (key, accepted, location), and the value. (b) metamorphic, model-free: to every object whose type ignores unknown keys 1-4 extra members are added (incl. near misses and skipped names, arbitrary values); result and report multiset must be unchanged. Non-trivial = a report was made or extra keys were added; distinct = (subject, fault signature, trace shape).".into(),
            exhaustive: false,
            assumptions: vec!["extra keys never collide with an effective key or the tag of the object they are added to".into()],
        },
    )
}
