//! C15 — object member order never changes the outcome (metamorphic, no model).
use crate::common::*;
use monitor::{Outcome, Run, Script};
use serde_json::json;
use std::collections::BTreeMap;
use subjects::{Registry, Subject};
use vcore::evidence::{Acc, Finish};
use vcore::{resolve, Ctx, Ov, Path, Rng};

/// Report digest of this check: as everywhere, plus the message text of `Unexpected` reports (round 8) - a metamorphic
/// comparison needs no model of the wording, and no built-in message renders an object, so the text may not depend on
/// the member order either.
fn digest(k: &monitor::RKind) -> String {
    match k {
        monitor::RKind::Unexpected { msg } => format!("unexpected:{msg}"),
        k => obs_digest(k),
    }
}

fn report_multiset(run: &Run) -> BTreeMap<(String, Path), u32> {
    let mut m = BTreeMap::new();
    for r in run.reports() {
        *m.entry((digest(&r.kind), r.loc.clone())).or_insert(0) += 1;
    }
    m
}

fn permutations(n: usize) -> Vec<Vec<usize>> {
    fn rec(cur: &mut Vec<usize>, used: &mut Vec<bool>, n: usize, out: &mut Vec<Vec<usize>>) {
        if cur.len() == n {
            out.push(cur.clone());
            return;
        }
        for i in 0..n {
            if !used[i] {
                used[i] = true;
                cur.push(i);
                rec(cur, used, n, out);
                cur.pop();
                used[i] = false;
            }
        }
    }
    let mut out = vec![];
    rec(&mut vec![], &mut vec![false; n], n, &mut out);
    out
}

fn compare(acc: &mut Acc, reg: &Registry, s: &dyn Subject, base: &Ov, base_run: &Run, permuted: &Ov, what: &str) {
    let r = run_case(s, permuted, Source::Ov, Script::Continue);
    let c = Case { payload: permuted.clone(), faults: vec!["members-permuted"] };
    let _ = &c;
    acc.eval();
    acc.count("permuted_runs_compared");
    acc.count(&format!("outcome.{}", r.outcome.tag()));
    acc.add("reports_in_permuted_runs", r.reports().count() as u64);
    acc.nontrivial(&(s.name(), trace_shape(&r), permuted.show()));
    if matches!(r.outcome, Outcome::Panic(_)) {
        return;
    }
    let same_value = match (&base_run.outcome, &r.outcome) {
        (Outcome::Ok(a), Outcome::Ok(b)) => a == b,
        (Outcome::Err { .. }, Outcome::Err { .. }) => true,
        _ => false,
    };
    // what the returned error HOLDS must not depend on the order either (the outcome of the call is the error)
    let held = |run: &Run| -> BTreeMap<(String, Path), u32> {
        let by_id = reports_by_id(run);
        let mut m = BTreeMap::new();
        if let Outcome::Err { holding, .. } = &run.outcome {
            for h in holding {
                if let Some(rep) = by_id.get(h) {
                    *m.entry((digest(&rep.kind), rep.loc.clone())).or_insert(0) += 1;
                }
            }
        }
        m
    };
    // ... and neither do the hand-overs: a report made below is received by every enclosing level through
    // `merge(.., location)`; which reports arrive where is fixed by the types, not by the enumeration order
    let handed = |run: &Run| -> BTreeMap<(String, Path, Path), u32> {
        let by_id = reports_by_id(run);
        let mut m = BTreeMap::new();
        for mg in run.merges() {
            for h in &mg.other_holding {
                if let Some(rep) = by_id.get(h) {
                    *m.entry((digest(&rep.kind), rep.loc.clone(), mg.loc.clone())).or_insert(0) += 1;
                }
            }
        }
        m
    };
    if !same_value || report_multiset(base_run) != report_multiset(&r) || held(base_run) != held(&r) || handed(base_run) != handed(&r) {
        acc.violation(
            format!("C15/member-order-changed-the-outcome/{}", ctor(&reg.defs, s.ty())),
            "permuting object members changed the value or the report multiset",
            witness(s, permuted, Source::Ov, &Script::Continue, &r, json!({"permutation": what, "original_payload": base.show(), "original_outcome": base_run.outcome.show(), "original_trace": base_run.trace_lines(40)})),
        );
    }
}

pub fn run(ctx: &Ctx, reg: &Registry) -> i32 {
    let n_cases: u64 = ctx.tier.pick(200, 400);
    // cap on single-object permutations per payload (objects are visited in a rotating order so that every
    // depth gets its share); objects with <= 5 members are always permuted completely once started
    let per_case_cap: usize = ctx.tier.pick(240, 480);
    let n_joint: u64 = ctx.tier.pick(4, 16);
    let acc = ctx.par(|shard, n| {
        let mut acc = Acc::new();
        let mut unit = 0u64;
        for s in reg.subjects.iter() {
            let s = s.as_ref();
            for i in 0..n_cases {
                unit += 1;
                if !shard_of(unit, shard, n) {
                    continue;
                }
                // unique keys (order is legitimately observable otherwise), but non-finite floats and non-canonical numbers are in
                let case = gen_case_h(reg, s, ctx.seed.wrapping_add(1515), i, Host { dup: false, nonfinite: i % 2 == 0, noncanon: i % 2 == 0, alias: false });
                let objects: Vec<Path> = all_paths(&case.payload).into_iter().filter(|p| matches!(resolve(&case.payload, p), Some(Ov::Map(m)) if m.len() >= 2)).collect();
                if objects.is_empty() {
                    continue;
                }
                note_case(&mut acc, s, &case);
                let base_run = run_case(s, &case.payload, Source::Ov, Script::Continue);
                acc.eval();
                if matches!(base_run.outcome, Outcome::Panic(_)) {
                    continue;
                }
                let mut rng = Rng::derive(ctx.seed, vcore::evidence::hash64(s.name()), 150_000 + i);
                // every permutation of every object with <= 5 members, one object at a time
                let mut done = 0usize;
                for oi in 0..objects.len() {
                    let path = &objects[(oi + i as usize) % objects.len()];
                    if done >= per_case_cap {
                        acc.count("objects_left_out_by_the_per_payload_cap");
                        continue;
                    }
                    let Some(Ov::Map(m)) = resolve(&case.payload, path) else { continue };
                    let k = m.len();
                    let perms: Vec<Vec<usize>> = if k <= 5 {
                        acc.count("objects_fully_permuted");
                        permutations(k)
                    } else {
                        (0..24)
                            .map(|_| {
                                let mut p: Vec<usize> = (0..k).collect();
                                rng.shuffle(&mut p);
                                p
                            })
                            .collect()
                    };
                    done += perms.len();
                    for perm in perms.iter().skip(1) {
                        let permuted = edit_at(&case.payload, path, &|nd| if let Ov::Map(m) = nd { Ov::Map(perm.iter().map(|&j| m[j].clone()).collect()) } else { nd.clone() });
                        compare(&mut acc, reg, s, &case.payload, &base_run, &permuted, &format!("{perm:?} at {:?}", vcore::render_path(path)));
                    }
                }
                // all objects shuffled jointly
                for _ in 0..n_joint {
                    let mut p = case.payload.clone();
                    for path in &objects {
                        let seed = rng.next();
                        p = edit_at(&p, path, &|nd| {
                            if let Ov::Map(m) = nd {
                                let mut m = m.clone();
                                Rng::new(seed).shuffle(&mut m);
                                Ov::Map(m)
                            } else {
                                nd.clone()
                            }
                        });
                    }
                    compare(&mut acc, reg, s, &case.payload, &base_run, &p, "joint shuffle");
                }
                acc.sample(|| json!({"subject": s.name(), "payload": case.payload.show(), "objects_permuted": objects.len(), "outcome": base_run.outcome.show()}));
            }
        }
        acc
    });
    ctx.finish(
        acc,
        Finish {
            level: "exploration",
            rule: "metamorphic, no reference model: for every generated payload (all subjects, faulty and fault-free) and every object in it with >= 2 members, ALL permutations of its members when it has <= 5 of them (24 random ones beyond), one object at a time, plus joint random shuffles of all objects at every depth; presented through the order preserving instrumented source under the keep-going script. Oracle: equal Ok projections, equal multisets of (report digest incl. the message text of Unexpected reports, location) received by the error type, equal multisets held by the returned error, and equal multisets of (report, hand-over location) pairs. Non-trivial = every permuted run; distinct = (subject, trace shape, permuted payload).".into(),
            exhaustive: false,
            assumptions: vec!["payload keys are unique and map keys parse to distinct values (otherwise last-wins makes order legitimately observable)".into()],
        },
    )
}
