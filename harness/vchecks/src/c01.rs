//! C01 — no reported error is ever lost. Oracle: conservation of unique report ids over the token
//! log; no reference model involved.
use crate::common::*;
use monitor::Script;
use serde_json::json;
use subjects::Registry;
use vcore::evidence::{Acc, Finish};
use vcore::Ctx;

pub fn check(acc: &mut Acc, reg: &Registry, s: &dyn subjects::Subject, case: &Case, src: Source, script: Script) -> u32 {
    let run = run_case(s, &case.payload, src, script.clone());
    account(acc, s, case, &run);
    acc.count(&format!("runs.{}", src.name()));
    if let Some(loss) = conservation(&run) {
        let at = ctor_at(reg, s, &case.payload, &loss.at);
        acc.violation(
            format!("C01/{}/{}", loss.rule, at),
            format!("conservation of report ids: {}", loss.rule),
            witness(s, &case.payload, src, &script, &run, json!({"what": loss.detail, "lost_at": vcore::render_path(&loss.at), "container_there": at})),
        );
    }
    if matches!(run.outcome, monitor::Outcome::Panic(_)) {
        acc.count("panics_seen_(reported_by_C12)");
    }
    acc.sample(|| json!({"subject": s.name(), "payload": case.payload.show(), "source": src.name(), "script": format!("{script:?}"), "outcome": run.outcome.show(), "trace": run.trace_lines(12)}));
    run.decisions()
}

pub fn run(ctx: &Ctx, reg: &Registry) -> i32 {
    let n_cases: u64 = ctx.tier.pick(400, 6000);
    let n_bits: u64 = ctx.tier.pick(8, 40);
    let acc = ctx.par(|shard, n| {
        let mut acc = Acc::new();
        for (si, s) in reg.subjects.iter().enumerate() {
            let s = s.as_ref();
            for i in 0..n_cases {
                if !shard_of(si as u64 * n_cases + i, shard, n) {
                    continue;
                }
                let case = gen_case(reg, s, ctx.seed, i, true);
                note_case(&mut acc, s, &case);
                let nd = check(&mut acc, reg, s, &case, Source::Ov, Script::Continue);
                for k in 0..nd.min(96) {
                    check(&mut acc, reg, s, &case, Source::Ov, Script::BreakFrom(k));
                }
                if nd > 0 {
                    for pol in policies() {
                        check(&mut acc, reg, s, &case, Source::Ov, pol);
                    }
                }
                for j in 0..n_bits {
                    let sd = ctx.seed.wrapping_mul(1000003) ^ (i << 8) ^ j;
                    check(&mut acc, reg, s, &case, Source::Ov, if j % 2 == 0 { Script::Bits(sd) } else { Script::Coin(sd) });
                }
                if case.payload.json_representable() {
                    let nd = check(&mut acc, reg, s, &case, Source::Json, Script::Continue);
                    check(&mut acc, reg, s, &case, Source::Json, Script::Break);
                    if nd > 1 {
                        check(&mut acc, reg, s, &case, Source::Json, Script::BreakFrom(1 + (i as u32 % (nd - 1))));
                    }
                    check(&mut acc, reg, s, &case, Source::Json, Script::Bits(ctx.seed ^ i));
                }
            }
        }
        acc
    });
    ctx.finish(
        acc,
        Finish {
            level: "fault_enumeration",
            rule: "type-directed random payloads (0..35% fault rate per node, duplicate keys / non-finite floats / non-canonical numbers through the second value source) for every catalogue (+generated) subject; each payload is run under the keep-going script, under BreakFrom(k) for EVERY decision index k of the keep-going run, and under random 3/4 and 1/2 Continue scripts, through both value sources. Oracle: multiset of report ids created == multiset held by the returned error; Ok only if none was created. A case is non-trivial when at least one report was made; distinct = distinct (subject, fault-signature, trace-shape) triples.".into(),
            exhaustive: false,
            assumptions: vec![
                "the recording error type keeps everything it is handed (premise of the property)".into(),
                "coverage is what the payload generator and the catalogue reach; see observed.faults.* and observed_sets.subjects".into(),
            ],
        },
    )
}
