//! C04 — every report points at the real culprit; hand-over locations are the child's own position.
use crate::common::*;
use monitor::{Outcome, Script};
use serde_json::json;
use subjects::{Registry, Subject};
use vcore::evidence::{Acc, Finish};
use vcore::Ctx;

fn check(acc: &mut Acc, reg: &Registry, s: &dyn Subject, case: &Case, src: Source, script: Script, with_model: bool) {
    let run = run_case(s, &case.payload, src, script.clone());
    account(acc, s, case, &run);
    if matches!(run.outcome, Outcome::Panic(_)) {
        acc.count("panics_seen_(reported_by_C12)");
        return;
    }
    for u in truth(reg, s, &case.payload, &run).into_iter().chain(handover_prefix(&case.payload, &run)) {
        let at = ctor_at(reg, s, &case.payload, &u.loc[..u.loc.len().saturating_sub(1)]);
        acc.violation(
            format!("C04/{}/{}", u.rule, at),
            u.rule,
            witness(s, &case.payload, src, &script, &run, json!({"what": u.detail, "container_of_location": at})),
        );
    }
    acc.add("reports_checked_against_payload", run.reports().count() as u64);
    acc.add("handovers_checked", run.merges().count() as u64);
    if script != Script::Continue && unique_keys(&case.payload) {
        // B(iii): under ANY answers, hand-overs stay on the positions the types require, deepest first
        let seen = if src == Source::Json { vcore::Ov::from_json(&case.payload.to_json()) } else { case.payload.clone() };
        let pred = refmodel::interp(&reg.defs, s.ty(), &seen);
        if let Some(d) = handover_chain(&pred, &run) {
            let at = ctor_at(reg, s, &case.payload, &d.loc);
            acc.violation(
                format!("C04/{}/{}", d.rule, at),
                d.rule,
                witness(s, &case.payload, src, &script, &run, json!({"what": d.detail, "container_of_location": at})),
            );
        }
        acc.count("handover_chains_checked_under_stop_answers");
    }
    if with_model && script == Script::Continue {
        let pred = refmodel::interp(&reg.defs, s.ty(), &case.payload);
        if let Some(d) = compare_handovers(&pred, &run) {
            let at = ctor_at(reg, s, &case.payload, &d.loc[..d.loc.len().saturating_sub(1)]);
            acc.violation(
                format!("C04/{}/{}", d.rule, at),
                d.rule,
                witness(s, &case.payload, src, &script, &run, json!({"what": d.detail, "container_of_location": at})),
            );
        }
        acc.count("handover_sets_compared_with_model");
        // what an Unexpected report says must be true of the payload too: the number and bound, the string and its
        // number of characters, the key (the model lists the facts, the message has to contain them)
        let held: Vec<&monitor::Report> = run.reports().collect();
        if pred.reports.len() == held.len() {
            if let Some(d) = unexpected_facts(&pred, &held) {
                let at = ctor_at(reg, s, &case.payload, &d.loc);
                acc.violation(format!("C04/{}/{}", d.rule, at), d.rule, witness(s, &case.payload, src, &script, &run, json!({"what": d.detail})));
            }
        }
    }
    acc.sample(|| json!({"subject": s.name(), "payload": case.payload.show(), "source": src.name(), "script": format!("{script:?}"), "trace": run.trace_lines(12)}));
}

pub fn run(ctx: &Ctx, reg: &Registry) -> i32 {
    let n_cases: u64 = ctx.tier.pick(400, 5000);
    let n_base: u64 = ctx.tier.pick(4, 30);
    let acc = ctx.par(|shard, n| {
        let mut acc = Acc::new();
        for (si, s) in reg.subjects.iter().enumerate() {
            let s = s.as_ref();
            // (a) random multi-fault payloads
            for i in 0..n_cases {
                if !shard_of(si as u64 * n_cases + i, shard, n) {
                    continue;
                }
                // non-canonical numbers included (NegativeInteger(0), NegativeInteger(5)): what a report states about the
                // value must be true of them too
                let case = gen_case_h(reg, s, ctx.seed.wrapping_add(404), i, Host { dup: false, nonfinite: false, noncanon: true, alias: false });
                note_case(&mut acc, s, &case);
                check(&mut acc, reg, s, &case, Source::Ov, Script::Continue, true);
                check(&mut acc, reg, s, &case, Source::Ov, Script::Break, false);
                check(&mut acc, reg, s, &case, Source::Ov, Script::Bits(ctx.seed ^ i), false);
                check(&mut acc, reg, s, &case, Source::Ov, Script::Coin(ctx.seed ^ i), false);
                for pol in policies() {
                    check(&mut acc, reg, s, &case, Source::Ov, pol, false);
                }
                check(&mut acc, reg, s, &case, Source::Ov, Script::BreakFrom((i % 5) as u32), false);
                if case.payload.json_representable() {
                    check(&mut acc, reg, s, &case, Source::Json, Script::Continue, true);
                }
            }
            // (a') repeated members (second value source): the rules that do not need a location to name ONE node —
            // an unknown key is never among the accepted keys, a missing field is never present
            for i in 0..n_cases / 4 {
                if !shard_of(si as u64 * n_cases + i, shard, n) {
                    continue;
                }
                let case = gen_case_h(reg, s, ctx.seed.wrapping_add(4040), i, Host { dup: true, nonfinite: false, noncanon: false, alias: false });
                if unique_keys(&case.payload) {
                    continue;
                }
                let run = run_case(s, &case.payload, Source::Ov, Script::Continue);
                account(&mut acc, s, &case, &run);
                acc.count("repeated_member_payloads");
                for r in run.reports() {
                    let bad = match &r.kind {
                        monitor::RKind::UnknownKey { key, accepted } if accepted.contains(key) => Some(("unknown-key-is-accepted", format!("key {key:?} is among the accepted keys {accepted:?}"))),
                        _ => None,
                    };
                    if let Some((rule, what)) = bad {
                        let at = ctor_at(reg, s, &case.payload, &r.loc);
                        acc.violation(format!("C04/{rule}/{at}"), rule, witness(s, &case.payload, Source::Ov, &Script::Continue, &run, json!({"what": what})));
                    }
                }
            }
            // (b) systematic: a fault at EVERY position of a valid payload, one at a time and in pairs
            for b in 0..n_base {
                if !shard_of(si as u64 * n_base + b, shard, n) {
                    continue;
                }
                let mut rng = vcore::Rng::derive(ctx.seed, vcore::evidence::hash64(s.name()), 9000 + b);
                let opts = refmodel::payload::GenOpts { fault_pm: 0, max_len: 2 + (b as usize % 3), extra_key_pm: 0, ..Default::default() };
                let _ = rng.next();
                let mut g = refmodel::payload::Gen::new(&reg.defs, rng, opts);
                let base = g.payload(s.ty(), 0);
                let paths = all_paths(&base);
                if paths.len() > 400 {
                    continue;
                }
                for (pi, path) in paths.iter().enumerate() {
                    for intr in intruders() {
                        let p1 = replace_at(&base, path, &intr);
                        let case = Case { payload: p1.clone(), faults: vec!["intruder-at-every-position"] };
                        check(&mut acc, reg, s, &case, Source::Ov, Script::Continue, true);
                        acc.count("systematic_single_fault_cases");
                        // a second fault at a later position (faults after other faults)
                        if let Some(path2) = paths.get(pi + 1 + (b as usize % 3)) {
                            if !vcore::ov::is_prefix(path, path2) {
                                let p2 = replace_at(&p1, path2, &intruders()[(pi + 3) % 8]);
                                let case = Case { payload: p2, faults: vec!["intruder-pair"] };
                                check(&mut acc, reg, s, &case, Source::Ov, Script::Continue, true);
                                acc.count("systematic_double_fault_cases");
                            }
                        }
                    }
                }
            }
        }
        acc
    });
    ctx.finish(
        acc,
        Finish {
            level: "exploration",
            rule: "oracle A (self-contained): every report of every run is resolved in the original payload — location exists; `actual` IS the node there (node identity through the instrumented source, equality through serde_json) and its kind is not accepted; missing field really absent; unknown key really present and not accepted; unknown value is the string there; arity differs. Oracle B(i): every hand-over location resolves and is an ancestor-or-self of every report handed over. Oracle B(ii) (keep-going run, vs the reference model): per report the SET of hand-over locations equals the element positions on its path. Oracle B(iii) (every other script: always-Break, BreakFrom(k), random, and 9 answer policies by kind of decision): every hand-over of a report is at one of those positions and the first one at the deepest (the child's own position). Workloads: random multi-fault payloads under 4 answer scripts and both sources; systematically, each of 8 intruder values at EVERY position of valid payloads (single and paired faults). Non-trivial = at least one report; distinct = (subject, fault signature, trace shape).".into(),
            exhaustive: false,
            assumptions: vec!["payload keys are unique in this workload so that a location names one node".into()],
        },
    )
}
