//! C07 — derived fields are read from exactly their effective key.
use crate::bodies::*;
use crate::common::*;
use refmodel::payload::{flip_case, one_edit};
use serde_json::json;
use subjects::{Registry, Subject};
use vcore::evidence::{Acc, Finish};
use vcore::{Ctx, Ov, Rng};

const A: Aspects = Aspects { value: true, reports: true, handovers: false, examined: false, calls: false };

/// plausible keys for a field: effective key, identifier, camelCase / lowercase / UPPERCASE forms,
/// case-flipped and one-edit near misses
fn candidates(f: &refmodel::FieldDef, rng: &mut Rng) -> Vec<String> {
    let mut c = vec![
        f.key.clone(),
        f.ident.clone(),
        format!("r#{}", f.ident),
        snake_to_camel(&f.ident),
        f.ident.to_lowercase(),
        f.ident.to_uppercase(),
        flip_case(&f.key),
        one_edit(rng, &f.key),
        format!("{}_", f.key),
        f.key.to_lowercase(),
    ];
    let mut seen = vec![];
    c.retain(|k| {
        if seen.contains(k) {
            false
        } else {
            seen.push(k.clone());
            true
        }
    });
    c
}

fn check(acc: &mut Acc, reg: &Registry, s: &dyn Subject, body: &Body, members: Vec<(String, Ov)>, tag_pos: usize, what: &'static str) {
    // unique keys only
    let mut uniq: Vec<(String, Ov)> = vec![];
    for (k, v) in members {
        if !uniq.iter().any(|(kk, _)| *kk == k) {
            uniq.push((k, v));
        }
    }
    let case = Case { payload: assemble(body, uniq, tag_pos), faults: vec![what] };
    let r = model_case(acc, reg, "C07", s, &case, Source::Ov, &A);
    if let monitor::Outcome::Ok(p) = &r.outcome {
        acc.nontrivial(&(s.name(), &body.label, p.show()));
        acc.count("ok_values_compared");
    }
    if case.payload.json_representable() {
        model_case(acc, reg, "C07", s, &case, Source::Json, &A);
    }
    acc.sample(|| json!({"subject": s.name(), "body": body.label, "payload": case.payload.show(), "outcome": r.outcome.show()}));
}

pub fn run(ctx: &Ctx, reg: &Registry) -> i32 {
    let n_rand: u64 = ctx.tier.pick(400, 5000);
    let acc = ctx.par(|shard, n| {
        let mut acc = Acc::new();
        let mut unit = 0u64;
        for s in reg.subjects.iter().filter(|s| s.has("derive") || s.has("generated")) {
            let s = s.as_ref();
            let h = vcore::evidence::hash64(s.name());
            for body in bodies(&reg.defs, s.ty()) {
                unit += 1;
                if !shard_of(unit, shard, n) {
                    continue;
                }
                acc.note("bodies", &body.label);
                let mut rng = Rng::derive(ctx.seed, h, 77);
                let fields: Vec<&refmodel::FieldDef> = body.fields.iter().collect();
                // per field: candidate keys, each with its own sentinel value
                let cands: Vec<Vec<(String, Ov)>> = fields
                    .iter()
                    .enumerate()
                    .map(|(fi, f)| candidates(f, &mut rng).into_iter().enumerate().map(|(ci, k)| (k, valid_value(&reg.defs, &f.ty, ctx.seed ^ h, fi as u64, ci as u64))).collect())
                    .collect();
                for f in &fields {
                    acc.count(if f.key != f.ident { "fields.renamed" } else { "fields.identifier_key" });
                }
                // (1) everything at once
                let all: Vec<(String, Ov)> = cands.iter().flatten().cloned().collect();
                check(&mut acc, reg, s, &body, all.clone(), 0, "all-candidate-keys");
                let mut rev = all.clone();
                rev.reverse();
                check(&mut acc, reg, s, &body, rev, usize::MAX, "all-candidate-keys-reversed");
                // (2) each field under each single candidate, the others under their effective key
                for (fi, _) in fields.iter().enumerate() {
                    for (ci, (k, v)) in cands[fi].iter().enumerate() {
                        let mut members = vec![];
                        for (fj, g) in fields.iter().enumerate() {
                            if fj == fi {
                                members.push((k.clone(), v.clone()));
                            } else if !g.skip {
                                members.push(cands[fj][0].clone());
                            }
                        }
                        check(&mut acc, reg, s, &body, members, ci % 3, "one-field-under-one-candidate");
                    }
                }
                // (2') repeated members (second value source): a field's key twice, with two different sentinels, among
                // the other fields; the model reads repeated keys in enumeration order (the later one wins)
                for (fi, f) in fields.iter().enumerate() {
                    if f.skip {
                        continue;
                    }
                    let mut members: Vec<(String, Ov)> = fields.iter().enumerate().filter(|(_, g)| !g.skip).map(|(fj, _)| cands[fj][0].clone()).collect();
                    let second = (f.key.clone(), valid_value(&reg.defs, &f.ty, ctx.seed ^ h, fi as u64, 99));
                    let pos = (fi * 7) % (members.len() + 1);
                    members.insert(pos, second);
                    let case = Case { payload: assemble(&body, members, fi % 3), faults: vec!["repeated-key"] };
                    let r = model_case(&mut acc, reg, "C07", s, &case, Source::Ov, &A);
                    if let monitor::Outcome::Ok(p) = &r.outcome {
                        acc.nontrivial(&(s.name(), &body.label, p.show()));
                    }
                    acc.count("repeated_key_payloads");
                }
                // (3) random subsets of candidates
                for i in 0..n_rand {
                    let mut members = vec![];
                    for c in &cands {
                        for kv in c {
                            if rng.chance(1, 3) {
                                members.push(kv.clone());
                            }
                        }
                    }
                    rng.shuffle(&mut members);
                    check(&mut acc, reg, s, &body, members, (i % 4) as usize, "random-candidate-subset");
                }
            }
        }
        acc
    });
    ctx.finish(
        acc,
        Finish {
            level: "exploration",
            rule: "for every struct-like body (struct or variant of a tagged enum) of every derived subject (hand-written catalogue + generated programs): payloads over the union of plausible keys of every field — effective key, identifier, r#identifier, camelCase / lowercase / UPPERCASE forms, case-flipped and one-edit near misses — each carrying its own sentinel value; all candidates at once (both orders), each field under each single candidate, random subsets. Oracle: Ok projection (by Rust field identifier) and report multiset equal the reference interpreter's, whose effective keys were written by hand / computed by the generator's own renaming rules, never by the macro. Non-trivial = Ok value compared or a report made; distinct = (subject, body, value) resp. trace shape.".into(),
            exhaustive: false,
            assumptions: vec!["identifier shapes are restricted to those where camelCase has one reading (DESIGN.md §6)".into()],
        },
    )
}
