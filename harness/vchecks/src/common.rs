//! Oracles and helpers shared by the drivers.
use monitor::{Event, Outcome, RKind, Report, Run, Script};
use refmodel::payload::{Gen, GenOpts};
use refmodel::{Def, Defs, Pred, Ty};
use serde_json::{json, Value};
use std::collections::{BTreeMap, BTreeSet, HashMap};
use subjects::{Registry, Subject};
use vcore::evidence::Acc;
use vcore::ov::is_prefix;
use vcore::{render_path, resolve, Ctx, Ov, Path, Rng, Step};

#[derive(Clone, Copy, Debug, PartialEq, Eq)]
pub enum Source {
    Ov,
    Json,
}

impl Source {
    pub fn name(self) -> &'static str {
        match self {
            Source::Ov => "ov",
            Source::Json => "serde_json",
        }
    }
}

pub fn run_case(s: &dyn Subject, p: &Ov, src: Source, script: Script) -> Run {
    match src {
        Source::Ov => s.run_ov(p, script),
        Source::Json => s.run_json(&p.to_json(), script),
    }
}

pub fn witness(s: &dyn Subject, p: &Ov, src: Source, script: &Script, run: &Run, detail: Value) -> Value {
    json!({
        "subject": s.name(),
        "generated_source": s.source(),
        "source": src.name(),
        "payload": p,
        "payload_shown": p.show(),
        "script": script,
        "outcome": run.outcome.show(),
        "trace": run.trace_lines(80),
        "detail": detail,
    })
}

/// Static type constructor at a location (for signatures): follows the payload for enum variants.
pub fn ty_at(defs: &Defs, root: &Ty, payload: &Ov, path: &[Step]) -> Option<Ty> {
    let mut ty = root.clone();
    let mut node = payload;
    for (i, st) in path.iter().enumerate() {
        // strip transparent wrappers
        loop {
            match ty {
                Ty::Option(t) | Ty::Boxed(t) => ty = *t,
                _ => break,
            }
        }
        let next: Ty = match (&ty, st) {
            (Ty::Vec(t), Step::Index(_)) | (Ty::Set(t), Step::Index(_)) | (Ty::Array(t, _), Step::Index(_)) => (**t).clone(),
            (Ty::Tuple(ts), Step::Index(ix)) => ts.get(*ix)?.clone(),
            (Ty::Map(_, t), Step::Key(_)) => (**t).clone(),
            (Ty::Json, _) => Ty::Json,
            (Ty::Named(n), Step::Key(k)) => {
                let mut def = defs.0.get(n)?.clone();
                while let Def::Conv(c) = &def {
                    match &c.inter {
                        Ty::Named(m) => def = defs.0.get(m)?.clone(),
                        other => return ty_at(defs, other, node, &path[i..]),
                    }
                }
                match &def {
                    Def::Struct(s) => s.fields.iter().find(|f| !f.skip && f.key == *k)?.ty.clone(),
                    Def::Enum(e) => {
                        if *k == e.tag {
                            Ty::Str
                        } else {
                            let tag = node.get_key(&e.tag)?;
                            let Ov::Str(t) = tag else { return None };
                            let v = e.variants.iter().find(|v| v.key == *t)?;
                            v.fields.as_ref()?.iter().find(|f| !f.skip && f.key == *k)?.ty.clone()
                        }
                    }
                    _ => return None,
                }
            }
            (Ty::Named(n), Step::Index(_)) => {
                let Def::Conv(c) = defs.0.get(n)? else { return None };
                return ty_at(defs, &c.inter, node, &path[i..]);
            }
            _ => return None,
        };
        node = resolve(node, std::slice::from_ref(st))?;
        ty = next;
    }
    Some(ty)
}

pub fn ctor(defs: &Defs, ty: &Ty) -> String {
    match ty {
        Ty::Option(t) | Ty::Boxed(t) => ctor(defs, t),
        Ty::Vec(_) => "Vec".into(),
        Ty::Set(_) => "Set".into(),
        Ty::Array(..) => "Array".into(),
        Ty::Tuple(ts) => format!("Tuple{}", ts.len()),
        Ty::Map(..) => "Map".into(),
        Ty::Cs(_) => "CS".into(),
        Ty::Json => "Json".into(),
        Ty::Named(n) => match defs.0.get(n) {
            Some(Def::Struct(_)) => "DerivedStruct".into(),
            Some(Def::Enum(_)) => "DerivedTaggedEnum".into(),
            Some(Def::UnitEnum(_)) => "DerivedUnitEnum".into(),
            Some(Def::Conv(_)) => "DerivedConv".into(),
            None => "Named".into(),
        },
        other => format!("{other:?}").split([' ', '{', '(']).next().unwrap_or("?").to_string(),
    }
}

pub fn ctor_at(reg: &Registry, s: &dyn Subject, p: &Ov, path: &[Step]) -> String {
    ty_at(&reg.defs, s.ty(), p, path).map(|t| ctor(&reg.defs, &t)).unwrap_or_else(|| "?".into())
}

/// Wording-free digest of an observed report; same format as refmodel::PKind::digest.
pub fn obs_digest(k: &RKind) -> String {
    match k {
        RKind::Kind { actual, accepted, .. } => {
            let set: BTreeSet<_> = accepted.iter().copied().collect();
            format!("kind:{:?}->{:?}", actual.kind(), set)
        }
        RKind::BadLen { actual, expected, .. } => {
            let len = if let Ov::Seq(v) = actual { v.len() } else { usize::MAX };
            format!("bad_len:expected={expected}:len={len}")
        }
        RKind::Missing { field } => format!("missing:{field}"),
        RKind::UnknownKey { key, accepted } => format!("unknown_key:{key}:{accepted:?}"),
        RKind::UnknownValue { value, accepted } => format!("unknown_value:{value}:{accepted:?}"),
        RKind::Unexpected { .. } => "unexpected".to_string(),
        RKind::Foreign { name, msg } => format!("foreign:{name}:{msg}"),
    }
}

pub fn reports_by_id(run: &Run) -> HashMap<u32, &Report> {
    run.reports().map(|r| (r.id, r)).collect()
}

// ------------------------------------------------------------------------------------------------
// C01: conservation of unique report ids over the token log
// ------------------------------------------------------------------------------------------------
pub struct Loss {
    pub rule: &'static str,
    pub detail: String,
    /// where the loss became visible (location of the last event that involved the lost report)
    pub at: Path,
}

pub fn conservation(run: &Run) -> Option<Loss> {
    let created: Vec<&Report> = run.reports().collect();
    match &run.outcome {
        Outcome::Panic(_) => None,
        Outcome::Ok(_) => {
            if let Some(r) = created.first() {
                Some(Loss {
                    rule: "ok-after-report",
                    detail: format!(
                        "the call returned Ok although {} report(s) were made; first: r{} {} at {:?}{}",
                        created.len(),
                        r.id,
                        obs_digest(&r.kind),
                        render_path(&r.loc),
                        drop_note(run)
                    ),
                    at: last_seen_at(run, r.id),
                })
            } else {
                None
            }
        }
        Outcome::Err { holding, .. } => {
            let mut count: BTreeMap<u32, i32> = BTreeMap::new();
            for r in &created {
                *count.entry(r.id).or_insert(0) -= 1;
            }
            for h in holding {
                *count.entry(*h).or_insert(0) += 1;
            }
            for (id, c) in count {
                if c < 0 {
                    return Some(Loss {
                        rule: "report-lost",
                        detail: format!("report r{id} was made but is not in the returned error{}", drop_note(run)),
                        at: last_seen_at(run, id),
                    });
                }
                if c > 0 {
                    return Some(Loss {
                        rule: "report-duplicated",
                        detail: format!("report r{id} is held {} times by the returned error", c + 1),
                        at: last_seen_at(run, id),
                    });
                }
            }
            if holding.is_empty() {
                return Some(Loss { rule: "err-without-report", detail: "Err returned but no report was ever made".into(), at: vec![] });
            }
            None
        }
    }
}

fn drop_note(run: &Run) -> String {
    for e in &run.events {
        if let Event::Drop { tok, holding, .. } = e {
            if !holding.is_empty() {
                return format!("; token t{tok} was dropped while holding {holding:?}");
            }
        }
    }
    String::new()
}

/// Location of the last report/merge event that held report `id` (where it was last seen alive).
fn last_seen_at(run: &Run, id: u32) -> Path {
    let mut at = vec![];
    for e in &run.events {
        match e {
            Event::Report(r) if r.id == id || r.self_holding.contains(&id) => at = r.loc.clone(),
            Event::Merge(m) if m.other_holding.contains(&id) || m.self_holding.contains(&id) => at = m.loc.clone(),
            _ => {}
        }
    }
    at
}

// ------------------------------------------------------------------------------------------------
// C04 oracle A: every report is true of the payload at its location
// ------------------------------------------------------------------------------------------------
pub struct Untrue {
    pub rule: &'static str,
    pub detail: String,
    pub loc: Path,
}

pub fn truth(reg: &Registry, s: &dyn Subject, p: &Ov, run: &Run) -> Vec<Untrue> {
    let mut out = vec![];
    // the serde_json source enumerates object members sorted by key: compare modulo member order there
    let same = |a: &Ov, b: &Ov| if run.nodes.is_empty() { a.eq_modulo_order(b) } else { a == b };
    for r in run.reports() {
        let Some(node) = resolve(p, &r.loc) else {
            out.push(Untrue {
                rule: "location-does-not-resolve",
                detail: format!("report r{} {} points at {:?}, which does not exist in the payload", r.id, obs_digest(&r.kind), render_path(&r.loc)),
                loc: r.loc.clone(),
            });
            continue;
        };
        let mut bad = |rule: &'static str, detail: String| out.push(Untrue { rule, detail, loc: r.loc.clone() });
        match &r.kind {
            RKind::Kind { actual, actual_node, accepted } => {
                if accepted.contains(&actual.kind()) {
                    bad("kind-report-with-accepted-kind", format!("r{}: actual kind {:?} is among the accepted kinds {:?}", r.id, actual.kind(), accepted));
                }
                if !same(actual, node) {
                    bad(
                        "actual-is-not-the-value-at-location",
                        format!("r{}: kind error at {:?} quotes {} but the payload holds {} there", r.id, render_path(&r.loc), actual.show(), node.show()),
                    );
                } else if let Some(id) = actual_node {
                    if run.nodes.get(*id as usize).map(|n| &n.path) != Some(&r.loc) {
                        bad(
                            "actual-is-an-equal-copy-from-elsewhere",
                            format!("r{}: the container handed over as `actual` is node n{id} at {:?}, not the node at {:?}", r.id, run.nodes.get(*id as usize).map(|n| render_path(&n.path)), render_path(&r.loc)),
                        );
                    }
                }
            }
            RKind::BadLen { actual, actual_node, expected } => match node {
                Ov::Seq(v) => {
                    if !same(actual, node) {
                        bad("bad-len-sequence-is-not-the-one-at-location", format!("r{}: quotes {} but the payload holds {}", r.id, actual.show(), node.show()));
                    } else if let Some(id) = actual_node {
                        if run.nodes.get(*id as usize).map(|n| &n.path) != Some(&r.loc) {
                            bad("actual-is-an-equal-copy-from-elsewhere", format!("r{}: sequence handed over is node n{id}, not the node at {:?}", r.id, render_path(&r.loc)));
                        }
                    }
                    if v.len() == *expected {
                        bad("bad-len-with-right-len", format!("r{}: sequence has the expected length {expected}", r.id));
                    }
                }
                _ => bad("bad-len-on-non-sequence", format!("r{}: location holds {}", r.id, node.show())),
            },
            RKind::Missing { field } => match node {
                Ov::Map(m) => {
                    if m.iter().any(|(k, _)| k == field) {
                        // a field whose key is the enum's tag is absent by construction (C10: fields are
                        // read from the entries that remain after the tag is taken out)
                        let is_tag = matches!(
                            ty_at(&reg.defs, s.ty(), p, &r.loc).map(|t| through_conv(&reg.defs, &t)),
                            Some(Ty::Named(n)) if matches!(reg.defs.0.get(&n), Some(Def::Enum(e)) if e.tag == *field)
                        );
                        // ... which only happens when the tag could be taken out, i.e. some member under that key
                        // holds a string (round 9: a tag that is present but null / not a string is not "missing")
                        let tag_taken = m.iter().any(|(k, v)| k == field && matches!(v, Ov::Str(_)));
                        if !(is_tag && tag_taken) {
                            bad("missing-field-is-present", format!("r{}: field {:?} reported missing at {:?} but the object has it", r.id, field, render_path(&r.loc)));
                        }
                    }
                }
                _ => bad("missing-field-on-non-object", format!("r{}: location holds {}", r.id, node.show())),
            },
            RKind::UnknownKey { key, accepted } => match node {
                Ov::Map(m) => {
                    if !m.iter().any(|(k, _)| k == key) {
                        bad("unknown-key-not-in-object", format!("r{}: key {:?} is not a member of the object at {:?}", r.id, key, render_path(&r.loc)));
                    }
                    if accepted.contains(key) {
                        bad("unknown-key-is-accepted", format!("r{}: key {:?} is among the accepted keys", r.id, key));
                    }
                }
                _ => bad("unknown-key-on-non-object", format!("r{}: location holds {}", r.id, node.show())),
            },
            RKind::UnknownValue { value, accepted } => {
                if *node != Ov::Str(value.clone()) {
                    bad("unknown-value-is-not-the-string-at-location", format!("r{}: quotes {:?} but the payload holds {}", r.id, value, node.show()));
                }
                if accepted.contains(value) {
                    bad("unknown-value-is-accepted", format!("r{}: {:?} is among the accepted values", r.id, value));
                }
            }
            RKind::Unexpected { .. } | RKind::Foreign { .. } => {}
        }
    }
    out
}

/// The type whose body is read at a location: `Option` / `Box` and container-level `from` / `try_from` are
/// transparent (the intermediate type is deserialized at the same location).
pub fn through_conv(defs: &Defs, t: &Ty) -> Ty {
    let mut t = strip(t);
    for _ in 0..32 {
        match &t {
            Ty::Named(n) => match defs.0.get(n) {
                Some(Def::Conv(c)) => t = strip(&c.inter),
                _ => break,
            },
            _ => break,
        }
    }
    t
}

fn strip(t: &Ty) -> Ty {
    match t {
        Ty::Option(x) | Ty::Boxed(x) => strip(x),
        o => o.clone(),
    }
}

/// C04 oracle B(i): every hand-over location resolves and is an ancestor-or-self of every report handed over.
pub fn handover_prefix(p: &Ov, run: &Run) -> Vec<Untrue> {
    let by_id = reports_by_id(run);
    let mut out = vec![];
    for m in run.merges() {
        if resolve(p, &m.loc).is_none() {
            out.push(Untrue {
                rule: "handover-location-does-not-resolve",
                detail: format!("hand-over of t{} at {:?}: no such position in the payload", m.other_tok, render_path(&m.loc)),
                loc: m.loc.clone(),
            });
            continue;
        }
        for id in &m.other_holding {
            if let Some(r) = by_id.get(id) {
                if !is_prefix(&m.loc, &r.loc) {
                    out.push(Untrue {
                        rule: "handover-location-not-ancestor-of-report",
                        detail: format!("report r{} at {:?} was handed over at {:?}", id, render_path(&r.loc), render_path(&m.loc)),
                        loc: m.loc.clone(),
                    });
                }
            }
        }
    }
    out
}

// ------------------------------------------------------------------------------------------------
// model comparison (keep-going run)
// ------------------------------------------------------------------------------------------------
pub struct Diff {
    pub rule: &'static str,
    pub detail: String,
    pub loc: Path,
}

/// C02: the multiset of (digest, location) held by the returned error equals the model's.
pub fn compare_reports(pred: &Pred, run: &Run) -> Option<Diff> {
    let by_id = reports_by_id(run);
    let held: Vec<&Report> = match &run.outcome {
        Outcome::Err { holding, .. } => holding.iter().filter_map(|h| by_id.get(h).copied()).collect(),
        Outcome::Ok(_) => vec![],
        Outcome::Panic(_) => return None,
    };
    let mut want: BTreeMap<(String, Path), i32> = BTreeMap::new();
    for r in &pred.reports {
        *want.entry((r.kind.digest(), r.loc.clone())).or_insert(0) += 1;
    }
    let mut got: BTreeMap<(String, Path), i32> = BTreeMap::new();
    for r in &held {
        *got.entry((obs_digest(&r.kind), r.loc.clone())).or_insert(0) += 1;
    }
    for (k, n) in &want {
        let g = got.get(k).copied().unwrap_or(0);
        if g < *n {
            return Some(Diff {
                rule: "fault-not-reported",
                detail: format!("expected {n} report(s) `{}` at {:?}, the returned error holds {g}", k.0, render_path(&k.1)),
                loc: k.1.clone(),
            });
        }
    }
    for (k, g) in &got {
        let n = want.get(k).copied().unwrap_or(0);
        if *g > n {
            return Some(Diff {
                rule: if n == 0 { "report-without-fault" } else { "fault-reported-more-than-once" },
                detail: format!("the returned error holds {g} report(s) `{}` at {:?}, the payload has {n} such fault(s)", k.0, render_path(&k.1)),
                loc: k.1.clone(),
            });
        }
    }
    unexpected_facts(pred, &held)
}

/// The facts an `Unexpected` report has to state about the payload (the number and the violated bound, the
/// string and its number of characters, the unparsable key ...): a one-to-one assignment of the predicted
/// Unexpected reports to observed ones at the same location whose message contains the facts.
pub fn unexpected_facts(pred: &Pred, held: &[&Report]) -> Option<Diff> {
    let pool: Vec<&Report> = held.iter().copied().filter(|r| matches!(r.kind, RKind::Unexpected { .. })).collect();
    let preds: Vec<(&Path, &Vec<String>, &'static str)> = pred
        .reports
        .iter()
        .filter_map(|r| if let refmodel::interp::PKind::Unexpected { facts, class } = &r.kind { Some((&r.loc, facts, *class)) } else { None })
        .collect();
    fn assign(i: usize, preds: &[(&Path, &Vec<String>, &'static str)], pool: &[&Report], used: &mut Vec<bool>, budget: &mut u32) -> bool {
        if i == preds.len() {
            return true;
        }
        for (j, o) in pool.iter().enumerate() {
            if used[j] || o.loc != *preds[i].0 {
                continue;
            }
            let ok = matches!(&o.kind, RKind::Unexpected { msg } if preds[i].1.iter().all(|f| msg.contains(f.as_str())));
            if ok {
                if *budget == 0 {
                    return true; // give up searching: never turn a search limit into a violation
                }
                *budget -= 1;
                used[j] = true;
                if assign(i + 1, preds, pool, used, budget) {
                    return true;
                }
                used[j] = false;
            }
        }
        false
    }
    let mut used = vec![false; pool.len()];
    let mut budget = 20_000u32;
    if !assign(0, &preds, &pool, &mut used, &mut budget) {
        // name the first prediction no observed message satisfies on its own, if any
        for (loc, facts, class) in &preds {
            let any = pool.iter().any(|o| o.loc == **loc && matches!(&o.kind, RKind::Unexpected { msg } if facts.iter().all(|f| msg.contains(f.as_str()))));
            if !any {
                return Some(Diff {
                    rule: "unexpected-report-does-not-state-the-facts",
                    detail: format!("no `Unexpected` report at {:?} mentions {:?} (class {class})", render_path(loc), facts),
                    loc: (*loc).clone(),
                });
            }
        }
        return Some(Diff {
            rule: "unexpected-report-does-not-state-the-facts",
            detail: "the Unexpected reports cannot be matched one-to-one with the faults whose facts they have to state".into(),
            loc: preds.first().map(|p| p.0.clone()).unwrap_or_default(),
        });
    }
    None
}

/// C04 oracle B(ii): per report, the *set* of hand-over locations equals the model's.
pub fn compare_handovers(pred: &Pred, run: &Run) -> Option<Diff> {
    // group predictions and observations by (digest, loc); compare the multisets of handover sets
    let mut want: BTreeMap<(String, Path), Vec<BTreeSet<Path>>> = BTreeMap::new();
    for r in &pred.reports {
        want.entry((r.kind.digest(), r.loc.clone())).or_default().push(r.handovers.clone());
    }
    let mut got: BTreeMap<(String, Path), Vec<BTreeSet<Path>>> = BTreeMap::new();
    for r in run.reports() {
        let set: BTreeSet<Path> = run.merges().filter(|m| m.other_holding.contains(&r.id)).map(|m| m.loc.clone()).collect();
        got.entry((obs_digest(&r.kind), r.loc.clone())).or_default().push(set);
    }
    for (k, w) in want.iter_mut() {
        let Some(g) = got.get_mut(k) else { continue };
        if w.len() != g.len() {
            continue; // C02's business
        }
        w.sort();
        g.sort();
        if w != g {
            let show = |v: &Vec<BTreeSet<Path>>| v.iter().map(|s| s.iter().map(|p| render_path(p)).collect::<Vec<_>>()).collect::<Vec<_>>();
            return Some(Diff {
                rule: "handover-positions-differ",
                detail: format!(
                    "report `{}` at {:?}: handed over at {:?}, the types on its path require {:?}",
                    k.0,
                    render_path(&k.1),
                    show(g),
                    show(w)
                ),
                loc: k.1.clone(),
            });
        }
    }
    None
}

/// C11: which error type receives each report first (the field-level one under `error = X`, else the
/// container's): multisets of (digest, location, receiving error type) must agree.
pub fn compare_receiving_type(pred: &Pred, run: &Run) -> Option<Diff> {
    let mut want: BTreeMap<(String, Path, u8), i32> = BTreeMap::new();
    for r in &pred.reports {
        *want.entry((r.kind.digest(), r.loc.clone(), r.ety)).or_insert(0) += 1;
    }
    let mut got: BTreeMap<(String, Path, u8), i32> = BTreeMap::new();
    for r in run.reports() {
        *got.entry((obs_digest(&r.kind), r.loc.clone(), r.ety)).or_insert(0) += 1;
    }
    // only speak when the plain (digest, location) multisets agree: otherwise it is C02's business
    let strip = |m: &BTreeMap<(String, Path, u8), i32>| {
        let mut o: BTreeMap<(String, Path), i32> = BTreeMap::new();
        for ((d, l, _), n) in m {
            *o.entry((d.clone(), l.clone())).or_insert(0) += n;
        }
        o
    };
    if strip(&want) != strip(&got) {
        return None;
    }
    for (k, n) in &want {
        if got.get(k).copied().unwrap_or(0) != *n {
            return Some(Diff {
                rule: "report-received-by-the-wrong-error-type",
                detail: format!(
                    "report `{}` at {:?} must be received by {} first (field-level `error =` in scope: {}), observed otherwise",
                    k.0,
                    render_path(&k.1),
                    if k.2 == 1 { "the field-level error type" } else { "the container's error type" },
                    k.2 == 1
                ),
                loc: k.1.clone(),
            });
        }
    }
    None
}

/// C04 oracle B(iii), any answer script: every hand-over of a report happens at one of the positions the
/// types on its path require, and the FIRST one at the deepest of them (the child's own position) —
/// whatever was answered before. `pred` is the keep-going prediction for the same payload.
pub fn handover_chain(pred: &Pred, run: &Run) -> Option<Diff> {
    for r in run.reports() {
        let cands: Vec<&refmodel::PRep> = pred.reports.iter().filter(|p| p.loc == r.loc && p.kind.digest() == obs_digest(&r.kind)).collect();
        let Some(first) = cands.first() else { continue };
        if cands.iter().any(|c| c.handovers != first.handovers) {
            continue;
        }
        let locs: Vec<&Path> = run.merges().filter(|m| m.other_holding.contains(&r.id)).map(|m| &m.loc).collect();
        for l in &locs {
            if !first.handovers.contains(*l) {
                return Some(Diff {
                    rule: "handover-at-a-position-the-types-do-not-have",
                    detail: format!(
                        "report `{}` at {:?} was handed over at {:?}; the element positions on its path are {:?}",
                        obs_digest(&r.kind),
                        render_path(&r.loc),
                        render_path(l),
                        first.handovers.iter().map(|p| render_path(p)).collect::<Vec<_>>()
                    ),
                    loc: (*l).clone(),
                });
            }
        }
        if let Some(l0) = locs.first() {
            let deepest = first.handovers.iter().map(|p| p.len()).max().unwrap_or(0);
            if l0.len() != deepest {
                return Some(Diff {
                    rule: "first-handover-not-at-the-childs-own-position",
                    detail: format!(
                        "report `{}` at {:?} was first handed over at {:?} instead of its own element position (one of {:?})",
                        obs_digest(&r.kind),
                        render_path(&r.loc),
                        render_path(l0),
                        first.handovers.iter().filter(|p| p.len() == deepest).map(|p| render_path(p)).collect::<Vec<_>>()
                    ),
                    loc: (*l0).clone(),
                });
            }
        }
    }
    None
}

pub fn unique_keys(p: &Ov) -> bool {
    match p {
        Ov::Seq(v) => v.iter().all(unique_keys),
        Ov::Map(m) => m.iter().enumerate().all(|(i, (k, v))| !m[..i].iter().any(|(kk, _)| kk == k) && unique_keys(v)),
        _ => true,
    }
}

pub fn compare_value(pred: &Pred, run: &Run) -> Option<Diff> {
    match (&pred.value, &run.outcome) {
        // the statement names an outcome (a value or reports); a panic is neither (C12 reports it as well)
        (_, Outcome::Panic(m)) => Some(Diff { rule: "panicked-where-an-outcome-is-specified", detail: format!("the call panicked: {m}"), loc: vec![] }),
        (Some(v), Outcome::Ok(o)) => {
            if v != o {
                Some(Diff { rule: "value-differs", detail: format!("got {} expected {}", o.show(), v.show()), loc: vec![] })
            } else {
                None
            }
        }
        (Some(v), Outcome::Err { .. }) => {
            Some(Diff { rule: "err-where-ok-expected", detail: format!("the call failed, expected Ok({})", v.show()), loc: vec![] })
        }
        (None, Outcome::Ok(o)) => Some(Diff {
            rule: "ok-where-err-expected",
            detail: format!("the call returned Ok({}) but the payload has faults: {:?}", o.show(), pred.reports.iter().map(|r| format!("{} @{}", r.kind.digest(), render_path(&r.loc))).collect::<Vec<_>>()),
            loc: pred.reports.first().map(|r| r.loc.clone()).unwrap_or_default(),
        }),
        (None, Outcome::Err { .. }) => None,
    }
}

/// Every node the model deserializes was examined; entries named like skipped fields never were.
pub fn compare_examined(pred: &Pred, run: &Run) -> Option<Diff> {
    if run.nodes.is_empty() {
        return None;
    }
    let examined: BTreeSet<&Path> = run
        .events
        .iter()
        .filter_map(|e| if let Event::Examine { node } = e { run.nodes.get(*node as usize).map(|n| &n.path) } else { None })
        .collect();
    for v in &pred.visited {
        if !examined.contains(v) {
            return Some(Diff { rule: "node-never-examined", detail: format!("the payload node at {:?} was never examined", render_path(v)), loc: v.clone() });
        }
    }
    for v in &pred.skipped_entries {
        // a repeated member name gives two nodes one path (e.g. the tag entry and a second
        // entry named like a skipped field `type`): the path no longer says which was examined
        if run.nodes.iter().filter(|n| &n.path == v).count() > 1 {
            continue;
        }
        if examined.contains(v) {
            return Some(Diff { rule: "skipped-field-read-the-payload", detail: format!("the entry at {:?} carries the name of a skipped field and was examined", render_path(v)), loc: v.clone() });
        }
    }
    None
}

pub fn observed_calls(run: &Run) -> Vec<refmodel::PCall> {
    run.events
        .iter()
        .filter_map(|e| if let Event::Call { name, arg, loc } = e { Some(refmodel::PCall { name: name.clone(), arg: arg.clone(), loc: loc.clone() }) } else { None })
        .collect()
}

pub fn compare_calls(pred: &Pred, run: &Run) -> Option<Diff> {
    if matches!(run.outcome, Outcome::Panic(_)) {
        return None;
    }
    let mut want = pred.calls.clone();
    let mut got = observed_calls(run);
    want.sort();
    got.sort();
    if want != got {
        let w: BTreeSet<_> = want.iter().collect();
        let g: BTreeSet<_> = got.iter().collect();
        let missing: Vec<_> = want.iter().filter(|c| count(&want, c) > count(&got, c)).take(3).collect();
        let extra: Vec<_> = got.iter().filter(|c| count(&got, c) > count(&want, c)).take(3).collect();
        let _ = (w, g);
        return Some(Diff {
            rule: if !extra.is_empty() { "user-function-called-when-it-must-not-or-twice" } else { "user-function-not-called" },
            detail: format!("calls that should have happened but did not: {missing:?}; calls that happened but should not: {extra:?}"),
            loc: extra.first().or(missing.first()).and_then(|c| c.loc.clone()).unwrap_or_default(),
        });
    }
    None
}

fn count(v: &[refmodel::PCall], c: &refmodel::PCall) -> usize {
    v.iter().filter(|x| *x == c).count()
}

// ------------------------------------------------------------------------------------------------
// workloads
// ------------------------------------------------------------------------------------------------
pub struct Case {
    pub payload: Ov,
    pub faults: Vec<&'static str>,
}

/// Which liberties of the second value source a workload may use.
#[derive(Clone, Copy)]
pub struct Host {
    pub dup: bool,
    pub nonfinite: bool,
    pub noncanon: bool,
    pub alias: bool,
}

/// The i-th generated payload for a subject (deterministic in (seed, subject name, i)).
pub fn gen_case(reg: &Registry, s: &dyn Subject, seed: u64, i: u64, hostile: bool) -> Case {
    gen_case_h(reg, s, seed, i, Host { dup: hostile, nonfinite: hostile, noncanon: hostile, alias: hostile })
}

pub fn gen_case_h(reg: &Registry, s: &dyn Subject, seed: u64, i: u64, h: Host) -> Case {
    let hostile = true;
    let hh = vcore::evidence::hash64(s.name());
    let mut rng = Rng::derive(seed, hh, i);
    let fault_pm = *rng.pick(&[0u32, 40, 100, 200, 350]);
    // one payload in forty is BULKY: sequences and maps of 130..280 entries (limits, counters and caches that only
    // show after a hundred-odd elements / failures inside one document), kept shallow to bound the size
    let bulky = i % 40 == 7;
    let opts = GenOpts {
        fault_pm,
        max_depth: if bulky { 2 } else { 5 },
        max_len: if bulky { 130 + rng.below(150) } else { 1 + rng.below(4) },
        allow_dup: hostile && h.dup && (rng.chance(1, 3) || (!h.nonfinite && !h.noncanon)),
        allow_key_alias: h.alias,
        allow_nonfinite: hostile && h.nonfinite && (rng.chance(1, 3) || (!h.dup && !h.noncanon)),
        allow_noncanonical: hostile && h.noncanon && rng.chance(1, 3),
        extra_key_pm: *rng.pick(&[0u32, 100, 300]),
    };
    let mut g = Gen::new(&reg.defs, rng, opts);
    let payload = g.payload(s.ty(), 0);
    Case { payload, faults: g.faults }
}

pub fn fault_signature(faults: &[&'static str]) -> String {
    let mut f: Vec<&str> = faults.to_vec();
    f.sort();
    f.dedup();
    f.join("+")
}

/// Shape of a trace: event kinds and answers, without ids and values (for distinct-case counting).
pub fn trace_shape(run: &Run) -> u64 {
    let mut s = String::new();
    for e in &run.events {
        match e {
            Event::Report(r) => {
                s.push_str(r.kind.tag());
                s.push(if r.cont { '+' } else { '!' });
                s.push_str(&r.loc.len().to_string());
            }
            Event::Merge(m) => {
                s.push('m');
                s.push(if m.cont { '+' } else { '!' });
                s.push_str(&m.loc.len().to_string());
            }
            Event::Call { name, .. } => {
                s.push('c');
                s.push_str(name);
            }
            Event::Drop { .. } => s.push('d'),
            _ => {}
        }
        s.push(';');
    }
    s.push_str(run.outcome.tag());
    vcore::evidence::hash64(&s)
}

pub fn account(acc: &mut Acc, s: &dyn Subject, case: &Case, run: &Run) {
    acc.eval();
    for e in &run.events {
        match e {
            Event::Report(r) => {
                acc.count(&format!("reports.{}", r.kind.tag()));
                if !r.cont {
                    acc.count("answers.break");
                }
            }
            Event::Merge(m) => {
                acc.count("handovers");
                if !m.cont {
                    acc.count("answers.break");
                }
            }
            Event::Examine { .. } => acc.count("examines"),
            Event::Call { .. } => acc.count("user_function_calls"),
            _ => {}
        }
    }
    acc.count(&format!("outcome.{}", run.outcome.tag()));
    if run.reports().next().is_some() {
        acc.nontrivial(&(s.name(), fault_signature(&case.faults), trace_shape(run)));
    }
}

pub fn note_case(acc: &mut Acc, s: &dyn Subject, case: &Case) {
    monitor::watch::set_context(|| format!("subject {} payload {}", s.name(), case.payload.show().chars().take(3000).collect::<String>()));
    acc.note("subjects", s.name());
    for f in &case.faults {
        acc.count(&format!("faults.{f}"));
    }
}

/// Replay of one recorded witness: re-runs the case through the subject and prints what happens.
pub fn replay(ctx: &Ctx, reg: &Registry, path: &str) -> i32 {
    let Ok(txt) = std::fs::read_to_string(path) else {
        println!("INCONCLUSIVE property={} reason=cannot read replay file {path}", ctx.property);
        return 2;
    };
    let Ok(v) = serde_json::from_str::<Value>(&txt) else {
        println!("INCONCLUSIVE property={} reason=replay file is not JSON", ctx.property);
        return 2;
    };
    let w = &v["witness"];
    let name = w["subject"].as_str().unwrap_or("");
    let Some(s) = reg.get(name) else {
        println!("INCONCLUSIVE property={} reason=subject {name} is not in this binary's registry (generated subjects need the same VERIF_SEED/tier)", ctx.property);
        return 2;
    };
    let Ok(p) = serde_json::from_value::<Ov>(w["payload"].clone()) else {
        println!("INCONCLUSIVE property={} reason=replay file has no payload", ctx.property);
        return 2;
    };
    let script: Script = serde_json::from_value(w["script"].clone()).unwrap_or(Script::Continue);
    let src = if w["source"].as_str() == Some("serde_json") { Source::Json } else { Source::Ov };
    let run = run_case(s, &p, src, script.clone());
    println!("replay of {} [{}]", v["signature"].as_str().unwrap_or("?"), v["rule"].as_str().unwrap_or("?"));
    println!("subject {name} source {} script {script:?}", src.name());
    println!("payload {}", p.show());
    for l in run.trace_lines(200) {
        println!("  {l}");
    }
    println!("outcome {}", run.outcome.show());
    let mut failed = false;
    if let Some(l) = conservation(&run) {
        println!("conservation: {} — {}", l.rule, l.detail);
        failed = true;
    }
    for u in truth(reg, s, &p, &run).into_iter().chain(handover_prefix(&p, &run)) {
        println!("truth: {} — {}", u.rule, u.detail);
        failed = true;
    }
    if script == Script::Continue && p.json_representable() {
        let pred = refmodel::interp(&reg.defs, s.ty(), &p);
        for d in [compare_value(&pred, &run), compare_reports(&pred, &run), compare_handovers(&pred, &run), compare_calls(&pred, &run)].into_iter().flatten() {
            println!("model: {} — {}", d.rule, d.detail);
            failed = true;
        }
    }
    if matches!(run.outcome, Outcome::Panic(_)) {
        failed = true;
    }
    if failed {
        println!("VIOLATION property={} replay={path}", ctx.property);
        1
    } else {
        println!("the recorded case no longer violates the generic oracles");
        0
    }
}

pub fn shard_of(i: u64, shard: usize, n: usize) -> bool {
    (i % n as u64) as usize == shard
}

// ------------------------------------------------------------------------------------------------
// systematic structural mutations of a payload (faults at EVERY position, one at a time)
// ------------------------------------------------------------------------------------------------
pub fn all_paths(p: &Ov) -> Vec<Path> {
    fn rec(p: &Ov, cur: &mut Path, out: &mut Vec<Path>) {
        out.push(cur.clone());
        match p {
            Ov::Seq(v) => {
                for (i, x) in v.iter().enumerate() {
                    cur.push(Step::Index(i));
                    rec(x, cur, out);
                    cur.pop();
                }
            }
            Ov::Map(m) => {
                for (k, x) in m {
                    cur.push(Step::Key(k.clone()));
                    rec(x, cur, out);
                    cur.pop();
                }
            }
            _ => {}
        }
    }
    let mut out = vec![];
    rec(p, &mut vec![], &mut out);
    out
}

pub fn replace_at(p: &Ov, path: &[Step], new: &Ov) -> Ov {
    edit_at(p, path, &|_| new.clone())
}

pub fn edit_at(p: &Ov, path: &[Step], f: &dyn Fn(&Ov) -> Ov) -> Ov {
    if path.is_empty() {
        return f(p);
    }
    match (p, &path[0]) {
        (Ov::Seq(v), Step::Index(i)) => Ov::Seq(v.iter().enumerate().map(|(j, x)| if j == *i { edit_at(x, &path[1..], f) } else { x.clone() }).collect()),
        (Ov::Map(m), Step::Key(k)) => {
            let mut done = false;
            Ov::Map(
                m.iter()
                    .map(|(kk, x)| {
                        if kk == k && !done {
                            done = true;
                            (kk.clone(), edit_at(x, &path[1..], f))
                        } else {
                            (kk.clone(), x.clone())
                        }
                    })
                    .collect(),
            )
        }
        _ => p.clone(),
    }
}

pub fn intruders() -> Vec<Ov> {
    vec![
        Ov::Null,
        Ov::Bool(true),
        Ov::Int(70000),
        Ov::Neg(-70000),
        Ov::float(1.5),
        Ov::str("zz"),
        Ov::Seq(vec![Ov::Int(1)]),
        Ov::Map(vec![("q".into(), Ov::Int(1))]),
    ]
}

/// Every single structural mutation of `base`: an intruder of each kind at every position; for every
/// sequence: element removed / duplicated at every index, adjacent elements swapped, one appended;
/// for every object: each member removed, members rotated, a member with an odd key added.
pub fn mutations(base: &Ov) -> Vec<(&'static str, Ov)> {
    let mut out = vec![];
    for path in all_paths(base) {
        for intr in intruders() {
            out.push(("intruder", replace_at(base, &path, &intr)));
        }
        let node = resolve(base, &path).unwrap();
        match node {
            Ov::Seq(v) => {
                for i in 0..v.len() {
                    out.push(("seq-remove", edit_at(base, &path, &|n| if let Ov::Seq(v) = n { let mut v = v.clone(); v.remove(i); Ov::Seq(v) } else { n.clone() })));
                    out.push(("seq-duplicate", edit_at(base, &path, &|n| if let Ov::Seq(v) = n { let mut v = v.clone(); let e = v[i].clone(); v.insert(i, e); Ov::Seq(v) } else { n.clone() })));
                    if i + 1 < v.len() {
                        out.push(("seq-swap", edit_at(base, &path, &|n| if let Ov::Seq(v) = n { let mut v = v.clone(); v.swap(i, i + 1); Ov::Seq(v) } else { n.clone() })));
                    }
                }
                out.push(("seq-append", edit_at(base, &path, &|n| if let Ov::Seq(v) = n { let mut v = v.clone(); v.push(Ov::Int(3)); Ov::Seq(v) } else { n.clone() })));
                out.push(("seq-empty", replace_at(base, &path, &Ov::Seq(vec![]))));
            }
            Ov::Map(m) => {
                for i in 0..m.len() {
                    out.push(("map-remove", edit_at(base, &path, &|n| if let Ov::Map(m) = n { let mut m = m.clone(); m.remove(i); Ov::Map(m) } else { n.clone() })));
                }
                if m.len() > 1 {
                    out.push(("map-rotate", edit_at(base, &path, &|n| if let Ov::Map(m) = n { let mut m = m.clone(); m.rotate_left(1); Ov::Map(m) } else { n.clone() })));
                }
                for (tag, k) in [("map-add-odd-key", "not a key"), ("map-add-numeric-key", "999999"), ("map-add-empty-key", "")] {
                    if !m.iter().any(|(kk, _)| kk == k) {
                        out.push((tag, edit_at(base, &path, &|n| if let Ov::Map(m) = n { let mut m = m.clone(); m.push((k.to_string(), Ov::Int(1))); Ov::Map(m) } else { n.clone() })));
                    }
                }
                out.push(("map-empty", replace_at(base, &path, &Ov::Map(vec![]))));
            }
            _ => {}
        }
    }
    out
}

/// A fault-free payload for the subject (structurally valid; user conversions may still fail).
pub fn valid_case(reg: &Registry, s: &dyn Subject, seed: u64, i: u64, max_len: usize) -> Ov {
    let rng = Rng::derive(seed, vcore::evidence::hash64(s.name()), 7_000_000 + i);
    let opts = GenOpts { fault_pm: 0, max_len, extra_key_pm: 0, ..Default::default() };
    let mut g = Gen::new(&reg.defs, rng, opts);
    g.payload(s.ty(), 0)
}

/// Full model comparison of one keep-going run; returns the first disagreement of the selected aspects.
pub struct Aspects {
    pub value: bool,
    pub reports: bool,
    pub handovers: bool,
    pub examined: bool,
    pub calls: bool,
}

pub fn model_check(reg: &Registry, s: &dyn Subject, p: &Ov, src: Source, run: &Run, a: &Aspects) -> Option<Diff> {
    // the serde_json source enumerates members sorted by key; the model follows the source's order
    let seen = if src == Source::Json { Ov::from_json(&p.to_json()) } else { p.clone() };
    let pred = refmodel::interp(&reg.defs, s.ty(), &seen);
    if a.value {
        if let Some(d) = compare_value(&pred, run) {
            return Some(d);
        }
    }
    if a.reports {
        if let Some(d) = compare_reports(&pred, run) {
            return Some(d);
        }
    }
    if a.handovers {
        if let Some(d) = compare_handovers(&pred, run) {
            return Some(d);
        }
    }
    if a.examined {
        if let Some(d) = compare_examined(&pred, run) {
            return Some(d);
        }
    }
    if a.calls {
        if let Some(d) = compare_calls(&pred, run) {
            return Some(d);
        }
    }
    None
}

/// Run one keep-going case through a source, account for it, compare with the model, record a violation.
#[allow(clippy::too_many_arguments)]
pub fn model_case(acc: &mut Acc, reg: &Registry, prop: &str, s: &dyn Subject, case: &Case, src: Source, a: &Aspects) -> Run {
    let run = run_case(s, &case.payload, src, Script::Continue);
    account(acc, s, case, &run);
    if matches!(run.outcome, Outcome::Panic(_)) {
        acc.count("panics_seen_(reported_by_C12_too)");
        if !a.value {
            return run;
        }
    }
    if let Some(d) = model_check(reg, s, &case.payload, src, &run, a) {
        let at = ctor_at(reg, s, &case.payload, &d.loc);
        let pred = refmodel::interp(&reg.defs, s.ty(), &case.payload);
        acc.violation(
            format!("{prop}/{}/{}", d.rule, at),
            d.rule,
            witness(
                s,
                &case.payload,
                src,
                &Script::Continue,
                &run,
                json!({"what": d.detail, "type_at_location": at, "model_value": pred.value.as_ref().map(|v| v.show()), "model_reports": pred.reports.iter().map(|r| format!("{} @{:?}", r.kind.digest(), render_path(&r.loc))).collect::<Vec<_>>()}),
            ),
        );
    }
    run
}


/// Answer policies by kind of decision (they reach answer combinations that index-based random scripts
/// only hit by luck: "Continue to ordinary reports but Break to conversion errors", "only hand-overs
/// stop", "only the field-level error type stops", ...).
pub fn policies() -> Vec<Script> {
    let p = |r: &[&str], m: bool, e: Option<u8>| Script::Policy { reports: r.iter().map(|s| s.to_string()).collect(), merges: m, ety: e };
    vec![
        p(&["foreign"], false, None),
        p(&[], true, None),
        p(&["kind", "missing", "unknown_key", "unknown_value", "bad_len", "unexpected"], false, None),
        p(&["missing"], false, None),
        p(&["unknown_key", "unexpected"], false, None),
        p(&["kind", "bad_len"], false, None),
        p(&["kind", "missing", "unknown_key", "unknown_value", "bad_len", "unexpected", "foreign"], false, Some(1)),
        p(&[], true, Some(1)),
        p(&["foreign"], true, Some(0)),
    ]
}


/// Long sequences and maps for the standard containers: n entries, faulty ones at and around the
/// indices where an implementation that reads in chunks (256, 1024, 2048) has its seams, and at the end.
pub fn long_cases(reg: &Registry) -> Vec<(&dyn Subject, Case)> {
    let mut out = vec![];
    let plain = |a: Ov| Ov::Map(vec![("a".into(), a), ("b".into(), Ov::str("s")), ("c".into(), Ov::Bool(true))]);
    // (subject, good element, faulty element)
    let seqs: Vec<(&str, Box<dyn Fn(usize) -> Ov>, Ov)> = vec![
        ("Vec<u8>", Box::new(|i| Ov::Int((i % 200) as u64)), Ov::str("x")),
        ("Vec<Option<i16>>", Box::new(|i| if i % 3 == 0 { Ov::Null } else { Ov::Int(7) }), Ov::Bool(true)),
        ("Vec<Vec<bool>>", Box::new(|_| Ov::Seq(vec![Ov::Bool(true)])), Ov::Seq(vec![Ov::Int(1)])),
        ("Vec<Plain>", Box::new(move |i| plain(Ov::Int((i % 200) as u64))), Ov::Map(vec![("a".into(), Ov::str("x")), ("b".into(), Ov::str("s")), ("c".into(), Ov::Bool(true))])),
        ("Option<Vec<u8>>", Box::new(|_| Ov::Int(1)), Ov::Int(256)),
        ("Box<Vec<Box<i8>>>", Box::new(|_| Ov::Neg(-1)), Ov::Neg(-129)),
        ("BTreeSet<String>", Box::new(|i| Ov::str(&format!("s{i}"))), Ov::Int(1)),
        ("HashSet<u8>", Box::new(|i| Ov::Int((i % 256) as u64)), Ov::Int(256)),
        ("Vec<serde_json::Value>", Box::new(|i| Ov::Int(i as u64)), Ov::Float(vcore::ov::FBits(f64::NAN.to_bits()))),
    ];
    for (name, good, bad) in &seqs {
        let Some(s) = reg.get(name) else { continue };
        for n in [1024usize, 1025, 2049, 3000] {
            for faults in [vec![1023], vec![0, 1023, 1024], vec![255, 256, 1022, 1023, 1024, 1025, 2047, 2048, n - 1], vec![1024, n - 1], vec![2047, 2048]] {
                let fs: Vec<usize> = faults.into_iter().filter(|f| *f < n).collect();
                if fs.is_empty() {
                    continue;
                }
                let elems: Vec<Ov> = (0..n).map(|i| if fs.contains(&i) { bad.clone() } else { good(i) }).collect();
                out.push((s, Case { payload: Ov::Seq(elems), faults: vec!["long-sequence"] }));
            }
        }
    }
    let maps: Vec<(&str, Box<dyn Fn(usize) -> String>, Ov, Ov)> = vec![
        ("HashMap<String,u8>", Box::new(|i| format!("k{i:05}")), Ov::Int(1), Ov::Int(256)),
        ("BTreeMap<String,Vec<u8>>", Box::new(|i| format!("k{i:05}")), Ov::Seq(vec![Ov::Int(1)]), Ov::str("x")),
        ("BTreeMap<u8,bool>", Box::new(|i| format!("{}", i % 256)), Ov::Bool(true), Ov::Int(0)),
    ];
    for (name, key, good, bad) in &maps {
        let Some(s) = reg.get(name) else { continue };
        for n in [1025usize, 2049] {
            for faults in [vec![1023], vec![0, 255, 256, 1023, 1024, n - 1], vec![2047, 2048]] {
                let fs: Vec<usize> = faults.into_iter().filter(|f| *f < n).collect();
                if fs.is_empty() {
                    continue;
                }
                let entries: Vec<(String, Ov)> = (0..n).map(|i| (key(i), if fs.contains(&i) { bad.clone() } else { good.clone() })).collect();
                out.push((s, Case { payload: Ov::Map(entries), faults: vec!["long-map"] }));
            }
        }
    }
    out
}
