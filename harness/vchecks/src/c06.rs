//! C06 — containers keep structure: order, arity, None-iff-null, set and map semantics.
use crate::common::*;
use serde_json::json;
use subjects::Registry;
use vcore::evidence::{Acc, Finish};
use vcore::Ctx;

const A: Aspects = Aspects { value: true, reports: true, handovers: false, examined: false, calls: false };

pub fn run(ctx: &Ctx, reg: &Registry) -> i32 {
    let n_cases: u64 = ctx.tier.pick(800, 12000);
    let n_base: u64 = ctx.tier.pick(8, 60);
    let acc = ctx.par(|shard, n| {
        let mut acc = Acc::new();
        let mut unit = 0u64;
        for s in reg.subjects.iter().filter(|s| s.has("container") || s.has("nested") || s.has("generated")) {
            let s = s.as_ref();
            for i in 0..n_cases {
                unit += 1;
                if !shard_of(unit, shard, n) {
                    continue;
                }
                let case = gen_case(reg, s, ctx.seed.wrapping_add(606), i, false);
                note_case(&mut acc, s, &case);
                let r = model_case(&mut acc, reg, "C06", s, &case, Source::Ov, &A);
                if let monitor::Outcome::Ok(p) = &r.outcome {
                    if p.leaves() > 0 {
                        acc.nontrivial(&(s.name(), p.show()));
                        acc.count("ok_values_with_content_compared");
                    }
                }
                if case.payload.json_representable() {
                    model_case(&mut acc, reg, "C06", s, &case, Source::Json, &A);
                }
                acc.sample(|| json!({"subject": s.name(), "payload": case.payload.show(), "outcome": r.outcome.show()}));
                // repeated members, aliased map keys ("1" / "01": the later entry wins, like a plain insert) and
                // non-finite floats, through the second value source; the model reads members in enumeration order
                if i % 3 == 0 {
                    let hcase = gen_case_h(reg, s, ctx.seed.wrapping_add(6060), i, Host { dup: true, nonfinite: true, noncanon: false, alias: true });
                    if !hcase.payload.json_representable() || hcase.faults.contains(&"aliased-map-key") {
                        note_case(&mut acc, s, &hcase);
                        let r = model_case(&mut acc, reg, "C06", s, &hcase, Source::Ov, &A);
                        acc.count("payloads_with_repeated_aliased_or_non_finite_content");
                        if let monitor::Outcome::Ok(p) = &r.outcome {
                            if p.leaves() > 0 {
                                acc.nontrivial(&(s.name(), p.show()));
                            }
                        }
                    }
                }
            }
            for b in 0..n_base {
                unit += 1;
                if !shard_of(unit, shard, n) {
                    continue;
                }
                // lengths 0..6
                let base = valid_case(reg, s, ctx.seed.wrapping_add(66), b, (b % 7) as usize);
                if base.size() > 120 {
                    continue;
                }
                let c0 = Case { payload: base.clone(), faults: vec![] };
                let r = model_case(&mut acc, reg, "C06", s, &c0, Source::Ov, &A);
                if let monitor::Outcome::Ok(p) = &r.outcome {
                    acc.nontrivial(&(s.name(), p.show()));
                    acc.count("ok_values_with_content_compared");
                }
                for (tag, m) in mutations(&base) {
                    let c = Case { payload: m, faults: vec![tag] };
                    let r = model_case(&mut acc, reg, "C06", s, &c, Source::Ov, &A);
                    if let monitor::Outcome::Ok(p) = &r.outcome {
                        acc.nontrivial(&(s.name(), p.show()));
                        acc.count("ok_values_with_content_compared");
                    }
                    acc.count(&format!("mutation.{tag}"));
                    if c.payload.json_representable() {
                        model_case(&mut acc, reg, "C06", s, &c, Source::Json, &A);
                    }
                }
            }
        }
        acc
    });
    ctx.finish(
        acc,
        Finish {
            level: "exploration",
            rule: "every container subject (Vec, [T;N] for N=0..4, tuples, Hash/BTree sets and maps with String/u8/i16/char/bool keys, Option, Box, CS, nested and over derived elements): the Ok value's projection (by Rust structure: sequences in order, sets as sets, maps keyed by the parsed key, None/Some) must equal the model's, and the report multiset must equal the model's (arity mismatch = exactly one BadSequenceLen quoting the whole sequence and N; unparsable key = a report naming the key, call fails). Workloads: random payloads; valid payloads of lengths 0..6 and EVERY single structural mutation of them (element removed / duplicated / swapped / appended at every index = arity +-1 and order checks, member removed / rotated / odd key added, intruder of each kind at every position). Non-trivial = Ok value with content or a run with a report; distinct = (subject, value) resp. (subject, fault signature, trace shape).".into(),
            exhaustive: false,
            assumptions: vec!["map keys in generated payloads parse to distinct values (so last-insert-wins cannot make a correct implementation look wrong)".into()],
        },
    )
}
