//! C14 — built-in error messages name the right place, value and alternatives.
use crate::common::*;
use monitor::{Outcome, RKind, Report, Script};
use refmodel::specs::suggestion;
use serde_json::json;
use subjects::{Registry, Subject};
use vcore::evidence::{Acc, Finish};
use vcore::{render_path, resolve, Ctx, Ov, Path, Step};

fn json_text(v: &Ov) -> String {
    serde_json::to_string(&v.to_json()).unwrap()
}

fn plain_keys(p: &Path) -> bool {
    p.iter().all(|s| match s {
        Step::Key(k) => !k.is_empty() && k.chars().all(|c| c.is_ascii_alphanumeric() || c == '_'),
        Step::Index(_) => true,
    })
}

fn qp_path(p: &Path) -> String {
    let r = render_path(p);
    r.strip_prefix('.').map(|s| s.to_string()).unwrap_or(r)
}

/// Parse `.a[1].b` back into steps (keys over [A-Za-z0-9_]).
fn parse_path(s: &str) -> Option<Path> {
    let cs: Vec<char> = s.chars().collect();
    let mut i = 0;
    let mut out = vec![];
    while i < cs.len() {
        match cs[i] {
            '.' => {
                i += 1;
                let st = i;
                while i < cs.len() && (cs[i].is_ascii_alphanumeric() || cs[i] == '_') {
                    i += 1;
                }
                if st == i {
                    return None;
                }
                out.push(Step::Key(cs[st..i].iter().collect()));
            }
            '[' => {
                i += 1;
                let st = i;
                while i < cs.len() && cs[i].is_ascii_digit() {
                    i += 1;
                }
                if st == i || i >= cs.len() || cs[i] != ']' {
                    return None;
                }
                out.push(Step::Index(cs[st..i].iter().collect::<String>().parse().ok()?));
                i += 1;
            }
            _ => return None,
        }
    }
    Some(out)
}

/// The back-ticked path the message gives after " at " / " inside ".
fn path_in_message(msg: &str) -> Option<String> {
    for intro in [" at `", " inside `"] {
        if let Some(pos) = msg.find(intro) {
            let rest = &msg[pos + intro.len()..];
            if rest.starts_with('.') || rest.starts_with('[') {
                let end = rest.find('`')?;
                return Some(rest[..end].to_string());
            }
        }
    }
    None
}

/// every back-ticked name in the message is accounted for: the path, the received name, the accepted
/// alternatives, the suggestion — nothing else (e.g. alternatives of another type)
fn no_foreign_names(msg: &str, received: &str, accepted: &[String], paths: &[String], out: &mut Vec<(&'static str, String)>) {
    if received.contains('`') || accepted.iter().any(|a| a.contains('`')) || paths.iter().any(|p| p.contains('`')) {
        return;
    }
    let parts: Vec<&str> = msg.split('`').collect();
    if parts.len() % 2 == 0 {
        return; // unbalanced back-ticks: a quoted value contains one
    }
    for tok in parts.iter().skip(1).step_by(2) {
        let known = *tok == received || accepted.iter().any(|a| a == tok) || paths.iter().any(|p| p == tok);
        if !known {
            out.push(("message-lists-a-name-that-is-not-an-alternative", format!("`{tok}` is neither the received name, nor an accepted alternative, nor the path")));
            return;
        }
    }
}

fn alternatives(msg: &str, received: &str, accepted: &[String], out: &mut Vec<(&'static str, String)>) {
    if !msg.contains(&format!("`{received}`")) {
        out.push(("message-does-not-quote-the-unknown-name", format!("`{received}` not in message")));
    }
    for a in accepted {
        if !msg.contains(&format!("`{a}`")) {
            out.push(("message-omits-an-accepted-alternative", format!("alternative `{a}` not in message")));
        }
    }
    let acc: Vec<&str> = accepted.iter().map(|s| s.as_str()).collect();
    let spec = suggestion(received, &acc);
    let has = msg.contains("did you mean");
    match spec {
        Some(x) => {
            if !msg.contains(&format!("did you mean `{x}`")) {
                out.push(("suggestion-missing-or-wrong", format!("a closest accepted name `{x}` is within the typo budget of `{received}` but the message does not suggest it")));
            }
        }
        None => {
            if has {
                out.push(("suggestion-without-close-name", format!("the message makes a suggestion although no accepted name is within the typo budget of `{received}`")));
            }
        }
    }
}

pub(crate) fn check_json(msg: &str, r0: &Report, p: &Ov) -> Vec<(&'static str, String)> {
    let mut out = vec![];
    let path = render_path(&r0.loc);
    if r0.loc.is_empty() {
        for bad in [" at `.", " inside `.", " at `[", " inside `["] {
            if msg.contains(bad) {
                out.push(("path-printed-for-the-root", format!("message mentions a path although the report is at the root: {bad}")));
            }
        }
    } else if !msg.contains(&format!("`{path}`")) {
        out.push(("path-of-first-report-not-in-message", format!("the first keep-going report is at `{path}`")));
    }
    let mut quoted: Option<String> = None;
    match &r0.kind {
        RKind::Kind { actual, .. } => {
            let t = json_text(actual);
            if !msg.contains(&t) {
                out.push(("offending-value-not-quoted", format!("expected the JSON text {t}")));
            }
            quoted = Some(t);
        }
        RKind::Missing { field } => {
            if !msg.contains(&format!("`{field}`")) {
                out.push(("missing-field-not-named", format!("field `{field}`")));
            }
        }
        RKind::UnknownKey { key, accepted } => {
            alternatives(msg, key, accepted, &mut out);
            no_foreign_names(msg, key, accepted, &[path.clone()], &mut out);
        }
        RKind::UnknownValue { value, accepted } => {
            alternatives(msg, value, accepted, &mut out);
            no_foreign_names(msg, value, accepted, &[path.clone()], &mut out);
        }
        RKind::BadLen { actual, expected, .. } => {
            let len = if let Ov::Seq(v) = actual { v.len() } else { 0 };
            if !msg.contains(&len.to_string()) || !msg.contains(&expected.to_string()) {
                out.push(("lengths-not-stated", format!("received {len}, expected {expected}")));
            }
            let t = json_text(actual);
            if !msg.contains(&t) {
                out.push(("offending-sequence-not-quoted", format!("expected the JSON text {t}")));
            }
            quoted = Some(t);
        }
        RKind::Unexpected { msg: m } | RKind::Foreign { msg: m, .. } => {
            if !msg.contains(m.as_str()) {
                out.push(("detail-message-not-included", format!("detail: {m}")));
            }
        }
    }
    // read-back: the path parsed out of the message resolves to the very value the message quotes
    if out.is_empty() && plain_keys(&r0.loc) {
        let printed = path_in_message(msg);
        match (&printed, r0.loc.is_empty()) {
            (None, true) => {}
            (None, false) => out.push(("path-not-readable-from-message", "no back-ticked path after ` at ` / ` inside `".into())),
            (Some(pp), _) => match parse_path(pp).and_then(|steps| resolve(&Ov::from_json(&p.to_json()), &steps).cloned()) {
                None => out.push(("printed-path-does-not-resolve", format!("`{pp}` does not resolve in the payload"))),
                Some(node) => {
                    if let Some(q) = &quoted {
                        if json_text(&node) != *q {
                            out.push(("quoted-value-is-not-at-the-printed-path", format!("message quotes {q} but `{pp}` holds {}", json_text(&node))));
                        }
                    }
                }
            },
        }
    }
    out
}

pub(crate) fn check_qp(msg: &str, r0: &Report) -> Vec<(&'static str, String)> {
    let mut out = vec![];
    let path = qp_path(&r0.loc);
    if !r0.loc.is_empty() && !msg.contains(&format!("`{path}`")) {
        out.push(("path-of-first-report-not-in-message", format!("the first keep-going report is at `{path}` (query-parameter rendering)")));
    }
    if !r0.loc.is_empty() && matches!(r0.loc[0], Step::Key(_)) && msg.contains(&format!("`.{path}`")) {
        out.push(("query-param-path-has-leading-dot", format!("`.{path}`")));
    }
    match &r0.kind {
        RKind::Kind { actual, .. } => {
            let ok = match actual {
                Ov::Null => msg.contains("null"),
                Ov::Bool(b) => msg.contains(&format!("`{b}`")),
                Ov::Int(u) => msg.contains(&format!("`{u}`")),
                Ov::Neg(i) => msg.contains(&format!("`{i}`")),
                Ov::Float(f) => msg.contains(&format!("`{}`", f.get())) || msg.contains(&format!("`{}`", json_text(actual))),
                Ov::Str(s) => msg.contains(&format!("`{s}`")) || msg.contains(&json_text(actual)),
                Ov::Seq(_) | Ov::Map(_) => true,
            };
            if !ok {
                out.push(("offending-value-not-quoted", format!("value {}", actual.show())));
            }
        }
        RKind::Missing { field } => {
            if !msg.contains(&format!("`{field}`")) {
                out.push(("missing-field-not-named", format!("field `{field}`")));
            }
        }
        RKind::UnknownKey { key, accepted } => {
            alternatives(msg, key, accepted, &mut out);
            no_foreign_names(msg, key, accepted, &[path.clone()], &mut out);
        }
        RKind::UnknownValue { value, accepted } => {
            alternatives(msg, value, accepted, &mut out);
            no_foreign_names(msg, value, accepted, &[path.clone()], &mut out);
        }
        RKind::BadLen { actual, expected, .. } => {
            let len = if let Ov::Seq(v) = actual { v.len() } else { 0 };
            if !msg.contains(&len.to_string()) || !msg.contains(&expected.to_string()) {
                out.push(("lengths-not-stated", format!("received {len}, expected {expected}")));
            }
        }
        RKind::Unexpected { msg: m } | RKind::Foreign { msg: m, .. } => {
            if !msg.contains(m.as_str()) {
                out.push(("detail-message-not-included", format!("detail: {m}")));
            }
        }
    }
    out
}

fn one(acc: &mut Acc, reg: &Registry, s: &dyn Subject, case: &Case) {
    if !case.payload.json_representable() {
        return;
    }
    let j = case.payload.to_json();
    let run = s.run_json(&j, Script::Continue);
    if matches!(run.outcome, Outcome::Panic(_)) {
        return;
    }
    let Some(r0) = run.reports().next() else { return };
    let depth = r0.loc.len();
    for (ety, res) in [("JsonError", s.run_jsonerror(&j)), ("QueryParamError", s.run_qperror(&j))] {
        let Some(Ok(res)) = res else { continue };
        acc.eval();
        let msg = match res {
            Err(m) => m,
            Ok(pv) => {
                acc.violation(
                    format!("C14/{ety}/ok-for-failing-payload"),
                    "built-in error type returned Ok where the keep-going run reports a fault",
                    witness(s, &case.payload, Source::Json, &Script::Continue, &run, json!({"error_type": ety, "value": pv.show()})),
                );
                continue;
            }
        };
        acc.count(&format!("messages.{ety}.{}", r0.kind.tag()));
        acc.count(&format!("depth.{}", depth.min(6)));
        acc.nontrivial(&(s.name(), ety, r0.kind.tag(), depth, trace_shape(&run)));
        let fails = if ety == "JsonError" { check_json(&msg, r0, &case.payload) } else { check_qp(&msg, r0) };
        if ety == "JsonError" && plain_keys(&r0.loc) && !r0.loc.is_empty() {
            acc.count("paths_read_back_from_message");
        }
        if msg.contains("did you mean") {
            acc.count("messages_with_suggestion");
        }
        for (rule, what) in fails {
            let at = ctor_at(reg, s, &case.payload, &r0.loc[..r0.loc.len().saturating_sub(1)]);
            acc.violation(
                format!("C14/{ety}/{rule}/{}/{at}", r0.kind.tag()),
                rule,
                witness(s, &case.payload, Source::Json, &Script::Continue, &run, json!({"error_type": ety, "message": msg, "what": what, "first_report": format!("{} @{}", obs_digest(&r0.kind), render_path(&r0.loc))})),
            );
        }
        acc.sample(|| json!({"subject": s.name(), "payload": case.payload.show(), "error_type": ety, "message": msg, "first_report": format!("{} @{}", obs_digest(&r0.kind), render_path(&r0.loc))}));
    }
}

pub fn run(ctx: &Ctx, reg: &Registry) -> i32 {
    let n_cases: u64 = ctx.tier.pick(1500, 20000);
    let n_base: u64 = ctx.tier.pick(6, 40);
    let acc = ctx.par(|shard, n| {
        let mut acc = Acc::new();
        acc.sample_cap = 10;
        let mut unit = 0u64;
        for s in reg.subjects.iter() {
            let s = s.as_ref();
            if s.run_jsonerror(&serde_json::Value::Null).is_none() {
                continue;
            }
            for i in 0..n_cases {
                unit += 1;
                if !shard_of(unit, shard, n) {
                    continue;
                }
                let case = gen_case(reg, s, ctx.seed.wrapping_add(1414), i, false);
                note_case(&mut acc, s, &case);
                one(&mut acc, reg, s, &case);
            }
            // typos of accepted names (0..5 edits, incl. the shapes that separate edit-distance variants) as the
            // unknown key of a deny_unknown_fields body / the unknown string of a unit enum: suggestion iff spec
            {
                unit += 1;
                if shard_of(unit, shard, n) {
                    let mut rng = vcore::Rng::derive(ctx.seed, vcore::evidence::hash64(s.name()), 1418);
                    let n_typos: usize = ctx.tier.pick(40, 400);
                    if let refmodel::Ty::Named(nm) = crate::bodies::strip(s.ty()) {
                        if let Some(refmodel::Def::UnitEnum(u)) = reg.defs.0.get(nm) {
                            for (_, key) in &u.variants {
                                for j in 0..n_typos {
                                    let t = refmodel::payload::typo(&mut rng, key, 1 + j % 5);
                                    if u.variants.iter().any(|v| v.1 == t) {
                                        continue;
                                    }
                                    one(&mut acc, reg, s, &Case { payload: Ov::Str(t), faults: vec!["typo-of-accepted-value"] });
                                    acc.count("typo_cases");
                                }
                            }
                        }
                    }
                    for body in crate::bodies::bodies(&reg.defs, s.ty()) {
                        if body.deny != refmodel::Deny::Default {
                            continue;
                        }
                        let live: Vec<&refmodel::FieldDef> = body.fields.iter().filter(|f| !f.skip).collect();
                        let h = vcore::evidence::hash64(s.name());
                        for (fi, f) in live.iter().enumerate() {
                            for j in 0..n_typos {
                                let t = refmodel::payload::typo(&mut rng, &f.key, 1 + j % 5);
                                if live.iter().any(|g| g.key == t) || body.tag.as_ref().map_or(false, |tg| tg.0 == t) {
                                    continue;
                                }
                                // every field present and valid except that this one sits under the typo
                                let members: Vec<(String, Ov)> = live
                                    .iter()
                                    .enumerate()
                                    .map(|(gi, g)| (if gi == fi { t.clone() } else { g.key.clone() }, crate::bodies::valid_value(&reg.defs, &g.ty, ctx.seed ^ h, gi as u64, 0)))
                                    .collect();
                                one(&mut acc, reg, s, &Case { payload: crate::bodies::assemble(&body, members, j % 3), faults: vec!["typo-of-accepted-key"] });
                                acc.count("typo_cases");
                            }
                        }
                    }
                }
            }
            for b in 0..n_base {
                unit += 1;
                if !shard_of(unit, shard, n) {
                    continue;
                }
                let base = valid_case(reg, s, ctx.seed.wrapping_add(14), b, 2);
                if base.size() > 120 {
                    continue;
                }
                for (tag, m) in mutations(&base) {
                    one(&mut acc, reg, s, &Case { payload: m, faults: vec![tag] });
                }
            }
        }
        acc
    });
    ctx.finish(
        acc,
        Finish {
            level: "exploration",
            rule: "for every failing payload (random multi-fault payloads, every single structural mutation of valid payloads, and typos of 1..5 edits of every accepted key / enum value incl. swap+insert and swap-around-a-dropped-letter shapes; all catalogue + generated subjects that are generic over the error type): r0 = first report of the recorded keep-going run through serde_json; the Display of the JsonError / QueryParamError returned for the same payload must CONTAIN (containment, never equality) the rendered path of r0 (`.a[1].b`; query parameters without the leading dot; no path at the root) and per kind the JSON text of the offending value / the scalar, the missing field, the unknown key or value with every accepted alternative and `did you mean `X`` iff the independent Damerau-Levenshtein spec yields X, both lengths and the JSON text of the sequence, or the detail message of Unexpected / the foreign error. JsonError read-back: the path parsed out of the message resolves in the payload to a node whose JSON text is the text the message quotes. Non-trivial = every failing payload; distinct = (subject, error type, kind, depth, trace shape).".into(),
            exhaustive: false,
            assumptions: vec!["read-back only for locations whose keys are over [A-Za-z0-9_]".into(), "wording is never compared, only the facts the statement lists".into()],
        },
    )
}
