//! C08 — missing, default and skip.
use crate::bodies::*;
use crate::common::*;
use serde_json::json;
use subjects::{Registry, Subject};
use vcore::evidence::{Acc, Finish};
use vcore::{Ctx, Ov};

const A: Aspects = Aspects { value: true, reports: true, handovers: false, examined: true, calls: true };

fn check(acc: &mut Acc, reg: &Registry, s: &dyn Subject, body: &Body, members: Vec<(String, Ov)>, pos: usize, what: &'static str) {
    let case = Case { payload: assemble(body, members, pos), faults: vec![what] };
    let r = model_case(acc, reg, "C08", s, &case, Source::Ov, &A);
    if let monitor::Outcome::Ok(p) = &r.outcome {
        acc.nontrivial(&(s.name(), &body.label, p.show()));
        acc.count("ok_values_compared");
    }
    acc.add("missing_reports_seen", r.reports().filter(|x| matches!(x.kind, monitor::RKind::Missing { .. })).count() as u64);
    if case.payload.json_representable() {
        model_case(acc, reg, "C08", s, &case, Source::Json, &A);
    }
    acc.sample(|| json!({"subject": s.name(), "body": body.label, "payload": case.payload.show(), "outcome": r.outcome.show(), "trace": r.trace_lines(8)}));
}

pub fn run(ctx: &Ctx, reg: &Registry) -> i32 {
    let n_variants: u64 = ctx.tier.pick(4, 48);
    let acc = ctx.par(|shard, n| {
        let mut acc = Acc::new();
        let mut unit = 0u64;
        for s in reg.subjects.iter().filter(|s| s.has("derive") || s.has("generated")) {
            let s = s.as_ref();
            let h = vcore::evidence::hash64(s.name());
            for body in bodies(&reg.defs, s.ty()) {
                for var in 0..n_variants {
                    unit += 1;
                    if !shard_of(unit, shard, n) {
                        continue;
                    }
                    acc.note("bodies", &body.label);
                    let live: Vec<&refmodel::FieldDef> = body.fields.iter().filter(|f| !f.skip).collect();
                    let skipped: Vec<&refmodel::FieldDef> = body.fields.iter().filter(|f| f.skip).collect();
                    let nf = live.len();
                    if nf > 10 {
                        continue;
                    }
                    for f in &body.fields {
                        if f.skip {
                            acc.count("fields.skip");
                        } else if f.default.is_some() {
                            acc.count("fields.default");
                        } else if f.missing_fn.is_some() {
                            acc.count("fields.missing_field_error");
                        } else {
                            acc.count("fields.required");
                        }
                    }
                    let vals: Vec<Ov> = live.iter().enumerate().map(|(i, f)| valid_value(&reg.defs, &f.ty, ctx.seed ^ h, i as u64, var)).collect();
                    // duplicate keys (only the second value source can present them): whatever a repeated key
                    // means for the value, a key that IS present is never reported missing. Model-free.
                    if nf >= 2 {
                        for dup in 0..nf {
                            for at in [0usize, nf / 2, nf] {
                                let mut members: Vec<(String, Ov)> = live.iter().zip(vals.iter()).map(|(f, v)| (f.key.clone(), v.clone())).collect();
                                let extra = members[dup].clone();
                                members.insert(at.min(members.len()), extra);
                                // the repeated key first, directly followed by / preceded by the other keys
                                let payload = assemble(&body, members, (dup + at) % 3);
                                let run = run_case(s, &payload, Source::Ov, monitor::Script::Continue);
                                acc.eval();
                                acc.count("duplicate_key_payloads");
                                acc.nontrivial(&(s.name(), &body.label, "dup", dup, at));
                                if matches!(run.outcome, monitor::Outcome::Panic(_)) {
                                    continue;
                                }
                                let Ov::Map(obj) = &payload else { continue };
                                let mut bad: Option<String> = None;
                                for r in run.reports() {
                                    if let monitor::RKind::Missing { field } = &r.kind {
                                        if r.loc.is_empty() && obj.iter().any(|(k, _)| k == field) && body.tag.as_ref().map_or(true, |t| t.0 != *field) {
                                            bad = Some(format!("field {field:?} is reported missing although the object has it"));
                                        }
                                    }
                                }
                                for c in observed_calls(&run) {
                                    // (a field whose key is the enum's tag is absent by construction: the tag entry is taken out first)
                                    if c.name.starts_with("missing_") && c.loc.as_ref().map_or(false, |l| l.is_empty()) && obj.iter().any(|(k, _)| *k == c.arg) && body.tag.as_ref().map_or(true, |t| t.0 != c.arg) {
                                        bad = Some(format!("the missing_field_error function was called for {:?} although the object has that key", c.arg));
                                    }
                                }
                                if let Some(what) = bad {
                                    acc.violation(
                                        format!("C08/present-key-reported-missing/{}", if body.tag.is_some() { "DerivedTaggedEnum" } else { "DerivedStruct" }),
                                        "a key that is present (here: twice) was reported missing",
                                        witness(s, &payload, Source::Ov, &monitor::Script::Continue, &run, json!({"what": what, "body": body.label})),
                                    );
                                }
                            }
                        }
                    }
                    // all 2^n subsets of keys deleted
                    for mask in 0u32..(1u32 << nf) {
                        let present: Vec<usize> = (0..nf).filter(|i| mask & (1 << i) == 0).collect();
                        let base: Vec<(String, Ov)> = present.iter().map(|&i| (live[i].key.clone(), vals[i].clone())).collect();
                        check(&mut acc, reg, s, &body, base.clone(), (mask % 3) as usize, "keys-deleted");
                        acc.count("key_subsets");
                        // crossed with nulling / corrupting one other key
                        if let Some(&j) = present.get((mask as usize + var as usize) % present.len().max(1)) {
                            let mut nulled = base.clone();
                            for m in nulled.iter_mut() {
                                if m.0 == live[j].key {
                                    m.1 = Ov::Null;
                                }
                            }
                            check(&mut acc, reg, s, &body, nulled, 1, "keys-deleted+one-nulled");
                            let mut bad = base.clone();
                            for m in bad.iter_mut() {
                                if m.0 == live[j].key {
                                    m.1 = if matches!(m.1, Ov::Map(_)) { Ov::str("corrupt") } else { Ov::Map(vec![("corrupt".into(), Ov::Null)]) };
                                }
                            }
                            check(&mut acc, reg, s, &body, bad, 2, "keys-deleted+one-corrupted");
                        }
                        // entries carrying the names of skipped fields: must be ignored and never examined
                        if !skipped.is_empty() && mask % 2 == 0 {
                            let mut withs = base.clone();
                            for (k, sf) in skipped.iter().enumerate() {
                                if !withs.iter().any(|(kk, _)| *kk == sf.key) {
                                    withs.insert(k.min(withs.len()), (sf.key.clone(), Ov::Seq(vec![Ov::Int(5), Ov::str("skipped")])));
                                }
                            }
                            check(&mut acc, reg, s, &body, withs, 0, "skipped-name-present");
                        }
                    }
                }
            }
        }
        acc
    });
    ctx.finish(
        acc,
        Finish {
            level: "exploration",
            rule: "for every struct-like body of every derived subject (catalogue + generated): ALL 2^n subsets of the non-skipped keys deleted (n <= 10), each crossed with nulling and with corrupting one remaining key and with entries named like the skipped fields. Oracle vs the reference interpreter: the exact multiset of MissingField{effective key}@container reports (present-but-invalid and null never add one), the custom missing_field_error calls with (key, location), the Ok projection (default taken iff key absent, `map` on top, skipped field = its default), and through the instrumented source that an entry named like a skipped field is never examined. Plus, model-free, payloads in which one key at a time appears twice (second value source): a key that is present is never reported missing nor passed to the missing_field_error function. Non-trivial = Ok value compared or report made; distinct = (subject, body, value) resp. trace shape.".into(),
            exhaustive: false,
            assumptions: vec!["skip + map on one field is not generated (the statement does not order them)".into()],
        },
    )
}
