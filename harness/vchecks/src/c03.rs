//! C03 — a stop answer ends the work; fail-fast = first keep-going report.
//! Decided on the implementation's own runs (run-vs-run) plus local rules on the trace.
use crate::common::*;
use monitor::{Event, Outcome, Run, Script};
use serde_json::json;
use subjects::{Registry, Subject};
use vcore::evidence::{Acc, Finish};
use vcore::ov::is_prefix;
use vcore::{render_path, Ctx, Path};

fn decision_of(e: &Event) -> Option<(u32, bool, u32, &Path)> {
    match e {
        Event::Report(r) => Some((r.decision, r.cont, r.out_tok, &r.loc)),
        Event::Merge(m) => Some((m.decision, m.cont, m.out_tok, &m.loc)),
        _ => None,
    }
}

/// Rule 4 (any script): a Break answer is followed by nothing but the hand-over of that very error.
pub fn after_break_rule(run: &Run) -> Option<(&'static str, String, Path)> {
    let ev: Vec<&Event> = run.events.iter().filter(|e| !matches!(e, Event::Drop { .. })).collect();
    for (i, e) in ev.iter().enumerate() {
        let Some((d, cont, tok, loc)) = decision_of(e) else { continue };
        if cont {
            continue;
        }
        let Some(next) = ev.get(i + 1) else { continue };
        match next {
            Event::Merge(m) => {
                if m.other_tok != tok {
                    return Some(("stop-then-other-error-handed-over", format!("decision d{d} answered Break with t{tok} at {:?}; the next event hands over t{} instead", render_path(loc), m.other_tok), loc.clone()));
                }
                if !is_prefix(&m.loc, loc) {
                    return Some(("stop-then-handover-elsewhere", format!("decision d{d} answered Break at {:?}; handed over at {:?}", render_path(loc), render_path(&m.loc)), loc.clone()));
                }
            }
            other => {
                return Some((
                    "work-after-stop",
                    format!("decision d{d} answered Break with t{tok} at {:?}; the next event is `{}` instead of the hand-over of t{tok}", render_path(loc), other.short()),
                    loc.clone(),
                ));
            }
        }
    }
    None
}

/// Rule 5: a conversion error of a field-level `try_from` is reported by the derived container itself
/// (at the field's position). When that report is answered Break, the container returns at once
/// whatever the answer to the following hand-over is: nothing further inside the container is
/// examined, reported or called.
pub fn field_conversion_stop_rule(reg: &Registry, s: &dyn Subject, payload: &vcore::Ov, run: &Run) -> Option<(&'static str, String, Path)> {
    // with duplicate keys the same location is legitimately visited twice: locations do not identify
    // container instances there, so the rule is only applied to payloads with unique keys
    if !unique_keys(payload) {
        return None;
    }
    for (i, e) in run.events.iter().enumerate() {
        let Event::Report(r) = e else { continue };
        if r.cont || r.loc.is_empty() || !matches!(r.kind, monitor::RKind::Foreign { .. }) {
            continue;
        }
        let parent = &r.loc[..r.loc.len() - 1];
        let vcore::Step::Key(k) = &r.loc[r.loc.len() - 1] else { continue };
        // is the field at this position converted with try_from by the container at `parent`?
        let Some(pty) = ty_at(&reg.defs, s.ty(), payload, parent) else { continue };
        let refmodel::Ty::Named(n) = crate::bodies::strip(&pty) else { continue };
        let fields: Vec<refmodel::FieldDef> = match reg.defs.0.get(n) {
            Some(refmodel::Def::Struct(sd)) => sd.fields.clone(),
            Some(refmodel::Def::Enum(ed)) => ed.variants.iter().filter_map(|v| v.fields.clone()).flatten().collect(),
            _ => continue,
        };
        if !fields.iter().any(|f| !f.skip && f.key == *k && matches!(f.conv, refmodel::Conv::TryFrom(_))) {
            continue;
        }
        for later in &run.events[i + 1..] {
            let loc: Option<Path> = match later {
                Event::Examine { node } | Event::IterSeq { node } | Event::IterMap { node } => run.nodes.get(*node as usize).map(|n| n.path.clone()),
                Event::Report(r2) => Some(r2.loc.clone()),
                Event::Call { loc, .. } => loc.clone(),
                _ => None,
            };
            if let Some(l) = loc {
                let inside = l.len() > parent.len() && is_prefix(parent, &l);
                let at_container = l.len() == parent.len() && is_prefix(parent, &l) && matches!(later, Event::Report(_) | Event::Call { .. });
                if inside || at_container {
                    return Some((
                        "container-continues-after-stopped-conversion-error",
                        format!("the conversion error of field {:?} was answered Break (d{}), yet the container at {:?} went on: `{}`", k, r.decision, render_path(parent), later.short()),
                        parent.to_vec(),
                    ));
                }
            }
        }
    }
    None
}

/// Rule 6: `MissingField` (without a custom function) and `UnknownKey` (plain `deny_unknown_fields`) are reports the
/// derived container makes itself, with its accumulated error. When such a report is answered Break the container
/// returns at once, whatever later hand-overs are answered: nothing further at or below its location is examined,
/// reported or called.
pub fn own_report_stop_rule(reg: &Registry, s: &dyn Subject, payload: &vcore::Ov, run: &Run) -> Option<(&'static str, String, Path)> {
    if !unique_keys(payload) {
        return None;
    }
    for (i, e) in run.events.iter().enumerate() {
        let Event::Report(r) = e else { continue };
        if r.cont {
            continue;
        }
        let (is_unknown, name) = match &r.kind {
            monitor::RKind::UnknownKey { key, .. } => (true, key.clone()),
            monitor::RKind::Missing { field } => (false, field.clone()),
            _ => continue,
        };
        let Some(ty) = ty_at(&reg.defs, s.ty(), payload, &r.loc) else { continue };
        let refmodel::Ty::Named(n) = through_conv(&reg.defs, &ty) else { continue };
        let (deny, fields): (refmodel::Deny, Vec<refmodel::FieldDef>) = match reg.defs.0.get(&n) {
            Some(refmodel::Def::Struct(sd)) => (sd.deny.clone(), sd.fields.clone()),
            Some(refmodel::Def::Enum(ed)) => {
                let Some(node) = vcore::resolve(payload, &r.loc) else { continue };
                let Some(vcore::Ov::Str(t)) = node.get_key(&ed.tag) else { continue };
                let Some(v) = ed.variants.iter().find(|v| v.key == *t) else { continue };
                (ed.deny.clone(), v.fields.clone().unwrap_or_default())
            }
            _ => continue,
        };
        let own = if is_unknown { deny == refmodel::Deny::Default } else { fields.iter().any(|f| !f.skip && f.key == name && f.missing_fn.is_none() && f.default.is_none()) };
        if !own {
            continue;
        }
        for later in &run.events[i + 1..] {
            let loc: Option<Path> = match later {
                Event::Examine { node } | Event::IterSeq { node } | Event::IterMap { node } => run.nodes.get(*node as usize).map(|n| n.path.clone()),
                Event::Report(r2) => Some(r2.loc.clone()),
                Event::Call { loc, .. } => loc.clone(),
                _ => None,
            };
            if let Some(l) = loc {
                if is_prefix(&r.loc, &l) {
                    return Some((
                        "container-continues-after-its-own-stopped-report",
                        format!("the container at {:?} reported {} {:?} itself, the answer was Break (d{}), yet it went on: `{}`", render_path(&r.loc), if is_unknown { "unknown key" } else { "missing field" }, name, r.decision, later.short()),
                        r.loc.clone(),
                    ));
                }
            }
        }
    }
    None
}

fn unique_keys(p: &vcore::Ov) -> bool {
    match p {
        vcore::Ov::Seq(v) => v.iter().all(unique_keys),
        vcore::Ov::Map(m) => m.iter().enumerate().all(|(i, (k, v))| !m[..i].iter().any(|(kk, _)| kk == k) && unique_keys(v)),
        _ => true,
    }
}

fn check_k(s: &dyn Subject, tk: &Run, t_k: &Run, k: u32) -> Option<(&'static str, String, Path)> {
    // position of decision k in the keep-going trace
    let pos_k = tk.events.iter().position(|e| decision_of(e).map(|d| d.0) == Some(k));
    let _ = s;
    match pos_k {
        None => {
            if tk.events != t_k.events || tk.outcome != t_k.outcome {
                return Some(("runs-differ-without-a-stop", "BreakFrom(k) with k beyond the last decision differs from the keep-going run".into(), vec![]));
            }
            None
        }
        Some(p) => {
            // 1. prefix equality (the answer of decision k itself differs by construction)
            if t_k.events.len() <= p {
                return Some(("prefix-differs", format!("the run stopped before reaching decision d{k}"), vec![]));
            }
            for j in 0..p {
                if tk.events[j] != t_k.events[j] {
                    return Some(("prefix-differs", format!("event {j} before the stop differs: `{}` vs `{}`", tk.events[j].short(), t_k.events[j].short()), vec![]));
                }
            }
            let same_but_answer = match (&tk.events[p], &t_k.events[p]) {
                (Event::Report(a), Event::Report(b)) => {
                    let mut b2 = b.clone();
                    b2.cont = a.cont;
                    *a == b2
                }
                (Event::Merge(a), Event::Merge(b)) => {
                    let mut b2 = b.clone();
                    b2.cont = a.cont;
                    *a == b2
                }
                _ => false,
            };
            if !same_but_answer {
                return Some(("prefix-differs", format!("decision d{k} differs: `{}` vs `{}`", tk.events[p].short(), t_k.events[p].short()), vec![]));
            }
            // 2. nothing new after the stop: only hand-overs of the already built error
            let (_, _, mut tok, loc0) = decision_of(&t_k.events[p]).unwrap();
            let mut loc = loc0.clone();
            for e in &t_k.events[p + 1..] {
                match e {
                    Event::Drop { .. } => {}
                    Event::Merge(m) => {
                        if m.cont {
                            return Some(("answer-script-broken", "harness: Continue after the stop".into(), vec![]));
                        }
                        if m.other_tok != tok {
                            return Some(("stop-then-other-error-handed-over", format!("after the stop at d{k}, t{} is handed over instead of t{tok}", m.other_tok), m.loc.clone()));
                        }
                        if !is_prefix(&m.loc, &loc) {
                            return Some(("stop-then-handover-elsewhere", format!("after the stop at d{k} ({:?}) a hand-over happens at {:?}", render_path(&loc), render_path(&m.loc)), m.loc.clone()));
                        }
                        tok = m.out_tok;
                        loc = m.loc.clone();
                    }
                    other => {
                        let l = match other {
                            Event::Report(r) => r.loc.clone(),
                            Event::Examine { node } | Event::IterSeq { node } | Event::IterMap { node } => t_k.nodes.get(*node as usize).map(|n| n.path.clone()).unwrap_or_default(),
                            _ => loc.clone(),
                        };
                        return Some(("work-after-stop", format!("after the stop at decision d{k} ({:?}) the run still does `{}`", render_path(&loc), other.short()), l));
                    }
                }
            }
            // the returned error is the one that was being passed up
            match &t_k.outcome {
                Outcome::Err { tok: t, .. } if *t == tok => None,
                Outcome::Panic(_) => None,
                o => Some(("stop-but-other-result", format!("after the stop at d{k} the call returned {} instead of the error t{tok}", o.show()), loc)),
            }
        }
    }
}

pub fn run(ctx: &Ctx, reg: &Registry) -> i32 {
    let n_cases: u64 = ctx.tier.pick(200, 3000);
    let n_rand: u64 = ctx.tier.pick(8, 32);
    let acc = ctx.par(|shard, n| {
        let mut acc = Acc::new();
        // the generated cases of every subject, then the long sequences / maps (stops at and around
        // indices 255, 1023, 2047: an implementation that reads in chunks has its seams there)
        let long = long_cases(reg);
        let total = reg.subjects.len() as u64 * n_cases;
        let mut work: Vec<(&dyn Subject, Case, u64, bool)> = vec![];
        for (si, s) in reg.subjects.iter().enumerate() {
            let s = s.as_ref();
            for i in 0..n_cases {
                if shard_of(si as u64 * n_cases + i, shard, n) {
                    work.push((s, gen_case(reg, s, ctx.seed.wrapping_add(303), i, true), i, false));
                }
            }
        }
        for (li, (s, case)) in long.into_iter().enumerate() {
            if shard_of(total + li as u64, shard, n) {
                work.push((s, case, li as u64, true));
            }
        }
        {
            for (s, case, i, is_long) in work {
                let n_rand = if is_long { 2 } else { n_rand };
                if is_long {
                    acc.count("long_sequence_cases");
                }
                note_case(&mut acc, s, &case);
                for src in [Source::Ov, Source::Json] {
                    if src == Source::Json && !case.payload.json_representable() {
                        continue;
                    }
                    let tk = run_case(s, &case.payload, src, Script::Continue);
                    account(&mut acc, s, &case, &tk);
                    if matches!(tk.outcome, Outcome::Panic(_)) {
                        acc.count("panics_seen_(reported_by_C12)");
                        continue;
                    }
                    let nd = tk.decisions();
                    let fail = |acc: &mut Acc, script: Script, run: &Run, f: (&'static str, String, Path)| {
                        let at = ctor_at(reg, s, &case.payload, &f.2);
                        acc.violation(
                            format!("C03/{}/{}", f.0, at),
                            f.0,
                            witness(s, &case.payload, src, &script, run, json!({"what": f.1, "keep_going_trace": tk.trace_lines(80), "container_there": at})),
                        );
                    };
                    for k in 0..=nd.min(128) {
                        let script = Script::BreakFrom(k);
                        let t_k = run_case(s, &case.payload, src, script.clone());
                        account(&mut acc, s, &case, &t_k);
                        acc.count("break_positions_checked");
                        if matches!(t_k.outcome, Outcome::Panic(_)) {
                            continue;
                        }
                        if let Some(f) = check_k(s, &tk, &t_k, k) {
                            fail(&mut acc, script.clone(), &t_k, f);
                        }
                        if let Some(f) = after_break_rule(&t_k) {
                            fail(&mut acc, script.clone(), &t_k, f);
                        }
                        if let Some(f) = field_conversion_stop_rule(reg, s, &case.payload, &t_k) {
                            fail(&mut acc, script.clone(), &t_k, f);
                        }
                        if let Some(f) = own_report_stop_rule(reg, s, &case.payload, &t_k) {
                            fail(&mut acc, script.clone(), &t_k, f);
                        }
                        if k == 0 && nd > 0 {
                            // 3. always-stop error = first report of the keep-going run
                            let first = tk.reports().next().map(|r| r.id);
                            match (&t_k.outcome, first) {
                                (Outcome::Err { holding, .. }, Some(f0)) if *holding == vec![f0] => {}
                                (o, _) => fail(&mut acc, script.clone(), &t_k, ("fail-fast-is-not-first-report", format!("always-stop run returned {} ; the first report of the keep-going run is r{:?}", o.show(), first), vec![])),
                            }
                            if src == Source::Json {
                                let j = case.payload.to_json();
                                if let Some(Ok(Ok(p))) = s.run_jsonerror(&j) {
                                    fail(&mut acc, script.clone(), &t_k, ("jsonerror-ok-where-recording-run-fails", format!("JsonError run returned Ok({})", p.show()), vec![]));
                                }
                                acc.count("jsonerror_runs");
                                // the built-in always-stop error types return the FIRST report of the keep-going run: their
                                // message must state the facts of r_0 (same containment oracle as C14; added in round 8)
                                if let (Some(r0), false) = (tk.reports().next(), is_long) {
                                    if let Some(Ok(Err(msg))) = s.run_jsonerror(&j) {
                                        acc.count("builtin_messages_compared_with_first_report");
                                        if let Some((rule, what)) = crate::c14::check_json(&msg, r0, &case.payload).into_iter().next() {
                                            fail(&mut acc, script.clone(), &t_k, ("jsonerror-is-not-first-report", format!("{rule}: {what}; message: {msg}"), vec![]));
                                        }
                                    }
                                    if let Some(Ok(Err(msg))) = s.run_qperror(&j) {
                                        acc.count("builtin_messages_compared_with_first_report");
                                        if let Some((rule, what)) = crate::c14::check_qp(&msg, r0).into_iter().next() {
                                            fail(&mut acc, script.clone(), &t_k, ("queryparamerror-is-not-first-report", format!("{rule}: {what}; message: {msg}"), vec![]));
                                        }
                                    }
                                }
                            }
                        }
                    }
                    if nd > 0 && !is_long {
                        for script in policies() {
                            let r = run_case(s, &case.payload, src, script.clone());
                            account(&mut acc, s, &case, &r);
                            acc.count("policy_scripts_checked");
                            if let Some(f) = after_break_rule(&r) {
                                fail(&mut acc, script.clone(), &r, f);
                            }
                            if let Some(f) = field_conversion_stop_rule(reg, s, &case.payload, &r) {
                                fail(&mut acc, script.clone(), &r, f);
                            }
                            if let Some(f) = own_report_stop_rule(reg, s, &case.payload, &r) {
                                fail(&mut acc, script.clone(), &r, f);
                            }
                        }
                    }
                    for j in 0..n_rand {
                        let sd = ctx.seed.wrapping_mul(7919) ^ (i << 10) ^ j;
                        let script = if j % 2 == 0 { Script::Bits(sd) } else { Script::Coin(sd) };
                        let r = run_case(s, &case.payload, src, script.clone());
                        account(&mut acc, s, &case, &r);
                        acc.count("random_scripts_checked");
                        if let Some(f) = after_break_rule(&r) {
                            fail(&mut acc, script.clone(), &r, f);
                        }
                        if let Some(f) = field_conversion_stop_rule(reg, s, &case.payload, &r) {
                            fail(&mut acc, script.clone(), &r, f);
                        }
                        if let Some(f) = own_report_stop_rule(reg, s, &case.payload, &r) {
                            fail(&mut acc, script.clone(), &r, f);
                        }
                    }
                    acc.sample(|| json!({"subject": s.name(), "payload": case.payload.show(), "source": src.name(), "keep_going_decisions": nd, "keep_going_trace": tk.trace_lines(10)}));
                }
            }
        }
        acc
    });
    ctx.finish(
        acc,
        Finish {
            level: "fault_enumeration",
            rule: "for every generated payload, and for long sequences / maps (1024…3000 entries, faults at and around indices 255, 1023, 2047 and at the end): the keep-going run T_K, then BreakFrom(k) for EVERY k in 0..=decisions(T_K) (both value sources). Checked per k: events before decision k identical to T_K; after decision k only hand-overs of the very error returned by the previous decision, each at an ancestor-or-self location, no examine/iterate/call/report; the call returns that error; k=0 returns exactly the first report of T_K (and JsonError fails too). For random answer scripts (3/4 and 1/2 Continue, i.e. answers that switch back from Break to Continue): every Break answer is followed by the hand-over of that error and nothing else; a field-level try_from conversion error answered Break ends the derived container whatever the next hand-over is answered. Non-trivial = the keep-going run made at least one report; distinct = (subject, fault signature, trace shape).".into(),
            exhaustive: false,
            assumptions: vec!["every Break position of every generated case is enumerated; the cases themselves are sampled".into()],
        },
    )
}
