//! Per-property check drivers (generic over a registry of subjects).
pub mod bodies;
pub mod common;
pub mod c01;
pub mod c02;
pub mod c03;
pub mod c04;
pub mod c06;
pub mod c07;
pub mod c08;
pub mod c09;
pub mod c10;
pub mod c11;
pub mod c15;
pub mod c12;
pub mod c14;

use subjects::Registry;
use vcore::{Ctx, Tier};

pub struct Args {
    pub property: String,
    pub tier: Tier,
    pub replay: Option<String>,
}

pub fn parse_args() -> Args {
    let a: Vec<String> = std::env::args().collect();
    let mut property = String::new();
    let mut tier = match std::env::var("VERIF_TIER").as_deref() {
        Ok("thorough") => Tier::Thorough,
        _ => Tier::Quick,
    };
    let mut replay = None;
    let mut i = 1;
    while i < a.len() {
        match a[i].as_str() {
            "--tier" => {
                i += 1;
                tier = if a.get(i).map(|s| s.as_str()) == Some("thorough") { Tier::Thorough } else { Tier::Quick };
            }
            "--replay" => {
                i += 1;
                replay = a.get(i).cloned();
            }
            s if property.is_empty() => property = s.to_string(),
            _ => {}
        }
        i += 1;
    }
    Args { property, tier, replay }
}

/// Entry point shared by the catalogue-only binary and the generated crates.
pub fn main_with(reg: Registry, extra: serde_json::Map<String, serde_json::Value>) -> i32 {
    let args = parse_args();
    let mut ctx = Ctx::new(&args.property, args.tier);
    ctx.extra = extra;
    if let Some(path) = &args.replay {
        return common::replay(&ctx, &reg, path);
    }
    // generator self-check: attribute-free control programs on fault-free payloads must trivially agree
    // with the model; if they do not, the harness (generator / model / projection) is wrong, not deserr
    for s in reg.subjects.iter().filter(|s| s.has("control")) {
        for i in 0..10u64 {
            let p = common::valid_case(&reg, s.as_ref(), 12345, i, 2);
            let run = s.run_ov(&p, monitor::Script::Continue);
            let a = common::Aspects { value: true, reports: true, handovers: false, examined: false, calls: false };
            if let Some(d) = common::model_check(&reg, s.as_ref(), &p, common::Source::Ov, &run, &a) {
                println!(
                    "INCONCLUSIVE property={} reason=generator self-check failed on control program {} ({}: {}) payload {}",
                    args.property,
                    s.name(),
                    d.rule,
                    d.detail,
                    p.show()
                );
                return 2;
            }
        }
    }
    start_watchdog(&args.property, args.tier, false);
    match args.property.as_str() {
        "C01" => c01::run(&ctx, &reg),
        "C02" => c02::run(&ctx, &reg),
        "C03" => c03::run(&ctx, &reg),
        "C04" => c04::run(&ctx, &reg),
        "C06" => c06::run(&ctx, &reg),
        "C07" => c07::run(&ctx, &reg),
        "C08" => c08::run(&ctx, &reg),
        "C09" => c09::run(&ctx, &reg),
        "C10" => c10::run(&ctx, &reg),
        "C11" => c11::run(&ctx, &reg),
        "C12" => c12::run(&ctx, &reg),
        "C14" => c14::run(&ctx, &reg),
        "C15" => c15::run(&ctx, &reg),
        other => {
            println!("INCONCLUSIVE property={other} reason=no driver for this property in this binary");
            2
        }
    }
}


/// Non-termination watchdog (monitor::watch): a worker that spends `LIMIT` seconds of its own CPU time inside ONE
/// monitored call will not return. For C12 (and for the direct checks, whose function under test then never produces
/// the specified answer) that is a violation; every other check ends INCONCLUSIVE instead of hanging.
pub fn start_watchdog(property: &str, tier: Tier, own_violation: bool) {
    const LIMIT: u64 = 20;
    let prop = property.to_string();
    monitor::watch::start(
        LIMIT,
        Box::new(move |context, secs| {
            if std::env::args().any(|a| a == "--child") {
                // deep-payload child of C12: the parent turns this exit code into the violation (it knows the case)
                println!("CHILD-STUCK {secs}");
                std::process::exit(4);
            }
            if prop == "C12" || own_violation {
                let ctx = Ctx::new(&prop, tier);
                let mut acc = vcore::evidence::Acc::new();
                acc.eval();
                acc.nontrivial(&("did-not-return", context));
                acc.violation(
                    format!("{prop}/did-not-return"),
                    "a call did not return",
                    serde_json::json!({"context": context, "cpu_seconds_inside_one_call": secs, "limit_cpu_seconds": LIMIT,
                        "note": "per-thread CPU time inside one monitored call, read from /proc; the rest of the workload was abandoned"}),
                );
                let code = ctx.finish(
                    acc,
                    vcore::evidence::Finish {
                        level: "exploration",
                        rule: format!("watchdog: one monitored call consumed {secs} s of its thread's CPU time without returning (limit {LIMIT} s; a call normally takes microseconds). The run was ended at that point; only this observation is reported."),
                        exhaustive: false,
                        assumptions: vec!["per-thread CPU time, not wall-clock: a loaded machine cannot trip the watchdog".into()],
                    },
                );
                std::process::exit(if code == 0 { 1 } else { code });
            } else {
                println!("INCONCLUSIVE property={prop} reason=a monitored call consumed {secs} s of CPU time without returning (non-termination is reported by C12); context: {}", context.chars().take(400).collect::<String>());
                std::process::exit(2);
            }
        }),
    );
}
