//! Helpers over derived types: the struct-like bodies (struct, or variant of a tagged enum) of a subject
//! and payload construction around them.
use refmodel::payload::{Gen, GenOpts};
use refmodel::{Def, Defs, Deny, FieldDef, Ty};
use vcore::{Ov, Rng};

#[derive(Clone)]
pub struct Body {
    /// (tag key, variant key) for a variant of a tagged enum
    pub tag: Option<(String, String)>,
    pub fields: Vec<FieldDef>,
    pub deny: Deny,
    pub label: String,
}

pub fn strip(t: &Ty) -> &Ty {
    match t {
        Ty::Option(x) | Ty::Boxed(x) => strip(x),
        o => o,
    }
}

/// Bodies of the subject's top-level type (empty for non-derived targets).
pub fn bodies(defs: &Defs, ty: &Ty) -> Vec<Body> {
    let Ty::Named(n) = strip(ty) else { return vec![] };
    match defs.0.get(n) {
        Some(Def::Struct(s)) => vec![Body { tag: None, fields: s.fields.clone(), deny: s.deny.clone(), label: s.name.clone() }],
        Some(Def::Enum(e)) => e
            .variants
            .iter()
            .filter_map(|v| {
                v.fields.as_ref().map(|fs| Body { tag: Some((e.tag.clone(), v.key.clone())), fields: fs.clone(), deny: e.deny.clone(), label: format!("{}::{}", e.name, v.ident) })
            })
            .collect(),
        _ => vec![],
    }
}

/// A valid value for a type, from its own random stream.
pub fn valid_value(defs: &Defs, ty: &Ty, seed: u64, a: u64, b: u64) -> Ov {
    let rng = Rng::derive(seed, a, b);
    let mut g = Gen::new(defs, rng, GenOpts { fault_pm: 0, max_len: 2, extra_key_pm: 0, max_depth: 3, ..Default::default() });
    g.payload(ty, 1)
}

/// Assemble the object for a body from (key, value) members; the tag (if any) goes at `tag_pos`.
pub fn assemble(body: &Body, mut members: Vec<(String, Ov)>, tag_pos: usize) -> Ov {
    if let Some((tk, vk)) = &body.tag {
        members.retain(|(k, _)| k != tk);
        let pos = tag_pos.min(members.len());
        members.insert(pos, (tk.clone(), Ov::Str(vk.clone())));
    }
    Ov::Map(members)
}

pub fn snake_to_camel(s: &str) -> String {
    let mut out = String::new();
    let mut up = false;
    for (i, c) in s.chars().enumerate() {
        if c == '_' {
            up = i > 0;
            continue;
        }
        if up {
            out.extend(c.to_uppercase());
            up = false;
        } else if i == 0 {
            out.extend(c.to_lowercase());
        } else {
            out.push(c);
        }
    }
    out
}
