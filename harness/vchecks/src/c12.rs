//! C12 — deserialize is total. catch_unwind around every call of a hostile workload, plus an
//! adversarial child process (deep nesting on small stacks) whose abnormal termination is observed.
use crate::common::*;
use monitor::{Outcome, Script};
use serde_json::json;
use subjects::{Registry, Subject};
use vcore::evidence::{Acc, Finish};
use vcore::{Ctx, Ov};

fn check(acc: &mut Acc, s: &dyn Subject, case: &Case, src: Source, script: Script) {
    let run = run_case(s, &case.payload, src, script.clone());
    account(acc, s, case, &run);
    if let Outcome::Panic(msg) = &run.outcome {
        let site = msg.rsplit(" at ").next().unwrap_or("?").to_string();
        acc.violation(format!("C12/panic/{site}"), "deserialize panicked", witness(s, &case.payload, src, &script, &run, json!({"panic": msg})));
    }
    // every case counts as non-trivial when it carries at least one fault or made a report
    if !case.faults.is_empty() {
        acc.nontrivial(&(s.name(), fault_signature(&case.faults), trace_shape(&run), "f"));
    }
}

fn builtin(acc: &mut Acc, s: &dyn Subject, case: &Case) {
    // built-in error types fed by the second value source (non-finite floats, duplicate keys, ...)
    for (name, r) in s.run_ov_builtins(&case.payload) {
        if let Err(msg) = r {
            let site = msg.rsplit(" at ").next().unwrap_or("?").to_string();
            acc.violation(
                format!("C12/panic/{name}/second-value-source/{site}"),
                "deserialize panicked under a built-in error type fed by the second value source",
                json!({"subject": s.name(), "payload": case.payload, "payload_shown": case.payload.show(), "source": "ov", "script": "Break", "error_type": name, "panic": msg}),
            );
        }
        acc.count("builtin_error_type_runs_second_source");
        acc.eval();
    }
    if !case.payload.json_representable() {
        return;
    }
    let j = case.payload.to_json();
    for (name, r) in [("JsonError", s.run_jsonerror(&j)), ("QueryParamError", s.run_qperror(&j))] {
        if let Some(Err(msg)) = r {
            let site = msg.rsplit(" at ").next().unwrap_or("?").to_string();
            acc.violation(
                format!("C12/panic/{name}/{site}"),
                "deserialize panicked under a built-in error type",
                json!({"subject": s.name(), "payload": case.payload, "payload_shown": case.payload.show(), "source": "serde_json", "script": "Break", "error_type": name, "panic": msg}),
            );
        }
        acc.count("builtin_error_type_runs");
        acc.eval();
    }
}

/// depth-d nestings aimed at the recursive targets
pub fn deep_payloads(d: usize) -> Vec<(&'static str, Ov)> {
    let mut arr = Ov::Int(1);
    let mut obj = Ov::Int(1);
    let mut mixed = Ov::str("x");
    let mut node = Ov::Map(vec![("next".into(), Ov::Null), ("kids".into(), Ov::Seq(vec![])), ("vv".into(), Ov::Int(1))]);
    let mut node_bad = Ov::Map(vec![("next".into(), Ov::Null), ("kids".into(), Ov::Seq(vec![])), ("vv".into(), Ov::str("bad"))]);
    let mut kids = Ov::Map(vec![("next".into(), Ov::Null), ("kids".into(), Ov::Seq(vec![])), ("vv".into(), Ov::Null)]);
    let mut tree = Ov::Map(vec![("t".into(), Ov::str("Leaf")), ("vv".into(), Ov::Int(1))]);
    let mut tree_bad = Ov::Map(vec![("t".into(), Ov::str("Leaf")), ("vv".into(), Ov::Neg(-1))]);
    for i in 0..d.saturating_sub(1) {
        arr = Ov::Seq(vec![arr]);
        obj = Ov::Map(vec![("k".into(), obj)]);
        mixed = if i % 2 == 0 { Ov::Seq(vec![mixed, Ov::Null]) } else { Ov::Map(vec![("a".into(), mixed), ("b".into(), Ov::Bool(true))]) };
        node = Ov::Map(vec![("next".into(), node), ("kids".into(), Ov::Seq(vec![])), ("vv".into(), Ov::Null)]);
        node_bad = Ov::Map(vec![("next".into(), node_bad), ("kids".into(), Ov::Seq(vec![])), ("vv".into(), Ov::str("bad"))]);
        kids = Ov::Map(vec![("next".into(), Ov::Null), ("kids".into(), Ov::Seq(vec![kids])), ("vv".into(), Ov::Null)]);
        let leaf = Ov::Map(vec![("t".into(), Ov::str("Leaf")), ("vv".into(), Ov::Int(2))]);
        tree = Ov::Map(vec![("t".into(), Ov::str("Fork")), ("l".into(), tree), ("r".into(), leaf.clone())]);
        tree_bad = Ov::Map(vec![("t".into(), Ov::str("Fork")), ("l".into(), tree_bad), ("r".into(), Ov::Null)]);
    }
    vec![("arrays", arr), ("objects", obj), ("mixed", mixed), ("node-next", node), ("node-next-faulty", node_bad), ("node-kids", kids), ("tree", tree), ("tree-faulty", tree_bad)]
}

/// Runs in the child process: every subject x deep payload x script on a thread with a small stack.
pub fn child(reg: &Registry, stack_mib: usize, progress: &str) -> i32 {
    let payloads = deep_payloads(128);
    let n = std::sync::atomic::AtomicU64::new(0);
    let res = std::thread::scope(|sc| {
        std::thread::Builder::new()
            .stack_size(stack_mib << 20)
            .spawn_scoped(sc, || {
                let mut panics = vec![];
                for s in reg.subjects.iter() {
                    for (pname, p) in &payloads {
                        for (si, script) in [Script::Continue, Script::Break, Script::Bits(5), Script::Coin(9)].into_iter().enumerate() {
                            let _ = std::fs::write(progress, format!("{}|{}|{}", s.name(), pname, si));
                            let r = s.run_ov(p, script.clone());
                            n.fetch_add(1, std::sync::atomic::Ordering::Relaxed);
                            if let Outcome::Panic(m) = &r.outcome {
                                panics.push(format!("{}|{}|{:?}|{}", s.name(), pname, script, m));
                            }
                            if si == 0 {
                                for (name, r) in s.run_ov_builtins(p) {
                                    n.fetch_add(1, std::sync::atomic::Ordering::Relaxed);
                                    if let Err(m) = r {
                                        panics.push(format!("{}|{}|{name} via second source|{}", s.name(), pname, m));
                                    }
                                }
                            }
                            if p.json_representable() && si < 2 {
                                let j = p.to_json();
                                let r = s.run_json(&j, script.clone());
                                n.fetch_add(1, std::sync::atomic::Ordering::Relaxed);
                                if let Outcome::Panic(m) = &r.outcome {
                                    panics.push(format!("{}|{}|json {:?}|{}", s.name(), pname, script, m));
                                }
                                if si == 1 {
                                    if let Some(Err(m)) = s.run_jsonerror(&j) {
                                        panics.push(format!("{}|{}|JsonError|{}", s.name(), pname, m));
                                    }
                                    if let Some(Err(m)) = s.run_qperror(&j) {
                                        panics.push(format!("{}|{}|QueryParamError|{}", s.name(), pname, m));
                                    }
                                    n.fetch_add(2, std::sync::atomic::Ordering::Relaxed);
                                }
                            }
                        }
                    }
                }
                panics
            })
            .unwrap()
            .join()
    });
    let _ = std::fs::write(progress, "done");
    match res {
        Ok(panics) => {
            println!("CHILD-RUNS {}", n.load(std::sync::atomic::Ordering::Relaxed));
            for p in &panics {
                println!("CHILD-PANIC {p}");
            }
            0
        }
        Err(_) => 3,
    }
}

pub fn run(ctx: &Ctx, reg: &Registry) -> i32 {
    // child mode
    let argv: Vec<String> = std::env::args().collect();
    if let Some(pos) = argv.iter().position(|a| a == "--child") {
        let mib: usize = argv.get(pos + 1).and_then(|s| s.parse().ok()).unwrap_or(2);
        let progress = argv.get(pos + 2).cloned().unwrap_or_else(|| "/dev/null".into());
        return child(reg, mib, &progress);
    }
    let n_cases: u64 = ctx.tier.pick(300, 5000);
    let n_rand: u64 = ctx.tier.pick(4, 24);
    let mut acc = ctx.par(|shard, n| {
        let mut acc = Acc::new();
        for (si, s) in reg.subjects.iter().enumerate() {
            let s = s.as_ref();
            for i in 0..n_cases {
                if !shard_of(si as u64 * n_cases + i, shard, n) {
                    continue;
                }
                let case = gen_case(reg, s, ctx.seed.wrapping_add(1212), i, true);
                note_case(&mut acc, s, &case);
                check(&mut acc, s, &case, Source::Ov, Script::Continue);
                check(&mut acc, s, &case, Source::Ov, Script::Break);
                for j in 0..n_rand {
                    let sd = ctx.seed ^ (i << 7) ^ j;
                    check(&mut acc, s, &case, Source::Ov, if j % 2 == 0 { Script::Bits(sd) } else { Script::Coin(sd) });
                }
                for (pi, pol) in policies().into_iter().enumerate() {
                    if (i as usize + pi) % 3 == 0 {
                        check(&mut acc, s, &case, Source::Ov, pol);
                    }
                }
                if case.payload.json_representable() {
                    check(&mut acc, s, &case, Source::Json, Script::Continue);
                    check(&mut acc, s, &case, Source::Json, Script::Coin(ctx.seed ^ i));
                }
                builtin(&mut acc, s, &case);
                // a payload generated for ANOTHER type thrown at this one (wrong shapes at every position)
                let other = reg.subjects[(si + 1 + (i as usize % 7)) % reg.subjects.len()].as_ref();
                let alien = gen_case(reg, other, ctx.seed.wrapping_add(99), i, true);
                let alien = Case { payload: alien.payload, faults: vec!["payload-of-another-type"] };
                check(&mut acc, s, &alien, Source::Ov, Script::Continue);
                check(&mut acc, s, &alien, Source::Ov, Script::Coin(i));
                builtin(&mut acc, s, &alien);
                acc.sample(|| json!({"subject": s.name(), "payload": case.payload.show(), "faults": case.faults, "alien_payload": alien.payload.show()}));
            }
        }
        acc
    });
    // adversarial child processes: depth-128 nestings on 2 MiB and 8 MiB stacks
    let exe = std::env::current_exe().ok();
    // (both children run concurrently; each is single-threaded on its own small stack)
    let mut children = vec![];
    for mib in [2usize, 8] {
        let Some(exe) = &exe else {
            acc.inconclusive("cannot locate own executable for the child run");
            break;
        };
        let wdir = ctx.root.join("work");
        let _ = std::fs::create_dir_all(&wdir);
        let progress = wdir.join(format!("c12-progress-{}-{}mib.txt", std::process::id(), mib));
        let child = std::process::Command::new(exe)
            .args(["C12", "--tier", ctx.tier.name(), "--child", &mib.to_string(), progress.to_str().unwrap()])
            .stdout(std::process::Stdio::piped())
            .stderr(std::process::Stdio::piped())
            .spawn();
        children.push((mib, progress, child));
    }
    for (mib, progress, child) in children {
        // the child is watched by its own CPU time: 120 s of it on the deep payloads means one of the calls does not
        // return (an always-stop run of every subject on eight payloads normally takes a few seconds)
        let out = child.and_then(|mut c| {
            let pid = c.id();
            let mut stuck = None;
            loop {
                if c.try_wait()?.is_some() {
                    break;
                }
                std::thread::sleep(std::time::Duration::from_millis(500));
                if let Some(t) = monitor::watch::cpu_ticks_of(&format!("/proc/{pid}/stat")) {
                    if t / 100 >= 120 {
                        stuck = Some(t / 100);
                        let _ = c.kill();
                        let _ = c.wait();
                        break;
                    }
                }
            }
            if let Some(secs) = stuck {
                let last = std::fs::read_to_string(&progress).unwrap_or_default();
                acc.violation(
                    format!("C12/did-not-return-deep/{}", last.split('|').next().unwrap_or("?")),
                    "deserialize did not return on a depth-128 payload",
                    json!({"stack_mib": mib, "cpu_seconds": secs, "last_case(subject|payload|script)": last}),
                );
                let _ = std::fs::remove_file(&progress);
                return Err(std::io::Error::new(std::io::ErrorKind::TimedOut, "reported"));
            }
            c.wait_with_output()
        });
        match out {
            Err(e) if e.kind() == std::io::ErrorKind::TimedOut => {}
            Err(e) => acc.inconclusive(format!("child process could not be started: {e}")),
            Ok(o) => {
                let stdout = String::from_utf8_lossy(&o.stdout).to_string();
                let last = std::fs::read_to_string(&progress).unwrap_or_default();
                if o.status.code() == Some(4) {
                    acc.violation(
                        format!("C12/did-not-return-deep/{}", last.split('|').next().unwrap_or("?")),
                        "deserialize did not return on a depth-128 payload",
                        json!({"stack_mib": mib, "last_case(subject|payload|script)": last, "child_output": stdout.lines().filter(|l| l.starts_with("CHILD-STUCK")).collect::<Vec<_>>()}),
                    );
                } else if !o.status.success() {
                    use std::os::unix::process::ExitStatusExt;
                    let sig = o.status.signal();
                    acc.violation(
                        format!("C12/abnormal-termination/{}", last.split('|').next().unwrap_or("?")),
                        "deserialize terminated the process (stack overflow / abort) at nesting depth 128",
                        json!({"stack_mib": mib, "signal": sig, "exit": o.status.code(), "last_case(subject|payload|script)": last, "stderr": String::from_utf8_lossy(&o.stderr).chars().take(600).collect::<String>()}),
                    );
                } else {
                    for l in stdout.lines() {
                        if let Some(n) = l.strip_prefix("CHILD-RUNS ") {
                            let k: u64 = n.trim().parse().unwrap_or(0);
                            acc.add(&format!("deep_runs_on_{mib}MiB_stack"), k);
                            acc.evaluations += k;
                            acc.nontrivial(&("deep", mib));
                        }
                        if let Some(p) = l.strip_prefix("CHILD-PANIC ") {
                            let parts: Vec<&str> = p.split('|').collect();
                            acc.violation(
                                format!("C12/panic-deep/{}", parts.last().and_then(|m| m.rsplit(" at ").next()).unwrap_or("?")),
                                "deserialize panicked on a depth-128 payload",
                                json!({"stack_mib": mib, "case": p}),
                            );
                        }
                    }
                }
                let _ = std::fs::remove_file(&progress);
            }
        }
    }
    ctx.finish(
        acc,
        Finish {
            level: "fault_enumeration",
            rule: "every catalogue (+generated) subject x hostile generated payloads (wrong kinds at every position, arity faults, duplicate keys, non-finite floats, non-canonical numbers, payloads generated for a different type) x answer scripts (Continue, Break, random 3/4 and 1/2) x both value sources x built-in error types (JsonError / QueryParamError, through serde_json AND through the second value source), each call under catch_unwind; plus child processes running every subject on eight depth-128 nestings on 2 MiB and 8 MiB thread stacks, whose termination status is observed. Non-trivial = payload carries at least one injected fault or produced a report; distinct = (subject, fault signature, trace shape).".into(),
            exhaustive: false,
            assumptions: vec!["depth is limited to 128 (serde_json's own parsing limit) and stacks to >= 2 MiB (Rust's default thread stack)".into()],
        },
    )
}
