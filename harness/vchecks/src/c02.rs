//! C02 — keep-going error types receive every independent fault exactly once.
use crate::bodies::*;
use crate::common::*;
use serde_json::json;
use subjects::{Registry, Subject};
use vcore::evidence::{Acc, Finish};
use vcore::{Ctx, Ov};

const A: Aspects = Aspects { value: false, reports: true, handovers: false, examined: true, calls: false };

fn run_both(acc: &mut Acc, reg: &Registry, s: &dyn Subject, case: &Case) {
    let r = model_case(acc, reg, "C02", s, case, Source::Ov, &A);
    acc.sample(|| json!({"subject": s.name(), "payload": case.payload.show(), "faults": case.faults, "trace": r.trace_lines(10)}));
    if case.payload.json_representable() {
        model_case(acc, reg, "C02", s, case, Source::Json, &A);
    }
}

/// per-field state product for a struct-like body
fn state_product(reg: &Registry, s: &dyn Subject, body: &Body, seed: u64, cap: usize, f: &mut dyn FnMut(Case)) -> u64 {
    let fields: Vec<_> = body.fields.iter().filter(|f| !f.skip).collect();
    let n = fields.len();
    if n == 0 || n > 6 {
        return 0;
    }
    let h = vcore::evidence::hash64(s.name());
    let valid: Vec<Ov> = fields.iter().enumerate().map(|(i, fd)| valid_value(&reg.defs, &fd.ty, seed, h, i as u64)).collect();
    let total: u64 = 5u64.pow(n as u32) * 3;
    let stride = (total / cap as u64).max(1);
    let mut produced = 0;
    let mut idx = 0u64;
    while idx < total {
        let mut x = idx;
        let extra = x % 3;
        x /= 3;
        let mut members = vec![];
        for (i, fd) in fields.iter().enumerate() {
            let st = x % 5;
            x /= 5;
            let v = match st {
                0 => continue,
                1 => valid[i].clone(),
                2 => Ov::Null,
                3 => {
                    if matches!(strip(&fd.ty), refmodel::Ty::Vec(_) | refmodel::Ty::Set(_) | refmodel::Ty::Array(..) | refmodel::Ty::Tuple(_)) {
                        Ov::str("not-a-list")
                    } else {
                        Ov::Seq(vec![Ov::Int(1)])
                    }
                }
                _ => match strip(&fd.ty) {
                    refmodel::Ty::UInt { bits, .. } if *bits < 64 => Ov::Int(1u64 << *bits),
                    refmodel::Ty::Int { bits, .. } if *bits < 64 => Ov::Neg(-(1i64 << (*bits - 1)) - 1),
                    refmodel::Ty::Char => Ov::str("ab"),
                    _ => Ov::Map(vec![("zz".into(), Ov::Bool(false))]),
                },
            };
            members.push((fd.key.clone(), v));
        }
        match extra {
            1 => members.push(("zzz_unknown".into(), Ov::Int(1))),
            2 => {
                let k = refmodel::payload::one_edit(&mut vcore::Rng::new(idx), &fields[0].key);
                if !body.fields.iter().any(|f| f.key == k) && body.tag.as_ref().map(|t| t.0 != k).unwrap_or(true) {
                    members.insert(0, (k, Ov::str("near")));
                }
            }
            _ => {}
        }
        f(Case { payload: assemble(body, members, (idx % 3) as usize), faults: vec!["field-state-product"] });
        produced += 1;
        idx += stride;
    }
    produced
}

pub fn run(ctx: &Ctx, reg: &Registry) -> i32 {
    let n_cases: u64 = ctx.tier.pick(600, 8000);
    let n_base: u64 = ctx.tier.pick(3, 20);
    let cap: usize = ctx.tier.pick(1500, 20000);
    let acc = ctx.par(|shard, n| {
        let mut acc = Acc::new();
        let mut unit = 0u64;
        for s in reg.subjects.iter() {
            let s = s.as_ref();
            for i in 0..n_cases {
                unit += 1;
                if !shard_of(unit, shard, n) {
                    continue;
                }
                let case = gen_case(reg, s, ctx.seed.wrapping_add(202), i, false);
                note_case(&mut acc, s, &case);
                run_both(&mut acc, reg, s, &case);
                // duplicate object members and aliased map keys (second value source only). The model processes
                // repeated keys in enumeration order like any other entry: every entry is examined, every fault
                // reported once; the compared aspects (reports, examined nodes) do not depend on which value wins.
                if i % 3 == 0 {
                    let case = gen_case_h(reg, s, ctx.seed.wrapping_add(2021), i, Host { dup: true, nonfinite: false, noncanon: false, alias: true });
                    if !unique_keys(&case.payload) || case.faults.contains(&"aliased-map-key") {
                        note_case(&mut acc, s, &case);
                        run_both(&mut acc, reg, s, &case);
                        acc.count("payloads_with_repeated_or_aliased_keys");
                    }
                }
                // non-finite floats (second value source only): the only faults a serde_json::Value target can have
                if i % 4 == 0 {
                    let case = gen_case_h(reg, s, ctx.seed.wrapping_add(2020), i, Host { dup: false, nonfinite: true, noncanon: false, alias: false });
                    if !case.payload.json_representable() {
                        note_case(&mut acc, s, &case);
                        run_both(&mut acc, reg, s, &case);
                        acc.count("payloads_with_non_finite_floats");
                    }
                }
            }
            for b in 0..n_base {
                unit += 1;
                if !shard_of(unit, shard, n) {
                    continue;
                }
                let base = valid_case(reg, s, ctx.seed, b, 2 + (b as usize % 3));
                if base.size() > 150 {
                    continue;
                }
                let muts = mutations(&base);
                for (j, (tag, m)) in muts.iter().enumerate() {
                    run_both(&mut acc, reg, s, &Case { payload: m.clone(), faults: vec![tag] });
                    acc.count("systematic_single_mutations");
                    // faults placed after other faults: a second fault (an intruder at another position) on top
                    let paths = all_paths(m);
                    let k = (j * 7919 + b as usize * 31) % paths.len();
                    let m2 = replace_at(m, &paths[k], &intruders()[(j + k) % 8]);
                    run_both(&mut acc, reg, s, &Case { payload: m2, faults: vec![tag, "intruder"] });
                    acc.count("systematic_double_mutations");
                }
            }
            for body in bodies(&reg.defs, s.ty()) {
                unit += 1;
                if !shard_of(unit, shard, n) {
                    continue;
                }
                let mut cases = vec![];
                let k = state_product(reg, s, &body, ctx.seed, cap, &mut |c| cases.push(c));
                for c in &cases {
                    run_both(&mut acc, reg, s, c);
                }
                acc.add("field_state_product_payloads", k);
                acc.note("state_product_bodies", &body.label);
            }
        }
        acc
    });
    ctx.finish(
        acc,
        Finish {
            level: "exploration",
            rule: "keep-going script only. Oracle: the multiset of (wording-free digest, location) of the reports held by the returned error == the multiset predicted by the reference interpreter (DESIGN.md Appendix A); every Unexpected message contains the facts the model lists (number+bound, key, ...); every node the model deserializes has an Examine event (instrumented source). Workloads: random multi-fault payloads (up to 35% fault rate per node, 0-30% extra keys), both sources; every single structural mutation of valid payloads (intruder of each kind at every position, element removed/duplicated/swapped/appended, member removed/rotated/added) and a second mutation on top; the per-field state product {absent, valid, null, wrong kind, out of domain}^n x {no extra, unknown, near-miss key} for every struct-like body with n <= 6 fields (complete in the thorough tier when 3*5^n <= 20000, strided otherwise). Non-trivial = at least one report; distinct = (subject, fault signature, trace shape).".into(),
            exhaustive: false,
            assumptions: vec!["the reference interpreter encodes the documented semantics (validated against the implementation on 10^5+ payloads; a disagreement on a fault-free control payload would make every check of this family fire at once)".into()],
        },
    )
}
