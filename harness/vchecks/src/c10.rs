//! C10 — enum dispatch: the tag or string selects exactly the named variant.
use crate::bodies::*;
use crate::common::*;
use refmodel::payload::{flip_case, one_edit};
use refmodel::{Def, Ty};
use serde_json::json;
use subjects::{Registry, Subject};
use vcore::evidence::{Acc, Finish};
use vcore::{Ctx, Ov, Rng};

const A: Aspects = Aspects { value: true, reports: true, handovers: false, examined: false, calls: false };

fn check(acc: &mut Acc, reg: &Registry, s: &dyn Subject, payload: Ov, what: &'static str) {
    let case = Case { payload, faults: vec![what] };
    let r = model_case(acc, reg, "C10", s, &case, Source::Ov, &A);
    match &r.outcome {
        monitor::Outcome::Ok(p) => {
            acc.nontrivial(&(s.name(), p.show()));
            acc.count("variants_selected_and_compared");
        }
        _ => acc.count("rejections_compared"),
    }
    acc.count(&format!("tags.{what}"));
    if case.payload.json_representable() {
        model_case(acc, reg, "C10", s, &case, Source::Json, &A);
    }
    acc.sample(|| json!({"subject": s.name(), "payload": case.payload.show(), "outcome": r.outcome.show()}));
}

fn name_variants(rng: &mut Rng, key: &str, ident: &str) -> Vec<(&'static str, String)> {
    vec![
        ("exact", key.to_string()),
        ("identifier", ident.to_string()),
        ("case-flipped", flip_case(key)),
        ("lowercase", key.to_lowercase()),
        ("uppercase", key.to_uppercase()),
        ("one-edit", one_edit(rng, key)),
        ("prefix", key.chars().take(key.chars().count().saturating_sub(1)).collect()),
        ("suffixed", format!("{key} ")),
        ("empty", String::new()),
    ]
}

pub fn run(ctx: &Ctx, reg: &Registry) -> i32 {
    let n_cases: u64 = ctx.tier.pick(500, 8000);
    let n_var: u64 = ctx.tier.pick(4, 16);
    let acc = ctx.par(|shard, n| {
        let mut acc = Acc::new();
        let mut unit = 0u64;
        for s in reg.subjects.iter().filter(|s| s.has("enum") || s.has("unit-enum") || s.has("generated") || s.has("nested")) {
            let s = s.as_ref();
            let h = vcore::evidence::hash64(s.name());
            // random payloads (the generator's tag faults: missing, non-string, near miss, identifier)
            for i in 0..n_cases {
                unit += 1;
                if !shard_of(unit, shard, n) {
                    continue;
                }
                let case = gen_case(reg, s, ctx.seed.wrapping_add(1010), i, false);
                note_case(&mut acc, s, &case);
                model_case(&mut acc, reg, "C10", s, &case, Source::Ov, &A);
                if case.payload.json_representable() {
                    model_case(&mut acc, reg, "C10", s, &case, Source::Json, &A);
                }
            }
            let Ty::Named(nm) = strip(s.ty()) else { continue };
            match reg.defs.0.get(nm) {
                Some(Def::UnitEnum(u)) => {
                    unit += 1;
                    if !shard_of(unit, shard, n) {
                        continue;
                    }
                    let mut rng = Rng::derive(ctx.seed, h, 10);
                    for (ident, key) in &u.variants {
                        for (what, name) in name_variants(&mut rng, key, ident) {
                            check(&mut acc, reg, s, Ov::Str(name), what);
                        }
                    }
                    for intr in intruders() {
                        check(&mut acc, reg, s, intr, "non-string");
                    }
                    acc.note("enums", &u.name);
                }
                Some(Def::Enum(e)) => {
                    for var in 0..n_var {
                        unit += 1;
                        if !shard_of(unit, shard, n) {
                            continue;
                        }
                        acc.note("enums", &e.name);
                        let mut rng = Rng::derive(ctx.seed, h, 100 + var);
                        let bodies_of: Vec<Vec<(String, Ov)>> = e
                            .variants
                            .iter()
                            .enumerate()
                            .map(|(vi, v)| match &v.fields {
                                None => vec![],
                                Some(fs) => fs.iter().filter(|f| !f.skip && f.key != e.tag).enumerate().map(|(fi, f)| (f.key.clone(), valid_value(&reg.defs, &f.ty, ctx.seed ^ h, (vi * 16 + fi) as u64, var))).collect(),
                            })
                            .collect();
                        for (vi, v) in e.variants.iter().enumerate() {
                            // fields valid for this variant, for the next variant (shared names, other types), none
                            let field_sets = [("own-fields", bodies_of[vi].clone()), ("fields-of-another-variant", bodies_of[(vi + 1) % e.variants.len()].clone()), ("no-fields", vec![])];
                            for (fw, fields) in &field_sets {
                                for (what, name) in name_variants(&mut rng, &v.key, &v.ident) {
                                    for pos in [0usize, 1, usize::MAX] {
                                        let mut m = fields.clone();
                                        let p = pos.min(m.len());
                                        m.insert(p, (e.tag.clone(), Ov::Str(name.clone())));
                                        check(&mut acc, reg, s, Ov::Map(m), what);
                                    }
                                }
                                let _ = fw;
                                for intr in intruders() {
                                    let mut m = fields.clone();
                                    m.insert(m.len() / 2, (e.tag.clone(), intr));
                                    check(&mut acc, reg, s, Ov::Map(m), "non-string-tag");
                                }
                                check(&mut acc, reg, s, Ov::Map(fields.clone()), "tag-missing");
                                // the tag key under a different spelling does not count as the tag
                                let mut m = fields.clone();
                                m.insert(0, (flip_case(&e.tag), Ov::Str(v.key.clone())));
                                if flip_case(&e.tag) != e.tag {
                                    check(&mut acc, reg, s, Ov::Map(m), "tag-key-case-flipped");
                                }
                            }
                        }
                    }
                }
                _ => {}
            }
        }
        acc
    });
    ctx.finish(
        acc,
        Finish {
            level: "exploration",
            rule: "every tagged and unit enum of the catalogue (+ generated): for EVERY variant the tag / string takes the exact effective name, the identifier, case-flipped, lowercase, uppercase, one-edit, prefix, suffixed and empty spellings; non-string tags of all 8 kinds; missing tag; the tag key itself case-flipped; tag first / second / last; each with the variant's own fields, the fields of another variant (shared names with different types) and none. Plus random payloads with the generator's tag faults for all enum-bearing subjects. Oracle vs the reference interpreter: chosen variant (projection by variant identifier), fields read by that variant's rules from the remaining entries, exact reports (MissingField{tag}@enum, Kind{String}@tag, error@enum for an unknown name - never an Ok; UnknownValue with all names in declaration order for unit enums). Non-trivial = every case here (each is a selected variant or a rejection); distinct = (subject, value) or trace shape.".into(),
            exhaustive: false,
            assumptions: vec![],
        },
    )
}
