//! Program generator: emits N random derive inputs (Rust source) together with their description
//! (effective keys computed HERE by the documented renaming rules, never by the macro), a `ToProj`
//! impl per type and a registry; everything deterministic in --seed.
//!
//!   gen --seed S --count N --out DIR --harness /verif/harness
use refmodel::types::*;
use std::fmt::Write as _;
use vcore::{Proj, Rng};

const KEYWORDS: &[&str] = &[
    "as", "break", "const", "continue", "crate", "else", "enum", "extern", "false", "fn", "for", "if", "impl", "in", "let", "loop", "match", "mod", "move", "mut", "pub", "ref", "return", "self", "static",
    "struct", "super", "trait", "true", "type", "unsafe", "use", "where", "while", "async", "await", "dyn", "abstract", "become", "box", "do", "final", "macro", "override", "priv", "typeof", "unsized",
    "virtual", "yield", "try", "gen", "union", "str", "u8", "i8", "ok", "err", "some", "none",
];
const RAW_KEYWORDS: &[&str] = &["type", "match", "fn", "loop", "ref", "mod", "use", "where"];

#[derive(Clone)]
struct FieldSrc {
    /// identifier as written in Rust (with r# when raw)
    rust_ident: String,
    /// declared (final) Rust type
    rust_ty: String,
    attrs: Vec<String>,
    def: FieldDef,
}

type Reqs = std::collections::BTreeSet<&'static str>;

struct Program {
    name: String,
    source: String,
    def: Def,
    tags: Vec<&'static str>,
    reqs: Reqs,
    control: bool,
}

struct G {
    rng: Rng,
    /// earlier generated programs usable as field types: (name, MergeWithError<_> bounds they need)
    earlier: Vec<(String, Reqs)>,
    /// name of the program being generated (for self-recursive fields)
    current: Option<String>,
}

fn word(rng: &mut Rng) -> String {
    loop {
        let n = 2 + rng.below(5);
        let mut s = String::new();
        for _ in 0..n {
            s.push((b'a' + rng.below(26) as u8) as char);
        }
        if rng.chance(1, 5) {
            s.push((b'0' + rng.below(10) as u8) as char);
        }
        if !KEYWORDS.contains(&s.as_str()) && !s.starts_with("deserr") {
            return s;
        }
    }
}

fn snake_ident(rng: &mut Rng) -> String {
    let n = 1 + rng.below(3);
    (0..n).map(|_| word(rng)).collect::<Vec<_>>().join("_")
}

fn pascal_ident(rng: &mut Rng) -> String {
    let n = 1 + rng.below(3);
    (0..n)
        .map(|_| {
            let k = 2 + rng.below(5);
            let mut s = String::new();
            s.push((b'A' + rng.below(26) as u8) as char);
            for _ in 0..k {
                s.push((b'a' + rng.below(26) as u8) as char);
            }
            // a digit at the end of a word ("V2Beta", "Utf8Lossy"): camelCase of a PascalCase identifier only
            // lowers the first letter, whatever follows a digit keeps its case
            if rng.chance(1, 6) {
                s.push((b'0' + rng.below(10) as u8) as char);
            }
            s
        })
        .collect::<Vec<_>>()
        .join("")
}

/// camelCase for the identifier shapes generated here (words of [a-z]+[0-9]? joined by `_`, or
/// PascalCase words): first word lower-cased, later words capitalised, separators dropped.
fn camel(ident: &str) -> String {
    if ident.contains('_') || ident.chars().next().map(|c| c.is_ascii_lowercase()).unwrap_or(false) {
        let mut out = String::new();
        for (i, w) in ident.split('_').filter(|w| !w.is_empty()).enumerate() {
            if i == 0 {
                out.push_str(&w.to_lowercase());
            } else {
                let mut cs = w.chars();
                if let Some(c) = cs.next() {
                    out.extend(c.to_uppercase());
                    out.push_str(cs.as_str());
                }
            }
        }
        out
    } else {
        // PascalCase: only the first letter changes
        let mut cs = ident.chars();
        let mut out = String::new();
        if let Some(c) = cs.next() {
            out.extend(c.to_lowercase());
        }
        out.push_str(cs.as_str());
        out
    }
}

#[derive(Clone, Copy, PartialEq)]
enum RenameAll {
    None,
    Camel,
    Lower,
}

fn effective(ident: &str, rename: &Option<String>, ra: RenameAll) -> String {
    match rename {
        Some(r) => r.clone(),
        None => match ra {
            RenameAll::None => ident.to_string(),
            RenameAll::Camel => camel(ident),
            RenameAll::Lower => ident.to_lowercase(),
        },
    }
}

fn rust_ty(t: &Ty) -> String {
    match t {
        Ty::Unit => "()".into(),
        Ty::Bool => "bool".into(),
        Ty::Char => "char".into(),
        Ty::Str => "String".into(),
        Ty::UInt { bits, nonzero: false } => format!("u{bits}"),
        Ty::Int { bits, nonzero: false } => format!("i{bits}"),
        Ty::UInt { bits, nonzero: true } => format!("std::num::NonZeroU{bits}"),
        Ty::Int { bits, nonzero: true } => format!("std::num::NonZeroI{bits}"),
        Ty::F32 => "f32".into(),
        Ty::F64 => "f64".into(),
        Ty::Json => "serde_json::Value".into(),
        Ty::Phantom => "std::marker::PhantomData<u8>".into(),
        Ty::Option(t) => format!("Option<{}>", rust_ty(t)),
        Ty::Boxed(t) => format!("Box<{}>", rust_ty(t)),
        Ty::Vec(t) => format!("Vec<{}>", rust_ty(t)),
        Ty::Set(t) => format!("std::collections::HashSet<{}>", rust_ty(t)),
        Ty::Array(t, n) => format!("[{}; {}]", rust_ty(t), n),
        Ty::Tuple(ts) => format!("({})", ts.iter().map(rust_ty).collect::<Vec<_>>().join(", ")),
        Ty::Map(k, t) => format!(
            "std::collections::BTreeMap<{}, {}>",
            match k {
                KeyTy::Str => "String",
                KeyTy::U8 => "u8",
                KeyTy::I16 => "i16",
                KeyTy::Char => "char",
                KeyTy::Bool => "bool",
            },
            rust_ty(t)
        ),
        Ty::Cs(c) => format!(
            "serde_cs::vec::CS<{}>",
            match c {
                CsTy::U8 => "u8",
                CsTy::I16 => "i16",
                CsTy::Str => "String",
            }
        ),
        Ty::Named(n) if n == "UnitE" || n == "Plain" => format!("subjects::catalogue::{n}"),
        Ty::Named(n) => n.clone(),
    }
}

/// Projection of `Default::default()` for a type, when the type has one.
fn default_proj(t: &Ty) -> Option<Proj> {
    Some(match t {
        Ty::Unit => Proj::Unit,
        Ty::Bool => Proj::Bool(false),
        Ty::Char => Proj::Char('\0'),
        Ty::Str => Proj::Str(String::new()),
        Ty::UInt { nonzero: false, .. } => Proj::UInt(0),
        Ty::Int { nonzero: false, .. } => Proj::Int(0),
        Ty::UInt { .. } | Ty::Int { .. } => return None,
        Ty::F32 => Proj::F32(0),
        Ty::F64 => Proj::F64(0),
        Ty::Json => Proj::Json("null".into()),
        Ty::Phantom => Proj::Phantom,
        Ty::Option(_) => Proj::None,
        Ty::Boxed(t) => default_proj(t)?,
        Ty::Vec(_) => Proj::Seq(vec![]),
        Ty::Set(_) => Proj::Set(Default::default()),
        Ty::Array(t, n) => Proj::Seq((0..*n).map(|_| default_proj(t)).collect::<Option<Vec<_>>>()?),
        Ty::Tuple(ts) => Proj::Seq(ts.iter().map(default_proj).collect::<Option<Vec<_>>>()?),
        Ty::Map(..) => Proj::Map(Default::default()),
        Ty::Cs(_) => Proj::Seq(vec![]),
        Ty::Named(n) if n == "UnitE" => Proj::Variant("UnitE".into(), "Alpha".into(), vec![]),
        Ty::Named(n) if n == "Plain" => Proj::Struct("Plain".into(), vec![("a".into(), Proj::UInt(0)), ("b".into(), Proj::Str(String::new())), ("c".into(), Proj::Bool(false))]),
        Ty::Named(_) => return None,
    })
}

/// `default = expr` choices: (Rust expression, projection)
fn default_exprs(t: &Ty) -> Vec<(String, Proj)> {
    match t {
        Ty::UInt { bits: 8, nonzero: false } => vec![("subjects::vf::dflt_u8()".into(), Proj::UInt(42)), ("7".into(), Proj::UInt(7))],
        Ty::UInt { nonzero: false, .. } => vec![("11".into(), Proj::UInt(11))],
        Ty::Int { nonzero: false, .. } => vec![("-3".into(), Proj::Int(-3))],
        Ty::Str => vec![("subjects::vf::dflt_string()".into(), Proj::Str("dflt".into())), ("String::from(\"x y\")".into(), Proj::Str("x y".into()))],
        Ty::Bool => vec![("true".into(), Proj::Bool(true))],
        Ty::Char => vec![("'q'".into(), Proj::Char('q'))],
        Ty::Option(t) if **t == u(8) => vec![("Some(3)".into(), Proj::Some(Box::new(Proj::UInt(3))))],
        Ty::Vec(t) if **t == u(8) => vec![("vec![1, 2]".into(), Proj::Seq(vec![Proj::UInt(1), Proj::UInt(2)]))],
        _ => vec![],
    }
}

/// `map = f` choices for a (final) type
fn map_fn(t: &Ty) -> Option<&'static str> {
    match t {
        Ty::UInt { bits: 8, nonzero: false } => Some("inc_u8"),
        Ty::UInt { bits: 64, nonzero: false } => Some("inc_u64"),
        Ty::Int { bits: 16, nonzero: false } => Some("neg_i16"),
        Ty::Str => Some("upper"),
        Ty::Bool => Some("not_bool"),
        Ty::Option(t) if **t == u(8) => Some("some_to_none_if_zero"),
        Ty::Vec(t) if **t == u(8) => Some("push_seven"),
        _ => None,
    }
}

/// conversion choices: (final type, intermediate type, attribute text, Conv)
fn conv_choices() -> Vec<(Ty, Ty, &'static str, Conv)> {
    vec![
        (Ty::Str, u(64), "from(u64) = subjects::vf::u64_to_string", Conv::From("u64_to_string".into())),
        (u(64), Ty::Str, "from(&String) = subjects::vf::len_of_ref_u64", Conv::From("len_of_ref".into())),
        (u(64), vec(u(8)), "from(Vec<u8>) = subjects::vf::vec_sum", Conv::From("vec_sum".into())),
        (u(64), u(64), "try_from(u64) = subjects::vf::try_even -> subjects::vf::Odd", Conv::TryFrom("try_even".into())),
        (u(64), u(64), "try_from(&u64) = subjects::vf::try_even_ref -> subjects::vf::Odd", Conv::TryFrom("try_even_ref".into())),
        (Ty::Str, Ty::Str, "try_from(&String) = subjects::vf::try_ascii_ref -> subjects::vf::NotAscii", Conv::TryFrom("try_ascii_ref".into())),
        (i(64), i(64), "try_from(i64) = subjects::vf::try_small -> subjects::vf::TooBig", Conv::TryFrom("try_small".into())),
    ]
}

impl G {
    fn scalar(&mut self) -> Ty {
        match self.rng.below(14) {
            0 => u(8),
            1 => u(16),
            2 => u(32),
            3 => u(64),
            4 => i(8),
            5 => i(16),
            6 => i(32),
            7 => i(64),
            8 => Ty::Bool,
            9 => Ty::Str,
            10 => Ty::Char,
            11 => Ty::UInt { bits: 8, nonzero: true },
            12 => Ty::F64,
            _ => Ty::Str,
        }
    }

    /// (type, MergeWithError<_> bounds needed by generated types inside it)
    fn ty(&mut self, depth: usize) -> (Ty, Reqs) {
        if depth >= 3 {
            return (self.scalar(), Reqs::new());
        }
        // self-recursion, always behind Option<Box<_>> or Vec<_> so that finite payloads exist
        if depth == 0 && self.rng.chance(1, 25) {
            if let Some(me) = self.current.clone() {
                return if self.rng.chance(1, 2) { (opt(bx(named(&me))), Reqs::new()) } else { (vec(named(&me)), Reqs::new()) };
            }
        }
        match self.rng.below(20) {
            0..=7 => (self.scalar(), Reqs::new()),
            8 | 9 => {
                let (t, r) = self.ty(depth + 1);
                (opt(t), r)
            }
            10 | 11 => {
                let (t, r) = self.ty(depth + 1);
                (vec(t), r)
            }
            12 => {
                let (t, r) = self.ty(depth + 1);
                (bx(t), r)
            }
            13 => {
                let (t, r) = self.ty(depth + 1);
                let n = self.rng.below(4);
                (arr(t, n), r)
            }
            14 => {
                let k = 2 + self.rng.below(2);
                let mut ts = vec![];
                let mut r = Reqs::new();
                for _ in 0..k {
                    let (t, rr) = self.ty(depth + 1);
                    ts.push(t);
                    r.extend(rr);
                }
                (tup(ts), r)
            }
            15 => {
                let (t, r) = self.ty(depth + 1);
                (map(if self.rng.chance(1, 2) { KeyTy::Str } else { KeyTy::U8 }, t), r)
            }
            16 => (set(u(8)), Reqs::new()),
            17 => (if self.rng.chance(1, 2) { Ty::Json } else { named("UnitE") }, Reqs::new()),
            _ => {
                if self.earlier.is_empty() {
                    (named("UnitE"), Reqs::new())
                } else {
                    let (n, r) = self.earlier[self.rng.below(self.earlier.len())].clone();
                    (named(&n), r)
                }
            }
        }
    }

    fn rename_lit(&mut self) -> String {
        match self.rng.below(4) {
            0 => pascal_ident(&mut self.rng),
            1 => snake_ident(&mut self.rng).to_uppercase(),
            2 => format!("{}{}", word(&mut self.rng), self.rng.below(100)),
            _ => snake_ident(&mut self.rng),
        }
    }

    /// fields of a struct-like body; `ra` = the rename_all in scope; `taken` = keys that may not be used (the tag)
    fn fields(&mut self, n: usize, ra: RenameAll, tag: Option<&str>, collide_with_tag: bool, plain: bool) -> (Vec<FieldSrc>, Reqs) {
        'retry: loop {
            let mut out: Vec<FieldSrc> = vec![];
            let mut uses_rec2 = Reqs::new();
            for fi in 0..n {
                let raw = !plain && self.rng.chance(1, 12);
                let mut ident = if raw { self.rng.pick(RAW_KEYWORDS).to_string() } else { snake_ident(&mut self.rng) };
                // leading / trailing / doubled underscores where only the case may change (camelCase has no single
                // reading for them)
                if !plain && !raw && ra != RenameAll::Camel && self.rng.chance(1, 15) {
                    ident = match self.rng.below(3) {
                        0 => format!("_{ident}"),
                        1 => format!("{ident}_"),
                        _ => ident.replacen('_', "__", 1),
                    };
                }
                if out.iter().any(|f| f.def.ident == ident) {
                    continue 'retry;
                }
                let rust_ident = if raw { format!("r#{ident}") } else { ident.clone() };
                let mut attrs: Vec<String> = vec![];
                let (mut t, mut inner_r2) = self.ty(0);
                let _ = &mut t;
                let mut final_ty = t.clone();
                let mut def = FieldDef::plain(&ident, t.clone());
                if !plain {
                    // conversions
                    if self.rng.chance(3, 20) {
                        let cs = conv_choices();
                        let c = cs[self.rng.below(cs.len())].clone();
                        final_ty = c.0;
                        t = c.1;
                        inner_r2 = Reqs::new();
                        if let Some(e) = ["Odd", "NotAscii", "TooBig"].iter().find(|e| c.2.ends_with(&format!("::{e}"))) {
                            uses_rec2.insert(e);
                        }
                        attrs.push(c.2.to_string());
                        def.ty = t.clone();
                        def.conv = c.3;
                    }
                    let dflt = default_proj(&final_ty);
                    let skip = dflt.is_some() && def.conv == Conv::None && self.rng.chance(1, 10);
                    if skip {
                        attrs.push("skip".into());
                        def.skip = true;
                        def.default = dflt.clone();
                        if self.rng.chance(1, 4) {
                            let ex = default_exprs(&final_ty);
                            if !ex.is_empty() {
                                let (e, p) = ex[self.rng.below(ex.len())].clone();
                                attrs.push(format!("default = {e}"));
                                def.default = Some(p);
                            }
                        }
                        // C11: `map` runs once per field of a container that succeeded, skipped fields included
                        if let Some(m) = map_fn(&final_ty) {
                            if self.rng.chance(1, 4) {
                                attrs.push(format!("map = subjects::vf::{m}"));
                                def.map = Some(m.into());
                            }
                        }
                    } else {
                        if self.rng.chance(1, 5) {
                            let lit = self.rename_lit();
                            attrs.push(format!("rename = \"{lit}\""));
                            def.key = lit;
                        }
                        let ex = default_exprs(&final_ty);
                        if !ex.is_empty() && self.rng.chance(1, 8) {
                            let (e, p) = ex[self.rng.below(ex.len())].clone();
                            attrs.push(format!("default = {e}"));
                            def.default = Some(p);
                        } else if dflt.is_some() && self.rng.chance(1, 5) {
                            attrs.push("default".into());
                            def.default = dflt.clone();
                        } else if self.rng.chance(1, 8) {
                            let f = if self.rng.chance(1, 2) { "missing_mf" } else { "missing_unexp" };
                            attrs.push(format!("missing_field_error = subjects::vf::{f}::<__Deserr_E>"));
                            def.missing_fn = Some(f.into());
                        }
                        // both on one field: the default wins and the function is never called
                        if def.default.is_some() && def.missing_fn.is_none() && self.rng.chance(1, 5) {
                            let f = if self.rng.chance(1, 2) { "missing_mf" } else { "missing_unexp" };
                            attrs.push(format!("missing_field_error = subjects::vf::{f}::<__Deserr_E>"));
                            def.missing_fn = Some(f.into());
                        }
                        if let Some(m) = map_fn(&final_ty) {
                            if self.rng.chance(1, 6) {
                                attrs.push(format!("map = subjects::vf::{m}"));
                                def.map = Some(m.into());
                            }
                        }
                        if self.rng.chance(1, 12) {
                            attrs.push("error = monitor::Rec2".into());
                            def.err2 = true;
                            uses_rec2.insert("Rec2");
                        }
                    }
                }
                if def.key == def.ident {
                    def.key = effective(&ident, &None, if def.skip { RenameAll::None } else { ra });
                }
                if fi == 0 && collide_with_tag && !def.skip {
                    // a field whose key is the tag (absent by construction)
                    if let Some(t) = tag {
                        attrs.retain(|a| !a.starts_with("rename"));
                        attrs.push(format!("rename = \"{t}\""));
                        def.key = t.to_string();
                    }
                }
                uses_rec2.extend(inner_r2);
                self.rng.shuffle(&mut attrs);
                out.push(FieldSrc { rust_ident, rust_ty: rust_ty(&final_ty), attrs, def });
            }
            // effective keys unique among non-skipped fields, distinct from the tag unless chosen to collide,
            // and no skipped field's name equal to a live key (keeps "name of a skipped field" unambiguous)
            for (i, f) in out.iter().enumerate() {
                if f.def.skip {
                    if out.iter().any(|g| !g.def.skip && g.def.key == f.def.key) {
                        continue 'retry;
                    }
                    continue;
                }
                if out[..i].iter().any(|g| !g.def.skip && g.def.key == f.def.key) {
                    continue 'retry;
                }
                if let Some(t) = tag {
                    if f.def.key == t && !(collide_with_tag && i == 0) {
                        continue 'retry;
                    }
                }
            }
            return (out, uses_rec2);
        }
    }

    fn container_choices(&mut self, plain: bool) -> (RenameAll, Deny, Option<String>) {
        let mut ra = RenameAll::None;
        let mut deny = Deny::No;
        let mut validate = None;
        if !plain {
            match self.rng.below(5) {
                0 => ra = RenameAll::Camel,
                1 => ra = RenameAll::Lower,
                _ => {}
            }
            match self.rng.below(10) {
                0 | 1 => deny = Deny::Default,
                2 => deny = Deny::Custom(if self.rng.chance(1, 2) { "unknown_uk" } else { "unknown_unexp" }.into()),
                _ => {}
            }
            if self.rng.chance(3, 20) {
                validate = Some("val_leaves".to_string());
            }
        }
        (ra, deny, validate)
    }

    fn container_attrs(&mut self, tag: Option<&str>, ra: RenameAll, deny: &Deny, validate: &Option<String>, reqs: &Reqs) -> Vec<String> {
        let mut attrs = vec![];
        if let Some(t) = tag {
            attrs.push(format!("tag = \"{t}\""));
        }
        match ra {
            RenameAll::Camel => attrs.push("rename_all = camelCase".into()),
            RenameAll::Lower => attrs.push("rename_all = lowercase".into()),
            RenameAll::None => {}
        }
        match deny {
            Deny::No => {}
            Deny::Default => attrs.push("deny_unknown_fields".into()),
            Deny::Custom(f) => attrs.push(format!("deny_unknown_fields = subjects::vf::{f}::<__Deserr_E>")),
        }
        if validate.is_some() {
            attrs.push("validate = subjects::vf::val_leaves -> subjects::vf::ValErr".into());
        }
        for r in reqs {
            let path = if *r == "Rec2" { "monitor::Rec2".to_string() } else { format!("subjects::vf::{r}") };
            attrs.push(format!("where_predicate = __Deserr_E: deserr::MergeWithError<{path}>"));
        }
        self.rng.shuffle(&mut attrs);
        attrs
    }

    /// inert attributes of other tools around the deserr ones (the derive has to skip them, wherever they are).
    /// A path-style one (`#[rustfmt::skip]`) is only written where every deserr attribute after it is one
    /// whose loss still compiles (renames, defaults, deny): a derive that stops reading at such an attribute
    /// then shows up as wrong behaviour of a program that builds, not as a build failure of the whole workload.
    fn foreign_attr(&mut self, indent: &str, path_style_ok: bool) -> String {
        let all = ["#[rustfmt::skip]", "#[allow(dead_code)]", "#[doc = \"generated\"]", "#[cfg_attr(all(), allow(unused))]", "/// a doc comment"];
        let a = if path_style_ok && self.rng.chance(1, 2) { all[0] } else { *self.rng.pick(&all[1..]) };
        format!("{indent}{a}\n")
    }

    fn attr_lines(&mut self, attrs: &[String], indent: &str) -> String {
        let s = self.attr_lines_inner(attrs, indent);
        if s.is_empty() {
            return s;
        }
        let lines: Vec<&str> = s.lines().collect();
        let structural = |l: &str| ["tag =", "where_predicate", "error =", "from(", "validate", "map =", "missing_field_error", "deny_unknown_fields ="].iter().any(|k| l.contains(k));
        // soft_from[i]: no structural attribute in lines[i..]
        let soft_from: Vec<bool> = (0..=lines.len()).map(|i| !lines[i..].iter().any(|l| structural(l))).collect();
        let mut out = String::new();
        if self.rng.chance(1, 5) {
            out.push_str(&self.foreign_attr(indent, soft_from[0]));
        }
        // between two deserr attributes
        for (i, l) in lines.iter().enumerate() {
            if i > 0 && self.rng.chance(1, 4) {
                out.push_str(&self.foreign_attr(indent, soft_from[i]));
            }
            out.push_str(l);
            out.push('\n');
        }
        if self.rng.chance(1, 8) {
            out.push_str(&self.foreign_attr(indent, true));
        }
        out
    }

    fn attr_lines_inner(&mut self, attrs: &[String], indent: &str) -> String {
        if attrs.is_empty() {
            return String::new();
        }
        // written inside one #[deserr(..)] or spread over two
        if attrs.len() >= 2 && self.rng.chance(1, 3) {
            let k = 1 + self.rng.below(attrs.len() - 1);
            format!("{indent}#[deserr({})]\n{indent}#[deserr({})]\n", attrs[..k].join(", "), attrs[k..].join(", "))
        } else {
            format!("{indent}#[deserr({})]\n", attrs.join(", "))
        }
    }

    fn fields_src(&mut self, fs: &[FieldSrc], indent: &str) -> String {
        let mut s = String::new();
        for f in fs {
            s.push_str(&self.attr_lines(&f.attrs, indent));
            let _ = writeln!(s, "{indent}pub {}: {},", f.rust_ident, f.rust_ty);
        }
        s
    }

    fn program(&mut self, idx: usize, control: Option<u8>) -> Program {
        let name = format!("G{idx}");
        let plain = control.is_some();
        self.current = if plain { None } else { Some(name.clone()) };
        let kind = match control {
            Some(k) => k,
            None => match self.rng.below(10) {
                0..=4 => 0,
                5..=7 => 1,
                8 => 2,
                _ => 3,
            },
        };
        match kind {
            0 => {
                // mostly 1..8 fields; one struct in twelve is wider than 20 fields (sort / table-size boundaries)
                let n = if !plain && self.rng.chance(1, 12) { 21 + self.rng.below(8) } else { 1 + self.rng.below(8) };
                // the container's rename_all is in scope for the fields
                let (ra0, deny, validate) = self.container_choices(plain);
                let (fs, mut r2) = self.fields(n, ra0, None, false, plain);
                let attrs = self.container_attrs(None, ra0, &deny, &validate, &r2);
                if validate.is_some() {
                    r2.insert("ValErr");
                }
                let mut src = String::new();
                src.push_str("#[derive(deserr::Deserr, Debug)]\n");
                src.push_str(&self.attr_lines(&attrs, ""));
                let _ = writeln!(src, "pub struct {name} {{");
                src.push_str(&self.fields_src(&fs, "    "));
                src.push_str("}\n");
                let mut tags = vec!["generated", "derive"];
                if fs.iter().any(|f| f.def.conv != Conv::None || f.def.map.is_some() || f.def.err2) || validate.is_some() {
                    tags.push("conv");
                }
                let def = Def::Struct(StructDef { name: name.clone(), fields: fs.iter().map(|f| f.def.clone()).collect(), deny, validate });
                let source = format!("{src}{}", proj_impl_struct(&name, &fs));
                Program { name, source, def, tags, reqs: r2, control: plain }
            }
            1 => {
                let nv = 1 + self.rng.below(6);
                let tag = match self.rng.below(4) {
                    0 => "type",
                    1 => "kind",
                    2 => "t",
                    _ => "variant_tag",
                }
                .to_string();
                let (era, deny, validate) = self.container_choices(plain);
                let mut variants: Vec<(String, Vec<String>, VariantDef, Option<Vec<FieldSrc>>)> = vec![];
                let mut r2 = Reqs::new();
                let struct_like_at = self.rng.below(nv);
                'v: while variants.len() < nv {
                    let ident = pascal_ident(&mut self.rng);
                    if variants.iter().any(|v| v.0 == ident) {
                        continue;
                    }
                    let mut vattrs = vec![];
                    let mut rename = None;
                    let mut vra = RenameAll::None;
                    if !plain {
                        if self.rng.chance(1, 4) {
                            let lit = self.rename_lit();
                            vattrs.push(format!("rename = \"{lit}\""));
                            rename = Some(lit);
                        }
                        match self.rng.below(6) {
                            0 => {
                                vra = RenameAll::Camel;
                                vattrs.push("rename_all = camelCase".into());
                            }
                            1 => {
                                vra = RenameAll::Lower;
                                vattrs.push("rename_all = lowercase".into());
                            }
                            _ => {}
                        }
                    }
                    // on an enum the container's rename_all renames variants only
                    let key = effective(&ident, &rename, era);
                    if variants.iter().any(|v| v.2.key == key) {
                        continue 'v;
                    }
                    let struct_like = variants.len() == struct_like_at || self.rng.chance(1, 2);
                    let fs = if struct_like {
                        // one struct-like variant in eight has braces but no fields at all
                        let n = if !plain && self.rng.chance(1, 8) { 0 } else { 1 + self.rng.below(5) };
                        let collide = !plain && self.rng.chance(1, 10);
                        // the fields of a variant are renamed only by that variant's own rename_all
                        let (mut fs, rr) = self.fields(n, vra, Some(&tag), collide, plain);
                        r2.extend(rr);
                        // one struct-like variant in ten has a field keyed like the variant's own effective name
                        // (the tag VALUE; nothing special may happen to that member)
                        if !plain && !fs.is_empty() && self.rng.chance(1, 10) && key != tag && !fs.iter().any(|f| f.def.key == key || f.def.ident == key) {
                            let j = self.rng.below(fs.len());
                            let collides_with_tag = fs[j].def.key == tag;
                            if !fs[j].def.skip && !collides_with_tag {
                                fs[j].attrs.retain(|a| !a.starts_with("rename"));
                                fs[j].attrs.push(format!("rename = \"{}\"", key.replace('\\', "\\\\").replace('"', "\\\"")));
                                fs[j].def.key = key.clone();
                            }
                        }
                        Some(fs)
                    } else {
                        if vra != RenameAll::None {
                            vattrs.retain(|a| !a.starts_with("rename_all"));
                        }
                        None
                    };
                    self.rng.shuffle(&mut vattrs);
                    let vd = VariantDef { ident: ident.clone(), key, fields: fs.as_ref().map(|f| f.iter().map(|x| x.def.clone()).collect()) };
                    variants.push((ident, vattrs, vd, fs));
                }
                let attrs = self.container_attrs(Some(&tag), era, &deny, &validate, &r2);
                if validate.is_some() {
                    r2.insert("ValErr");
                }
                let mut src = String::new();
                src.push_str("#[derive(deserr::Deserr, Debug)]\n");
                src.push_str(&self.attr_lines(&attrs, ""));
                let _ = writeln!(src, "pub enum {name} {{");
                for (ident, vattrs, _, fs) in &variants {
                    src.push_str(&self.attr_lines(vattrs, "    "));
                    // one variant in ten is written as a raw identifier (same name, `r#` is not part of it)
                    let ident = if !plain && self.rng.chance(1, 10) { format!("r#{ident}") } else { ident.clone() };
                    match fs {
                        None => {
                            let _ = writeln!(src, "    {ident},");
                        }
                        Some(fs) => {
                            let _ = writeln!(src, "    {ident} {{");
                            // enum variant fields cannot be `pub`
                            let body = self.fields_src(fs, "        ").replace("        pub ", "        ");
                            src.push_str(&body);
                            src.push_str("    },\n");
                        }
                    }
                }
                src.push_str("}\n");
                let mut tags = vec!["generated", "derive", "enum"];
                if variants.iter().any(|v| v.3.as_ref().map_or(false, |fs| fs.iter().any(|f| f.def.conv != Conv::None || f.def.map.is_some() || f.def.err2))) || validate.is_some() {
                    tags.push("conv");
                }
                let def = Def::Enum(EnumDef { name: name.clone(), tag, variants: variants.iter().map(|v| v.2.clone()).collect(), deny, validate });
                let source = format!("{src}{}", proj_impl_enum(&name, &variants.iter().map(|v| (v.0.clone(), v.3.clone())).collect::<Vec<_>>()));
                Program { name, source, def, tags, reqs: r2, control: plain }
            }
            3 => {
                // container-level from / try_from (by value or by reference) of an arbitrary intermediate type,
                // optionally followed by validate; the wrapper keeps the projection of what it was built from
                self.current = None;
                let (inter, mut r2) = self.ty(1);
                let by_ref = self.rng.chance(1, 2);
                let is_try = self.rng.chance(1, 2);
                let validate = match self.rng.below(3) {
                    0 => None,
                    1 => Some("val_leaves".to_string()),
                    _ => Some("val_ok".to_string()),
                };
                let f = format!("conv_{}", name.to_lowercase());
                let ity = rust_ty(&inter);
                let arg = if by_ref { format!("&{ity}") } else { ity.clone() };
                let mut attrs = vec![];
                if is_try {
                    attrs.push(format!("try_from({arg}) = {f} -> subjects::vf::Empty"));
                    r2.insert("Empty");
                } else {
                    attrs.push(format!("from({arg}) = {f}"));
                }
                if let Some(v) = &validate {
                    attrs.push(format!("validate = subjects::vf::{v} -> subjects::vf::ValErr"));
                    r2.insert("ValErr");
                }
                for r in &r2 {
                    let path = if *r == "Rec2" { "monitor::Rec2".to_string() } else { format!("subjects::vf::{r}") };
                    attrs.push(format!("where_predicate = __Deserr_E: deserr::MergeWithError<{path}>"));
                }
                self.rng.shuffle(&mut attrs);
                let mut src = String::new();
                src.push_str("#[derive(deserr::Deserr, Debug)]\n");
                src.push_str(&self.attr_lines(&attrs, ""));
                let _ = writeln!(src, "pub struct {name}(pub vcore::Proj);");
                let (fname, body_ok) = if is_try { ("try_wrap_l3", format!("Ok({name}(p))")) } else { ("wrap_id", format!("{name}(p)")) };
                let ret = if is_try { format!("Result<{name}, subjects::vf::Empty>") } else { name.clone() };
                let _ = writeln!(src, "fn {f}(x: {arg}) -> {ret} {{");
                let _ = writeln!(src, "    use monitor::ToProj;\n    let p = x.to_proj();");
                let _ = writeln!(src, "    monitor::log_call(\"{fname}\", format!(\"{{p:?}}\"), None);");
                if is_try {
                    let _ = writeln!(src, "    if p.leaves() % 3 == 0 {{\n        return Err(subjects::vf::Empty(format!(\"{{}} leaves\", p.leaves())));\n    }}");
                }
                let _ = writeln!(src, "    {body_ok}\n}}");
                let _ = writeln!(src, "impl monitor::ToProj for {name} {{\n    fn to_proj(&self) -> vcore::Proj {{\n        self.0.clone()\n    }}\n}}");
                let conv = if is_try { Conv::TryFrom(fname.into()) } else { Conv::From(fname.into()) };
                let def = Def::Conv(ConvDef { name: name.clone(), inter, conv, validate });
                Program { name, source: src, def, tags: vec!["generated", "derive", "conv", "container-conv"], reqs: r2, control: plain }
            }
            _ => {
                let nv = 1 + self.rng.below(6);
                let era = if plain {
                    RenameAll::None
                } else {
                    match self.rng.below(4) {
                        0 => RenameAll::Camel,
                        1 => RenameAll::Lower,
                        _ => RenameAll::None,
                    }
                };
                let mut vs: Vec<(String, Option<String>, String)> = vec![];
                while vs.len() < nv {
                    let ident = pascal_ident(&mut self.rng);
                    let rename = if !plain && self.rng.chance(1, 4) { Some(self.rename_lit()) } else { None };
                    let key = effective(&ident, &rename, era);
                    if vs.iter().any(|v| v.0 == ident || v.2 == key) {
                        continue;
                    }
                    vs.push((ident, rename, key));
                }
                let mut src = String::new();
                src.push_str("#[derive(deserr::Deserr, Debug)]\n");
                match era {
                    RenameAll::Camel => src.push_str("#[deserr(rename_all = camelCase)]\n"),
                    RenameAll::Lower => src.push_str("#[deserr(rename_all = lowercase)]\n"),
                    RenameAll::None => {}
                }
                let _ = writeln!(src, "pub enum {name} {{");
                for (ident, rename, _) in &vs {
                    if let Some(r) = rename {
                        let _ = writeln!(src, "    #[deserr(rename = \"{r}\")]");
                    }
                    let ident = if !plain && self.rng.chance(1, 10) { format!("r#{ident}") } else { ident.clone() };
                    let _ = writeln!(src, "    {ident},");
                }
                src.push_str("}\n");
                let def = Def::UnitEnum(UnitEnumDef { name: name.clone(), variants: vs.iter().map(|v| (v.0.clone(), v.2.clone())).collect(), validate: None });
                let source = format!("{src}{}", proj_impl_enum(&name, &vs.iter().map(|v| (v.0.clone(), None)).collect::<Vec<_>>()));
                Program { name, source, def, tags: vec!["generated", "derive", "unit-enum"], reqs: Reqs::new(), control: plain }
            }
        }
    }
}

fn proj_impl_struct(name: &str, fs: &[FieldSrc]) -> String {
    let mut s = String::new();
    let _ = writeln!(s, "impl monitor::ToProj for {name} {{\n    fn to_proj(&self) -> vcore::Proj {{\n        vcore::Proj::Struct(\"{name}\".to_string(), vec![");
    for f in fs {
        let _ = writeln!(s, "            (\"{}\".to_string(), monitor::ToProj::to_proj(&self.{})),", f.def.ident, f.rust_ident);
    }
    s.push_str("        ])\n    }\n}\n");
    s
}

fn proj_impl_enum(name: &str, vs: &[(String, Option<Vec<FieldSrc>>)]) -> String {
    let mut s = String::new();
    let _ = writeln!(s, "impl monitor::ToProj for {name} {{\n    fn to_proj(&self) -> vcore::Proj {{\n        match self {{");
    for (ident, fs) in vs {
        match fs {
            None => {
                let _ = writeln!(s, "            {name}::{ident} => vcore::Proj::Variant(\"{name}\".to_string(), \"{ident}\".to_string(), vec![]),");
            }
            Some(fs) => {
                let binds = fs.iter().map(|f| f.rust_ident.clone()).collect::<Vec<_>>().join(", ");
                let _ = writeln!(s, "            {name}::{ident} {{ {binds} }} => vcore::Proj::Variant(\"{name}\".to_string(), \"{ident}\".to_string(), vec![");
                for f in fs {
                    let _ = writeln!(s, "                (\"{}\".to_string(), monitor::ToProj::to_proj({})),", f.def.ident, f.rust_ident);
                }
                s.push_str("            ]),\n");
            }
        }
    }
    s.push_str("        }\n    }\n}\n");
    s
}

/// keeps mtimes (and therefore cargo's fingerprints) stable when nothing changed
fn write_if_changed(path: &str, content: &str) {
    if std::fs::read_to_string(path).ok().as_deref() != Some(content) {
        std::fs::write(path, content).unwrap();
    }
}

fn main() {
    let a: Vec<String> = std::env::args().collect();
    let get = |k: &str, d: &str| a.iter().position(|x| x == k).and_then(|i| a.get(i + 1).cloned()).unwrap_or_else(|| d.to_string());
    let seed: u64 = get("--seed", "1").parse().unwrap_or(1);
    let count: usize = get("--count", "100").parse().unwrap_or(100);
    let out = get("--out", "/verif/work/gen");
    let harness = get("--harness", "/verif/harness");
    let pkg = get("--name", "gsub");

    let mut g = G { rng: Rng::derive(seed, 0xC0FFEE, count as u64), earlier: vec![], current: None };
    let mut programs = vec![];
    for idx in 0..count {
        // the first three programs are attribute-free controls (plain struct, plain tagged enum, plain unit enum)
        let control = if idx < 3 { Some(idx as u8) } else { None };
        let p = g.program(idx, control);
        if !matches!(p.def, Def::UnitEnum(_)) || true {
            g.earlier.push((p.name.clone(), p.reqs.clone()));
        }
        programs.push(p);
    }

    std::fs::create_dir_all(format!("{out}/src")).unwrap();
    let mut gen_rs = String::new();
    gen_rs.push_str("// @generated by /verif/harness/gen — do not edit\n#![allow(non_snake_case, non_camel_case_types, dead_code, unused_imports, clippy::all)]\n\n");
    for p in &programs {
        gen_rs.push_str(&p.source);
        gen_rs.push('\n');
    }
    gen_rs.push_str("pub fn registry() -> subjects::Registry {\n    let mut r = subjects::Registry::new();\n");
    gen_rs.push_str("    let defs: Vec<refmodel::Def> = serde_json::from_str(include_str!(\"defs.json\")).expect(\"defs.json\");\n    for d in defs { r.defs.add(d); }\n");
    for p in &programs {
        let tags = p.tags.iter().chain(if p.control { Some(&"control") } else { None }).map(|t| format!("\"{t}\"")).collect::<Vec<_>>().join(", ");
        let f = if p.reqs.contains("Rec2") { "rec_src" } else { "all_src" };
        let src_lit = format!("{:?}", p.source.split("impl monitor::ToProj").next().unwrap_or("").trim_end());
        let _ = writeln!(gen_rs, "    r.{f}::<{n}>(\"{n}\", refmodel::types::named(\"{n}\"), &[{tags}], {src_lit});", n = p.name);
    }
    gen_rs.push_str("    r\n}\n");
    write_if_changed(&format!("{out}/src/generated.rs"), &gen_rs);
    let defs: Vec<&Def> = programs.iter().map(|p| &p.def).collect();
    write_if_changed(&format!("{out}/src/defs.json"), &serde_json::to_string(&defs).unwrap());
    let main_rs = format!(
        "mod generated;\nfn main() {{\n    let mut reg = subjects::catalogue::registry();\n    reg.merge(generated::registry());\n    let mut extra = serde_json::Map::new();\n    extra.insert(\"generated_programs\".into(), serde_json::json!({count}));\n    extra.insert(\"generator_seed\".into(), serde_json::json!({seed}u64));\n    std::process::exit(vchecks::main_with(reg, extra));\n}}\n"
    );
    write_if_changed(&format!("{out}/src/main.rs"), &main_rs);
    let cargo = format!(
        "[package]\nname = \"{pkg}\"\nversion = \"0.1.0\"\nedition = \"2021\"\n\n[workspace]\n\n[dependencies]\ndeserr = {{ path = \"/repo\" }}\nserde_json = \"1.0\"\nserde-cs = \"0.2.4\"\nvcore = {{ path = \"{h}/vcore\" }}\nmonitor = {{ path = \"{h}/monitor\" }}\nrefmodel = {{ path = \"{h}/refmodel\" }}\nsubjects = {{ path = \"{h}/subjects\" }}\nvchecks = {{ path = \"{h}/vchecks\" }}\n\n[profile.dev]\nopt-level = 1\ndebug = 0\noverflow-checks = true\ndebug-assertions = true\nincremental = false\ncodegen-units = 16\n",
        h = harness
    );
    // only rewrite Cargo.toml when it changed (keeps cargo's fingerprint stable)
    let cpath = format!("{out}/Cargo.toml");
    if std::fs::read_to_string(&cpath).ok().as_deref() != Some(cargo.as_str()) {
        std::fs::write(&cpath, cargo).unwrap();
    }
    let kinds = programs.iter().fold([0usize; 3], |mut k, p| {
        match p.def {
            Def::Struct(_) => k[0] += 1,
            Def::Enum(_) => k[1] += 1,
            _ => k[2] += 1,
        }
        k
    });
    println!("generated {count} programs (seed {seed}): {} structs, {} tagged enums, {} unit enums -> {out}", kinds[0], kinds[1], kinds[2]);
}
