//! Hand-written catalogue: every std impl at several arities, every derive attribute from the book
//! and from tests/, and the interactions the properties single out. Each derived type comes with a
//! hand-written description (effective keys written out by hand, never computed by the macro).
#![allow(non_snake_case, dead_code)]
use crate::subject::Registry;
use crate::vf;
use deserr::Deserr;
use monitor::{log_call, Rec2, ToProj};
use refmodel::types::*;
use serde_cs::vec::CS;
use std::collections::{BTreeMap, BTreeSet, HashMap, HashSet};
use std::marker::PhantomData;
use std::num::*;
use vcore::Proj;

macro_rules! proj_struct {
    ($n:ident $(<$g:ident>)? { $($f:ident),* }) => {
        impl$(<$g: ToProj>)? ToProj for $n$(<$g>)? {
            fn to_proj(&self) -> Proj {
                Proj::Struct(stringify!($n).to_string(), vec![$((stringify!($f).trim_start_matches("r#").to_string(), self.$f.to_proj())),*])
            }
        }
    };
}
macro_rules! proj_enum {
    ($n:ident { $($v:ident $({ $($f:ident),* })?),* }) => {
        impl ToProj for $n {
            fn to_proj(&self) -> Proj {
                match self {
                    $( $n::$v $({ $($f),* })? => Proj::Variant(stringify!($n).to_string(), stringify!($v).trim_start_matches("r#").to_string(), vec![$($((stringify!($f).trim_start_matches("r#").to_string(), $f.to_proj())),*)?]), )*
                }
            }
        }
    };
}

// ---------------------------------------------------------------------------------- plain / renames
#[derive(Deserr, Debug, Default, Clone, PartialEq)]
pub struct Plain {
    pub a: u8,
    pub b: String,
    pub c: bool,
}
proj_struct!(Plain { a, b, c });

#[derive(Deserr, Debug)]
#[deserr(rename_all = camelCase)]
pub struct Camel {
    first_name: String,
    #[deserr(rename = "LAST")]
    last_name: String,
    age_in_years: u8,
    x2_value: Option<u8>,
}
proj_struct!(Camel { first_name, last_name, age_in_years, x2_value });

#[derive(Deserr, Debug)]
#[deserr(rename_all = lowercase)]
pub struct Lower {
    userName: String,
    ID: u8,
    #[deserr(rename = "KeepCase")]
    other: bool,
}
proj_struct!(Lower { userName, ID, other });

#[derive(Deserr, Debug)]
pub struct RawIdent {
    r#type: u8,
    r#match: String,
    plain: bool,
}
proj_struct!(RawIdent { r#type, r#match, plain });

#[derive(Deserr, Debug)]
#[deserr(rename_all = lowercase)]
pub struct LowerRaw {
    r#type: u8,
    Other: bool,
    r#fn: Option<u8>,
}
proj_struct!(LowerRaw { r#type, Other, r#fn });

#[derive(Deserr, Debug)]
#[deserr(rename_all = camelCase)]
pub struct CamelRaw {
    r#match: u8,
    two_words: bool,
    #[deserr(rename = "r#loop")]
    r#loop: Option<u8>,
}
proj_struct!(CamelRaw { r#match, two_words, r#loop });

#[derive(Deserr, Debug)]
#[deserr(rename_all = camelCase)]
pub struct MissingRenamed {
    #[deserr(missing_field_error = vf::missing_mf::<__Deserr_E>)]
    first_name: String,
    #[deserr(rename = "ID", missing_field_error = vf::missing_unexp::<__Deserr_E>)]
    id_x: u8,
    #[deserr(default)]
    last_seen_at: Option<u8>,
}
proj_struct!(MissingRenamed { first_name, id_x, last_seen_at });

#[derive(Deserr, Debug)]
#[deserr(tag = "t")]
pub enum VariantRules {
    #[deserr(rename_all = camelCase)]
    First { side_length: u8 },
    Second { edge_count: u8, Mixed_case: bool },
    #[deserr(rename_all = lowercase)]
    Third { Loud_Name: u8 },
    #[deserr(rename = "fourth_renamed")]
    Fourth { plain_one: u8 },
    Fifth { after_rename: u8 },
}
proj_enum!(VariantRules { First { side_length }, Second { edge_count, Mixed_case }, Third { Loud_Name }, Fourth { plain_one }, Fifth { after_rename } });

/// attributes of other tools (path-style and plain) written before, between and after the deserr ones
#[derive(Deserr, Debug)]
#[rustfmt::skip]
#[deserr(rename_all = camelCase)]
#[allow(dead_code)]
#[deserr(deny_unknown_fields)]
pub struct ToolAttrs {
    #[rustfmt::skip]
    #[deserr(rename = "FIRST")]
    first_one: u8,
    #[deserr(default = 7)]
    #[rustfmt::skip]
    second_one: u8,
    #[allow(unused)]
    #[rustfmt::skip]
    /// documented
    #[deserr(default)]
    #[deserr(rename = "third")]
    third_one: Option<bool>,
    #[rustfmt::skip]
    fourth_one: String,
}
proj_struct!(ToolAttrs { first_one, second_one, third_one, fourth_one });

#[derive(Deserr, Debug)]
#[deserr(tag = "t")]
#[rustfmt::skip]
#[deserr(rename_all = lowercase)]
pub enum ToolAttrsEnum {
    #[rustfmt::skip]
    #[deserr(rename_all = camelCase)]
    FirstOne {
        #[rustfmt::skip]
        #[deserr(default = 3)]
        side_length: u8,
    },
    #[rustfmt::skip]
    #[deserr(rename = "Second")]
    SecondOne,
    #[rustfmt::skip]
    ThirdOne { plain_one: u8 },
}
proj_enum!(ToolAttrsEnum { FirstOne { side_length }, SecondOne, ThirdOne { plain_one } });

/// wider than the insertion-sort threshold of slice sorts, with skipped fields in the middle
#[derive(Deserr, Debug)]
#[deserr(deny_unknown_fields)]
pub struct Wide24 {
    w00: u8,
    w01: u8,
    w02: u8,
    #[deserr(skip)]
    w03: u8,
    w04: u8,
    w05: u8,
    w06: u8,
    w07: u8,
    w08: u8,
    w09: u8,
    w10: u8,
    #[deserr(skip)]
    w11: u8,
    w12: u8,
    w13: u8,
    w14: u8,
    w15: u8,
    w16: u8,
    #[deserr(skip)]
    w17: u8,
    w18: u8,
    w19: u8,
    w20: u8,
    w21: u8,
    w22: u8,
    w23: u8,
}
proj_struct!(Wide24 { w00, w01, w02, w03, w04, w05, w06, w07, w08, w09, w10, w11, w12, w13, w14, w15, w16, w17, w18, w19, w20, w21, w22, w23 });

/// brace-style variants without fields are struct-like bodies too (unknown keys must be reported)
#[derive(Deserr, Debug)]
#[deserr(tag = "type", deny_unknown_fields)]
pub enum EmptyVariants {
    Ping {},
    Echo { msg: String },
    Nop,
    AllSkipped {
        #[deserr(skip)]
        hidden: u8,
    },
}
proj_enum!(EmptyVariants { Ping {}, Echo { msg }, Nop, AllSkipped { hidden } });

#[derive(Deserr, Debug)]
#[deserr(tag = "type", deny_unknown_fields = vf::unknown_uk::<__Deserr_E>)]
pub enum EmptyVariantsCustom {
    Ping {},
    Echo { msg: String },
}
proj_enum!(EmptyVariantsCustom { Ping {}, Echo { msg } });

/// the tag key is written as given: the container's rename_all renames variants, never the tag
#[derive(Deserr, Debug)]
#[deserr(tag = "shape_kind", rename_all = camelCase)]
pub enum TagCamelKey {
    CircleShape { radius_len: u8 },
    Dot,
}
proj_enum!(TagCamelKey { CircleShape { radius_len }, Dot });

#[derive(Deserr, Debug)]
#[deserr(tag = "Type", rename_all = lowercase)]
pub enum TagLowerKey {
    Big { Size: u8 },
    Small,
}
proj_enum!(TagLowerKey { Big { Size }, Small });

/// both variant attributes inside one `#[deserr(..)]`, in both orders, and split over two
#[derive(Deserr, Debug)]
#[deserr(tag = "t")]
pub enum VariantBoth {
    #[deserr(rename = "Pear", rename_all = camelCase)]
    P { type_of_pear: u8 },
    #[deserr(rename_all = lowercase, rename = "apple")]
    A { Core_Size: u8 },
    #[deserr(rename_all = camelCase)]
    #[deserr(rename = "fig")]
    F { seed_count: u8 },
    #[deserr(rename = "QQ", rename_all = lowercase)]
    Q,
}
proj_enum!(VariantBoth { P { type_of_pear }, A { Core_Size }, F { seed_count }, Q });

/// a skipped field declared before mapped / renamed / defaulted fields of the same type
#[derive(Deserr, Debug)]
pub struct SkipThenAttrs {
    #[deserr(skip)]
    attempts: u8,
    #[deserr(map = vf::inc_u8)]
    priority: u8,
    #[deserr(rename = "x")]
    b: u8,
    #[deserr(default = vf::dflt_u8())]
    c: u8,
    d: u8,
}
proj_struct!(SkipThenAttrs { attempts, priority, b, c, d });

/// defaulted fields declared before required ones (tables indexed by "required fields only" go out of step)
#[derive(Deserr, Debug)]
#[deserr(rename_all = camelCase)]
pub struct DefaultsFirst {
    #[deserr(default)]
    max_retries: u8,
    display_name: String,
    #[deserr(default = vf::dflt_u8())]
    back_off: u8,
    owner_id: u8,
    #[deserr(missing_field_error = vf::missing_mf::<__Deserr_E>)]
    custom_one: u8,
    last_one: bool,
}
proj_struct!(DefaultsFirst { max_retries, display_name, back_off, owner_id, custom_one, last_one });

#[cfg(not(verif_no_edge))]
/// non-ASCII identifiers under rename_all (Unicode lower-casing, not ASCII lower-casing)
#[derive(Deserr, Debug)]
#[deserr(rename_all = lowercase, deny_unknown_fields)]
pub struct LowerUnicode {
    Été: u8,
    ÑAME_x: bool,
    plain: Option<u8>,
}
#[cfg(not(verif_no_edge))]
proj_struct!(LowerUnicode { Été, ÑAME_x, plain });

#[cfg(not(verif_no_edge))]
/// keys that are not identifier-like: non-ASCII, very long, empty, with spaces / dots / quotes
#[derive(Deserr, Debug)]
#[deserr(deny_unknown_fields)]
pub struct OddKeys {
    #[deserr(rename = "prénom")]
    first: String,
    #[deserr(rename = "café")]
    drink: u8,
    #[deserr(rename = "a_very_long_field_name_for_the_largest_budget")]
    long_one: bool,
    #[deserr(rename = "", default)]
    empty: Option<u8>,
    #[deserr(rename = "with space", default)]
    spaced: Option<u8>,
    #[deserr(rename = "dotted.key[0]", default)]
    dotted: Option<u8>,
    #[deserr(rename = "say \"hi\"", default)]
    quoted: Option<u8>,
}
#[cfg(not(verif_no_edge))]
proj_struct!(OddKeys { first, drink, long_one, empty, spaced, dotted, quoted });

#[cfg(not(verif_no_edge))]
#[derive(Deserr, Debug)]
pub enum OddNames {
    #[deserr(rename = "café")]
    Coffee,
    #[deserr(rename = "thé")]
    Tea,
    #[deserr(rename = "日本茶")]
    Green,
    #[deserr(rename = "a_very_long_variant_name_for_the_largest_budget")]
    Long,
}
#[cfg(not(verif_no_edge))]
proj_enum!(OddNames { Coffee, Tea, Green, Long });

#[cfg(not(verif_no_edge))]
/// non-ASCII variant identifiers under rename_all = lowercase (Unicode lower-casing); a variant renamed to "" (round 8)
#[derive(Deserr, Debug)]
#[deserr(rename_all = lowercase)]
pub enum LowerUnicodeUnit {
    Éclair,
    CrèmeBrÛlée,
    #[deserr(rename = "")]
    Unset,
    Plain,
}
#[cfg(not(verif_no_edge))]
proj_enum!(LowerUnicodeUnit { Éclair, CrèmeBrÛlée, Unset, Plain });

#[cfg(not(verif_no_edge))]
#[derive(Deserr, Debug)]
#[deserr(tag = "kind", rename_all = lowercase)]
pub enum LowerUnicodeTagged {
    Éclair { xx: u8 },
    ÑandÚ,
    #[deserr(rename = "")]
    Unset { yy: bool },
    Plain,
}
#[cfg(not(verif_no_edge))]
proj_enum!(LowerUnicodeTagged { Éclair { xx }, ÑandÚ, Unset { yy }, Plain });

/// PascalCase identifiers with digits: camelCase only lowers the first letter
#[derive(Deserr, Debug)]
#[deserr(tag = "v", rename_all = camelCase)]
pub enum DigitVariants {
    V2Beta { xx: u8 },
    Utf8Lossy,
    Plain7,
}
proj_enum!(DigitVariants { V2Beta { xx }, Utf8Lossy, Plain7 });

#[derive(Deserr, Debug)]
#[deserr(rename_all = camelCase)]
pub enum DigitUnit {
    V2Beta,
    Utf8Lossy,
    Sha256,
}
proj_enum!(DigitUnit { V2Beta, Utf8Lossy, Sha256 });

#[cfg(not(verif_no_edge))]
/// field names that coincide with names the generated code might use for its own locals
#[derive(Deserr, Debug)]
#[deserr(deny_unknown_fields)]
pub struct Hygiene {
    state: u8,
    x: u8,
    e: u8,
    v: u8,
    s: u8,
    key: u8,
    value: u8,
    error: u8,
    location: u8,
    map: u8,
    result: u8,
    field: u8,
    tag_value: u8,
    tag_value_string: u8,
    #[deserr(default)]
    deserr_seen: u8,
    #[deserr(try_from(u64) = vf::try_even -> vf::Odd)]
    val: u64,
    #[deserr(map = vf::inc_u8)]
    res: u8,
}
#[cfg(not(verif_no_edge))]
proj_struct!(Hygiene { state, x, e, v, s, key, value, error, location, map, result, field, tag_value, tag_value_string, deserr_seen, val, res });

#[cfg(not(verif_no_edge))]
#[derive(Deserr, Debug)]
#[deserr(tag = "t")]
pub enum HygieneEnum {
    A { state: u8, x: u8, e: u8, s: u8, v: u8, tag_value: u8, tag_value_string: u8 },
    B { key: u8, value: u8, map: u8, error: u8 },
}
#[cfg(not(verif_no_edge))]
proj_enum!(HygieneEnum { A { state, x, e, s, v, tag_value, tag_value_string }, B { key, value, map, error } });

/// one variant under camelCase, one under lowercase, one without rule, all with the same field identifiers
#[derive(Deserr, Debug)]
#[deserr(tag = "t")]
pub enum VariantRuleMix {
    #[deserr(rename_all = camelCase)]
    Created { user_id: u8, last_name: u8 },
    #[deserr(rename_all = lowercase)]
    Deleted { user_id: u8, last_name: u8 },
    Kept { user_id: u8, last_name: u8 },
    #[deserr(rename_all = camelCase)]
    Again { user_id: u8 },
}
proj_enum!(VariantRuleMix { Created { user_id, last_name }, Deleted { user_id, last_name }, Kept { user_id, last_name }, Again { user_id } });

/// two neighbouring variants with the same effective name (the first one wins), others after them
#[derive(Deserr, Debug)]
#[deserr(rename_all = lowercase)]
#[allow(unreachable_patterns)]
pub enum DupNames {
    Trunk,
    #[deserr(rename = "main")]
    Master,
    Main,
    Develop,
    Release,
}
proj_enum!(DupNames { Trunk, Master, Main, Develop, Release });

/// PascalCase / single-word upper-case identifiers under camelCase (only the first letter is lowered)
#[derive(Deserr, Debug)]
#[deserr(rename_all = camelCase, deny_unknown_fields)]
pub struct CamelPascal {
    Name: String,
    Id: u8,
    OwnerName: Option<u8>,
    plain: bool,
}
proj_struct!(CamelPascal { Name, Id, OwnerName, plain });

/// variants with a field keyed like the variant's own effective name (tag value vs member keys)
#[derive(Deserr, Debug)]
#[deserr(tag = "type", rename_all = lowercase, deny_unknown_fields)]
pub enum VariantNamedLikeField {
    Text {
        text: String,
    },
    Image {
        url: String,
        #[deserr(default)]
        image: u8,
    },
    #[deserr(rename = "range")]
    Span {
        #[deserr(rename = "range")]
        from_to: u8,
        plain: Option<u8>,
    },
    Other,
}
proj_enum!(VariantNamedLikeField { Text { text }, Image { url, image }, Span { from_to, plain }, Other });

/// identifiers with leading, trailing and doubled underscores under `lowercase` (nothing but the case changes)
#[derive(Deserr, Debug)]
#[deserr(rename_all = lowercase, deny_unknown_fields)]
pub struct LowerUnderscores {
    _geo: u8,
    type_: bool,
    a__b: Option<u8>,
    _Vectors_: String,
    plain_one: u8,
}
proj_struct!(LowerUnderscores { _geo, type_, a__b, _Vectors_, plain_one });

/// raw identifiers as variant names: without any rename, under rename_all, with an explicit rename
#[derive(Deserr, Debug)]
#[deserr(tag = "t")]
pub enum RawVariants {
    r#move { speed: u8 },
    r#type,
    r#Copy { n: u8 },
    Plain,
}
proj_enum!(RawVariants { r#move { speed }, r#type, Copy { n }, Plain });

#[derive(Deserr, Debug)]
pub enum RawUnit {
    r#type,
    r#Copy,
    #[deserr(rename = "mv")]
    r#move,
    Other,
}
proj_enum!(RawUnit { r#type, Copy, r#move, Other });

#[derive(Deserr, Debug)]
#[deserr(rename_all = camelCase)]
pub enum RawUnitCamel {
    r#TypeOf,
    r#Match,
    Other,
}
proj_enum!(RawUnitCamel { TypeOf, Match, Other });

/// raw identifiers under deny_unknown_fields (the accepted list is built from the same keys)
#[derive(Deserr, Debug)]
#[deserr(deny_unknown_fields, rename_all = camelCase)]
pub struct DenyRaw {
    r#type: u8,
    r#impl: bool,
    plain_one: Option<u8>,
}
proj_struct!(DenyRaw { r#type, r#impl, plain_one });

#[cfg(not(verif_no_edge))]
/// names with characters that are escapes in Rust source (every backslash sequence is one that would also
/// lex as an escape, so a derive that re-reads names as source text changes them instead of failing to build)
#[derive(Deserr, Debug)]
pub enum EscapedNames {
    #[deserr(rename = "back\\\\slash\\x41\\u{e9}")]
    Back,
    #[deserr(rename = "\\t")]
    BackslashT,
    #[deserr(rename = "real\ttab")]
    Tab,
    Plain,
}
#[cfg(not(verif_no_edge))]
proj_enum!(EscapedNames { Back, BackslashT, Tab, Plain });

/// container try_from whose function returns the container's own error type
#[derive(Deserr, Debug)]
#[deserr(try_from(String) = ctry_same::<__Deserr_E> -> __Deserr_E)]
pub struct CTrySame(pub String);
fn ctry_same<E: deserr::DeserializeError>(s: String) -> Result<CTrySame, E> {
    log_call("try_same_err", format!("{:?}", s.to_proj()), None);
    if s.is_empty() {
        Err(deserr::take_cf_content(E::error::<std::convert::Infallible>(
            None,
            deserr::ErrorKind::Unexpected { msg: "empty string (reported by the function itself)".into() },
            deserr::ValuePointerRef::Origin,
        )))
    } else {
        Ok(CTrySame(s))
    }
}
impl ToProj for CTrySame {
    fn to_proj(&self) -> Proj {
        Proj::Struct("Wrap".into(), vec![("0".into(), Proj::Str(self.0.clone()))])
    }
}

/// a conversion error that has a `source()`
#[derive(Deserr, Debug)]
pub struct PortS {
    #[deserr(try_from(&String) = vf::try_port -> vf::Sourced)]
    port: u16,
    name: String,
    #[deserr(default)]
    backups: Vec<PortInner>,
}
proj_struct!(PortS { port, name, backups });

#[derive(Deserr, Debug)]
pub struct PortInner {
    #[deserr(try_from(&String) = vf::try_port -> vf::Sourced)]
    port: u16,
}
proj_struct!(PortInner { port });

// ---------------------------------------------------------------------------------- default / skip
#[derive(Deserr, Debug)]
pub struct Defaults {
    #[deserr(default)]
    a: u8,
    #[deserr(default = vf::dflt_u8())]
    b: u8,
    c: Option<u8>,
    #[deserr(default)]
    d: Option<u8>,
    #[deserr(default = vf::dflt_string())]
    ee: String,
    f: bool,
}
proj_struct!(Defaults { a, b, c, d, ee, f });

#[derive(Deserr, Debug)]
pub struct SkipFirst {
    #[deserr(skip)]
    ss: u8,
    a: u8,
    b: String,
}
proj_struct!(SkipFirst { ss, a, b });

#[derive(Deserr, Debug)]
pub struct SkipMiddle {
    a: u8,
    #[deserr(skip)]
    ss: String,
    b: String,
}
proj_struct!(SkipMiddle { a, ss, b });

#[derive(Deserr, Debug)]
pub struct SkipLast {
    a: u8,
    b: Option<bool>,
    #[deserr(skip)]
    ss: Vec<u8>,
}
proj_struct!(SkipLast { a, b, ss });

#[derive(Deserr, Debug)]
pub struct SkipWithDefaultExpr {
    a: u8,
    #[deserr(skip, default = vf::dflt_u8())]
    ss: u8,
    #[deserr(default)]
    z: u8,
}
proj_struct!(SkipWithDefaultExpr { a, ss, z });

/// `default` and `missing_field_error` on one field: the default wins, the function is never called
#[derive(Deserr, Debug)]
pub struct DefaultAndMissingFn {
    #[deserr(default, missing_field_error = vf::missing_mf::<__Deserr_E>)]
    first_one: u8,
    #[deserr(missing_field_error = vf::missing_unexp::<__Deserr_E>, default = 9)]
    second_one: u8,
    #[deserr(missing_field_error = vf::missing_mf::<__Deserr_E>)]
    third_one: u8,
    fourth_one: bool,
}
proj_struct!(DefaultAndMissingFn { first_one, second_one, third_one, fourth_one });

#[derive(Deserr, Debug)]
#[deserr(tag = "t")]
pub enum DefaultAndMissingFnEnum {
    A {
        #[deserr(default = 3, missing_field_error = vf::missing_mf::<__Deserr_E>)]
        n: u8,
        m: u8,
    },
    B,
}
proj_enum!(DefaultAndMissingFnEnum { A { n, m }, B });

/// `map` on skipped fields: it runs once, on top of the default, like for every other field
#[derive(Deserr, Debug)]
pub struct SkipMapped {
    #[deserr(skip, map = vf::inc_u8)]
    hidden: u8,
    a: u8,
    #[deserr(map = vf::inc_u8, skip, default = 41)]
    hidden2: u8,
    #[deserr(map = vf::upper)]
    b: String,
}
proj_struct!(SkipMapped { hidden, a, hidden2, b });

#[derive(Deserr, Debug)]
#[deserr(tag = "t")]
pub enum SkipMappedEnum {
    Brace {
        #[deserr(skip, default = 6, map = vf::inc_u8)]
        hidden: u8,
        n: u8,
    },
    OnlySkipped {
        #[deserr(skip, map = vf::upper)]
        label: String,
    },
    Unit,
}
proj_enum!(SkipMappedEnum { Brace { hidden, n }, OnlySkipped { label }, Unit });

// ---------------------------------------------------------------------------------- unknown / missing
#[derive(Deserr, Debug)]
#[deserr(deny_unknown_fields)]
pub struct DenyS {
    alpha: u8,
    beta: Option<String>,
    #[deserr(rename = "GAMMA")]
    gamma: bool,
}
proj_struct!(DenyS { alpha, beta, gamma });

#[derive(Deserr, Debug)]
#[deserr(deny_unknown_fields = vf::unknown_unexp::<__Deserr_E>)]
pub struct DenyCustom {
    word: String,
    #[deserr(default)]
    count: u8,
}
proj_struct!(DenyCustom { word, count });

/// custom unknown-key / missing-field functions that return an error type of their own (round 8)
#[derive(Deserr, Debug)]
#[deserr(deny_unknown_fields = vf::unknown_foreign, where_predicate = __Deserr_E: deserr::MergeWithError<vf::Denied> + deserr::MergeWithError<vf::Needed>)]
pub struct ForeignFns {
    #[deserr(missing_field_error = vf::missing_foreign)]
    id: u32,
    name: String,
    #[deserr(missing_field_error = vf::missing_foreign)]
    zeta: bool,
}
proj_struct!(ForeignFns { id, name, zeta });

#[derive(Deserr, Debug)]
#[deserr(where_predicate = __Deserr_E: deserr::MergeWithError<vf::Denied> + deserr::MergeWithError<vf::Needed>)]
pub struct ForeignFnsOuter {
    first: bool,
    inner: ForeignFns,
    list: Vec<ForeignFns>,
}
proj_struct!(ForeignFnsOuter { first, inner, list });

#[derive(Deserr, Debug)]
#[deserr(deny_unknown_fields)]
pub struct DenySkip {
    a: u8,
    #[deserr(skip)]
    hidden: u8,
    b: bool,
}
proj_struct!(DenySkip { a, hidden, b });

#[derive(Deserr, Debug)]
pub struct MissingCustom {
    #[deserr(missing_field_error = vf::missing_unexp::<__Deserr_E>)]
    a: u8,
    #[deserr(missing_field_error = vf::missing_mf::<__Deserr_E>)]
    b: String,
    c: bool,
}
proj_struct!(MissingCustom { a, b, c });

// ---------------------------------------------------------------------------------- conversions
#[derive(Deserr, Debug)]
pub struct ConvS {
    #[deserr(from(u64) = vf::u64_to_string)]
    a: String,
    #[deserr(from(&String) = vf::len_of_ref)]
    b: usize,
    #[deserr(try_from(u64) = vf::try_even -> vf::Odd)]
    c: u64,
    #[deserr(try_from(&String) = vf::try_ascii_ref -> vf::NotAscii)]
    d: String,
    #[deserr(map = vf::inc_u8)]
    ee: u8,
    #[deserr(default, map = vf::inc_u8)]
    f: u8,
    #[deserr(default, try_from(i64) = vf::try_small -> vf::TooBig)]
    g: i64,
}
proj_struct!(ConvS { a, b, c, d, ee, f, g });

/// conversion functions whose path ends in `from` / `try_from` / `into`, from a type spelled like the field's own type
/// (they are ordinary user functions, not the reflexive `From::from`)
pub mod shout {
    use monitor::log_call;
    pub fn from(s: String) -> String {
        log_call("shout_from", format!("{:?}", monitor::ToProj::to_proj(&s)), None);
        s.to_uppercase()
    }
    pub fn into(x: u8) -> u8 {
        log_call("inc_into", format!("{:?}", monitor::ToProj::to_proj(&x)), None);
        x.wrapping_add(1)
    }
}
#[derive(Deserr, Debug)]
pub struct FromNamedFrom {
    #[deserr(from(String) = shout::from)]
    a: String,
    #[deserr(from(u8) = shout::into)]
    b: u8,
    #[deserr(from(String) = self::shout::from, default)]
    c: String,
}
proj_struct!(FromNamedFrom { a, b, c });

#[derive(Deserr, Debug)]
#[deserr(where_predicate = __Deserr_E: deserr::MergeWithError<Rec2>)]
pub struct FieldErr {
    #[deserr(error = Rec2)]
    a: u8,
    #[deserr(error = Rec2)]
    inner: Plain,
    #[deserr(error = Rec2, try_from(u64) = vf::try_even -> vf::Odd)]
    c: u64,
    d: bool,
    #[deserr(error = Rec2)]
    vv: Vec<i8>,
}
proj_struct!(FieldErr { a, inner, c, d, vv });

/// container-level `error =`: the impl is for one concrete error type (no generic parameter is added)
#[derive(Deserr, Debug)]
#[deserr(error = monitor::Rec, deny_unknown_fields)]
pub struct FixedErr {
    a: u8,
    #[deserr(default)]
    b: Option<String>,
    inner: Plain,
    #[deserr(try_from(u64) = vf::try_even -> vf::Odd)]
    c: u64,
    list: Vec<i8>,
}
proj_struct!(FixedErr { a, b, inner, c, list });

#[derive(Deserr, Debug)]
#[deserr(error = monitor::Rec, tag = "k", validate = vf::val_leaves -> vf::ValErr)]
pub enum FixedErrEnum {
    A { xx: u8, y: (u8, bool) },
    B,
}
proj_enum!(FixedErrEnum { A { xx, y }, B });

#[derive(Deserr, Debug)]
#[deserr(validate = vf::val_leaves -> vf::ValErr)]
pub struct Validated {
    a: u8,
    b: Option<u8>,
    c: Vec<u8>,
}
proj_struct!(Validated { a, b, c });

#[derive(Deserr, Debug)]
#[deserr(tag = "t", validate = vf::val_leaves -> vf::ValErr)]
pub enum ValidatedEnum {
    A,
    B { xx: u8 },
    C { xx: u8, y: u8 },
}
proj_enum!(ValidatedEnum { A, B { xx }, C { xx, y } });

#[derive(Deserr, Debug)]
#[deserr(from(String) = cfrom)]
pub struct CFrom(pub String);
fn cfrom(s: String) -> CFrom {
    log_call("str_to_wrap", format!("{:?}", s.to_proj()), None);
    CFrom(s)
}
impl ToProj for CFrom {
    fn to_proj(&self) -> Proj {
        Proj::Struct("Wrap".into(), vec![("0".into(), Proj::Str(self.0.clone()))])
    }
}

#[derive(Deserr, Debug)]
#[deserr(try_from(String) = ctry -> vf::Empty)]
pub struct CTryFrom(pub String);
fn ctry(s: String) -> Result<CTryFrom, vf::Empty> {
    log_call("try_nonempty", format!("{:?}", s.to_proj()), None);
    if s.is_empty() {
        Err(vf::Empty("empty string".into()))
    } else {
        Ok(CTryFrom(s))
    }
}
impl ToProj for CTryFrom {
    fn to_proj(&self) -> Proj {
        Proj::Struct("Wrap".into(), vec![("0".into(), Proj::Str(self.0.clone()))])
    }
}

#[derive(Deserr, Debug)]
#[deserr(try_from(&Vec<u8>) = ctry_vec -> vf::Empty, validate = vf::val_leaves -> vf::ValErr)]
pub struct CTryFromValidated(pub Vec<u8>);
fn ctry_vec(v: &Vec<u8>) -> Result<CTryFromValidated, vf::Empty> {
    log_call("try_nonempty_vec", format!("{:?}", v.to_proj()), None);
    if v.is_empty() {
        Err(vf::Empty("empty list".into()))
    } else {
        Ok(CTryFromValidated(v.clone()))
    }
}
impl ToProj for CTryFromValidated {
    fn to_proj(&self) -> Proj {
        self.0.to_proj()
    }
}

/// container `from` (by reference) followed by `validate`
#[derive(Deserr, Debug)]
#[deserr(from(&Vec<u8>) = cfrom_vec, validate = vf::val_leaves -> vf::ValErr)]
pub struct CFromValidated(pub Vec<u8>);
fn cfrom_vec(v: &Vec<u8>) -> CFromValidated {
    log_call("wrap_id", format!("{:?}", v.to_proj()), None);
    CFromValidated(v.clone())
}
impl ToProj for CFromValidated {
    fn to_proj(&self) -> Proj {
        self.0.to_proj()
    }
}

// ---------------------------------------------------------------------------------- enums
#[derive(Deserr, Debug)]
#[deserr(tag = "type")]
pub enum TagBasic {
    Unit,
    Point { xx: i16, y: i16 },
    Named {
        name: String,
        #[deserr(default)]
        n: u8,
    },
}
proj_enum!(TagBasic { Unit, Point { xx, y }, Named { name, n } });

#[derive(Deserr, Debug)]
#[deserr(tag = "kind", rename_all = lowercase)]
pub enum TagRenames {
    #[deserr(rename = "FIRST")]
    First { value_one: u8 },
    #[deserr(rename_all = camelCase)]
    SecondOne {
        inner_value: u8,
        #[deserr(rename = "x")]
        other_value: bool,
    },
    ThirdOne,
}
proj_enum!(TagRenames { First { value_one }, SecondOne { inner_value, other_value }, ThirdOne });

#[derive(Deserr, Debug)]
#[deserr(tag = "t")]
pub enum TagShared {
    A { vv: u8, w: String },
    B { vv: String, w: Option<bool> },
    C { vv: Vec<u8> },
}
proj_enum!(TagShared { A { vv, w }, B { vv, w }, C { vv } });

#[derive(Deserr, Debug)]
#[deserr(tag = "kind")]
pub enum TagCollide {
    A {
        kind: u8,
        xx: u8,
    },
    B {
        #[deserr(default)]
        kind: u8,
        xx: u8,
    },
    C,
}
proj_enum!(TagCollide { A { kind, xx }, B { kind, xx }, C });

#[derive(Deserr, Debug)]
#[deserr(tag = "t", deny_unknown_fields)]
pub enum TagDeny {
    A {
        xx: u8,
    },
    B {
        y: Option<u8>,
        #[deserr(skip)]
        z: u8,
    },
    U,
}
proj_enum!(TagDeny { A { xx }, B { y, z }, U });

#[derive(Deserr, Debug)]
#[deserr(tag = "t", deny_unknown_fields = vf::unknown_uk::<__Deserr_E>)]
pub enum TagDenyCustom {
    A { xx: u8 },
    B,
}
proj_enum!(TagDenyCustom { A { xx }, B });

#[derive(Deserr, Debug)]
#[deserr(tag = "t")]
pub enum TagUnitOnly {
    A,
    B,
    #[deserr(rename = "sea")]
    C,
}
proj_enum!(TagUnitOnly { A, B, C });

#[derive(Deserr, Debug, Clone, Copy, PartialEq, Eq, Hash, PartialOrd, Ord, Default)]
pub enum UnitE {
    #[default]
    Alpha,
    Beta,
    Gamma,
}
proj_enum!(UnitE { Alpha, Beta, Gamma });

#[derive(Deserr, Debug)]
pub enum UnitRenamed {
    #[deserr(rename = "one")]
    A,
    B,
    #[deserr(rename = "trois")]
    C,
}
proj_enum!(UnitRenamed { A, B, C });

#[derive(Deserr, Debug)]
#[deserr(rename_all = camelCase)]
pub enum UnitCamel {
    FirstChoice,
    SecondChoice,
    Third,
}
proj_enum!(UnitCamel { FirstChoice, SecondChoice, Third });

#[derive(Deserr, Debug)]
#[deserr(rename_all = lowercase)]
pub enum UnitLower {
    FirstChoice,
    SECOND,
    #[deserr(rename = "Third")]
    Third,
}
proj_enum!(UnitLower { FirstChoice, SECOND, Third });

// ---------------------------------------------------------------------------------- recursion / generics / nesting
#[derive(Deserr, Debug)]
pub struct Node {
    next: Option<Box<Node>>,
    kids: Vec<Node>,
    vv: Option<u8>,
}
proj_struct!(Node { next, kids, vv });

#[derive(Deserr, Debug)]
#[deserr(tag = "t")]
pub enum Tree {
    Leaf { vv: u8 },
    Fork { l: Box<Tree>, r: Box<Tree> },
}
proj_enum!(Tree { Leaf { vv }, Fork { l, r } });

#[derive(Deserr, Debug)]
pub struct GenericNp<A> {
    #[deserr(needs_predicate)]
    a: Vec<A>,
    b: u8,
}
proj_struct!(GenericNp<A> { a, b });

#[derive(Deserr, Debug)]
#[deserr(where_predicate = T: Deserr<__Deserr_E>)]
pub struct GenericWhere<T> {
    doggo: String,
    catto: T,
}
proj_struct!(GenericWhere<T> { doggo, catto });

#[derive(Deserr, Debug)]
pub struct Leaf {
    n: u8,
    #[deserr(default)]
    ss: String,
}
proj_struct!(Leaf { n, ss });

#[derive(Deserr, Debug)]
pub struct Mid {
    leaf: (Leaf, Option<Leaf>),
    arr: [Leaf; 2],
}
proj_struct!(Mid { leaf, arr });

#[derive(Deserr, Debug)]
pub struct Outer {
    inner: Vec<Mid>,
    map: BTreeMap<String, Mid>,
}
proj_struct!(Outer { inner, map });

#[derive(Deserr, Debug)]
pub struct JsonHolder {
    doc: serde_json::Value,
    n: u8,
    ee: UnitE,
}
proj_struct!(JsonHolder { doc, n, ee });

/// One struct that touches most error kinds at several depths (used by C14 and the stress runs).
#[derive(Deserr, Debug)]
#[deserr(deny_unknown_fields, rename_all = camelCase)]
pub struct Kitchen {
    id: u32,
    display_name: String,
    mode: UnitE,
    shape: TagBasic,
    tags: Vec<String>,
    scores: BTreeMap<u8, i16>,
    arr: [i8; 3],
    pair: (u8, bool),
    letter: char,
    #[deserr(try_from(u64) = vf::try_even -> vf::Odd)]
    even: u64,
    #[deserr(default)]
    opt: Option<Plain>,
    nested: Vec<Leaf>,
}
proj_struct!(Kitchen { id, display_name, mode, shape, tags, scores, arr, pair, letter, even, opt, nested });

// ---------------------------------------------------------------------------------- descriptions
fn sdef(name: &str, fields: Vec<FieldDef>) -> StructDef {
    StructDef { name: name.into(), fields, deny: Deny::No, validate: None }
}
fn f(ident: &str, ty: Ty) -> FieldDef {
    FieldDef::plain(ident, ty)
}
fn vd(ident: &str, key: &str, fields: Option<Vec<FieldDef>>) -> VariantDef {
    VariantDef { ident: ident.into(), key: key.into(), fields }
}
fn edef(name: &str, tag: &str, variants: Vec<VariantDef>) -> EnumDef {
    EnumDef { name: name.into(), tag: tag.into(), variants, deny: Deny::No, validate: None }
}
fn udef(name: &str, vs: &[(&str, &str)]) -> UnitEnumDef {
    UnitEnumDef { name: name.into(), variants: vs.iter().map(|(a, b)| (a.to_string(), b.to_string())).collect(), validate: None }
}
fn pu(x: u128) -> Proj {
    Proj::UInt(x)
}

pub fn defs() -> Defs {
    let mut d = Defs::default();
    let st = |s: StructDef| Def::Struct(s);
    d.add(st(sdef("Plain", vec![f("a", u(8)), f("b", Ty::Str), f("c", Ty::Bool)])));
    d.add(st(sdef(
        "Camel",
        vec![
            f("first_name", Ty::Str).key("firstName"),
            f("last_name", Ty::Str).key("LAST"),
            f("age_in_years", u(8)).key("ageInYears"),
            f("x2_value", opt(u(8))).key("x2Value"),
        ],
    )));
    d.add(st(StructDef {
        deny: Deny::Default,
        ..sdef(
            "ToolAttrs",
            vec![
                f("first_one", u(8)).key("FIRST"),
                f("second_one", u(8)).key("secondOne").default(pu(7)),
                f("third_one", opt(Ty::Bool)).key("third").default(Proj::None),
                f("fourth_one", Ty::Str).key("fourthOne"),
            ],
        )
    }));
    d.add(Def::Enum(edef(
        "ToolAttrsEnum",
        "t",
        vec![
            vd("FirstOne", "firstone", Some(vec![f("side_length", u(8)).key("sideLength").default(pu(3))])),
            vd("SecondOne", "Second", None),
            vd("ThirdOne", "thirdone", Some(vec![f("plain_one", u(8))])),
        ],
    )));
    d.add(st(sdef("Lower", vec![f("userName", Ty::Str).key("username"), f("ID", u(8)).key("id"), f("other", Ty::Bool).key("KeepCase")])));
    d.add(st(sdef("RawIdent", vec![f("type", u(8)), f("match", Ty::Str), f("plain", Ty::Bool)])));
    d.add(st(StructDef { deny: Deny::Default, ..sdef("Wide24", vec![f("w00", u(8)), f("w01", u(8)), f("w02", u(8)), f("w03", u(8)).skip(pu(0)), f("w04", u(8)), f("w05", u(8)), f("w06", u(8)), f("w07", u(8)), f("w08", u(8)), f("w09", u(8)), f("w10", u(8)), f("w11", u(8)).skip(pu(0)), f("w12", u(8)), f("w13", u(8)), f("w14", u(8)), f("w15", u(8)), f("w16", u(8)), f("w17", u(8)).skip(pu(0)), f("w18", u(8)), f("w19", u(8)), f("w20", u(8)), f("w21", u(8)), f("w22", u(8)), f("w23", u(8))]) }));
    d.add(Def::Enum(EnumDef {
        deny: Deny::Default,
        ..edef(
            "EmptyVariants",
            "type",
            vec![vd("Ping", "Ping", Some(vec![])), vd("Echo", "Echo", Some(vec![f("msg", Ty::Str)])), vd("Nop", "Nop", None), vd("AllSkipped", "AllSkipped", Some(vec![f("hidden", u(8)).skip(pu(0))]))],
        )
    }));
    d.add(Def::Enum(EnumDef {
        deny: Deny::Custom("unknown_uk".into()),
        ..edef("EmptyVariantsCustom", "type", vec![vd("Ping", "Ping", Some(vec![])), vd("Echo", "Echo", Some(vec![f("msg", Ty::Str)]))])
    }));
    d.add(Def::Enum(edef("TagCamelKey", "shape_kind", vec![vd("CircleShape", "circleShape", Some(vec![f("radius_len", u(8))])), vd("Dot", "dot", None)])));
    d.add(Def::Enum(edef("TagLowerKey", "Type", vec![vd("Big", "big", Some(vec![f("Size", u(8))])), vd("Small", "small", None)])));
    d.add(Def::Enum(edef(
        "VariantBoth",
        "t",
        vec![
            vd("P", "Pear", Some(vec![f("type_of_pear", u(8)).key("typeOfPear")])),
            vd("A", "apple", Some(vec![f("Core_Size", u(8)).key("core_size")])),
            vd("F", "fig", Some(vec![f("seed_count", u(8)).key("seedCount")])),
            vd("Q", "QQ", None),
        ],
    )));
    d.add(st(sdef(
        "SkipThenAttrs",
        vec![f("attempts", u(8)).skip(pu(0)), f("priority", u(8)).map("inc_u8"), f("b", u(8)).key("x"), f("c", u(8)).default(pu(42)), f("d", u(8))],
    )));
    d.add(st(sdef(
        "DefaultsFirst",
        vec![
            f("max_retries", u(8)).key("maxRetries").default(pu(0)),
            f("display_name", Ty::Str).key("displayName"),
            f("back_off", u(8)).key("backOff").default(pu(42)),
            f("owner_id", u(8)).key("ownerId"),
            f("custom_one", u(8)).key("customOne").missing("missing_mf"),
            f("last_one", Ty::Bool).key("lastOne"),
        ],
    )));
    d.add(st(StructDef { deny: Deny::Default, ..sdef("LowerUnicode", vec![f("Été", u(8)).key("été"), f("ÑAME_x", Ty::Bool).key("ñame_x"), f("plain", opt(u(8)))]) }));
    d.add(st(StructDef {
        deny: Deny::Default,
        ..sdef(
            "OddKeys",
            vec![
                f("first", Ty::Str).key("prénom"),
                f("drink", u(8)).key("café"),
                f("long_one", Ty::Bool).key("a_very_long_field_name_for_the_largest_budget"),
                f("empty", opt(u(8))).key("").default(Proj::None),
                f("spaced", opt(u(8))).key("with space").default(Proj::None),
                f("dotted", opt(u(8))).key("dotted.key[0]").default(Proj::None),
                f("quoted", opt(u(8))).key("say \"hi\"").default(Proj::None),
            ],
        )
    }));
    d.add(Def::UnitEnum(udef("OddNames", &[("Coffee", "café"), ("Tea", "thé"), ("Green", "日本茶"), ("Long", "a_very_long_variant_name_for_the_largest_budget")])));
    d.add(Def::UnitEnum(udef("LowerUnicodeUnit", &[("Éclair", "éclair"), ("CrèmeBrÛlée", "crèmebrûlée"), ("Unset", ""), ("Plain", "plain")])));
    d.add(Def::Enum(edef(
        "LowerUnicodeTagged",
        "kind",
        vec![vd("Éclair", "éclair", Some(vec![f("xx", u(8))])), vd("ÑandÚ", "ñandú", None), vd("Unset", "", Some(vec![f("yy", Ty::Bool)])), vd("Plain", "plain", None)],
    )));
    d.add(Def::Enum(edef("DigitVariants", "v", vec![vd("V2Beta", "v2Beta", Some(vec![f("xx", u(8))])), vd("Utf8Lossy", "utf8Lossy", None), vd("Plain7", "plain7", None)])));
    d.add(Def::UnitEnum(udef("DigitUnit", &[("V2Beta", "v2Beta"), ("Utf8Lossy", "utf8Lossy"), ("Sha256", "sha256")])));
    d.add(st(StructDef {
        deny: Deny::Default,
        ..sdef("Hygiene", vec![f("state", u(8)), f("x", u(8)), f("e", u(8)), f("v", u(8)), f("s", u(8)), f("key", u(8)), f("value", u(8)), f("error", u(8)), f("location", u(8)), f("map", u(8)), f("result", u(8)), f("field", u(8)), f("tag_value", u(8)), f("tag_value_string", u(8)), f("deserr_seen", u(8)).default(pu(0)), f("val", u(64)).try_from("try_even"), f("res", u(8)).map("inc_u8")])
    }));
    d.add(Def::Enum(edef(
        "HygieneEnum",
        "t",
        vec![
            vd("A", "A", Some(vec![f("state", u(8)), f("x", u(8)), f("e", u(8)), f("s", u(8)), f("v", u(8)), f("tag_value", u(8)), f("tag_value_string", u(8))])),
            vd("B", "B", Some(vec![f("key", u(8)), f("value", u(8)), f("map", u(8)), f("error", u(8))])),
        ],
    )));
    d.add(st(StructDef { deny: Deny::Default, ..sdef("DenyRaw", vec![f("type", u(8)), f("impl", Ty::Bool), f("plain_one", opt(u(8))).key("plainOne")]) }));
    d.add(Def::UnitEnum(udef("EscapedNames", &[("Back", "back\\\\slash\\x41\\u{e9}"), ("BackslashT", "\\t"), ("Tab", "real\ttab"), ("Plain", "Plain")])));
    d.add(Def::Conv(ConvDef { name: "CTrySame".into(), inter: Ty::Str, conv: Conv::TryFrom("try_same_err".into()), validate: None }));
    d.add(st(sdef("PortInner", vec![f("port", Ty::Str).try_from("try_port")])));
    d.add(st(sdef("PortS", vec![f("port", Ty::Str).try_from("try_port"), f("name", Ty::Str), f("backups", vec(named("PortInner"))).default(Proj::Seq(vec![]))])));
    d.add(st(StructDef {
        deny: Deny::Default,
        ..sdef("LowerUnderscores", vec![f("_geo", u(8)), f("type_", Ty::Bool), f("a__b", opt(u(8))), f("_Vectors_", Ty::Str).key("_vectors_"), f("plain_one", u(8))])
    }));
    d.add(Def::Enum(EnumDef {
        deny: Deny::Default,
        ..edef(
            "VariantNamedLikeField",
            "type",
            vec![
                vd("Text", "text", Some(vec![f("text", Ty::Str)])),
                vd("Image", "image", Some(vec![f("url", Ty::Str), f("image", u(8)).default(pu(0))])),
                vd("Span", "range", Some(vec![f("from_to", u(8)).key("range"), f("plain", opt(u(8)))])),
                vd("Other", "other", None),
            ],
        )
    }));
    d.add(Def::Enum(edef(
        "VariantRuleMix",
        "t",
        vec![
            vd("Created", "Created", Some(vec![f("user_id", u(8)).key("userId"), f("last_name", u(8)).key("lastName")])),
            vd("Deleted", "Deleted", Some(vec![f("user_id", u(8)), f("last_name", u(8))])),
            vd("Kept", "Kept", Some(vec![f("user_id", u(8)), f("last_name", u(8))])),
            vd("Again", "Again", Some(vec![f("user_id", u(8)).key("userId")])),
        ],
    )));
    d.add(Def::UnitEnum(udef("DupNames", &[("Trunk", "trunk"), ("Master", "main"), ("Main", "main"), ("Develop", "develop"), ("Release", "release")])));
    d.add(st(StructDef {
        deny: Deny::Default,
        ..sdef("CamelPascal", vec![f("Name", Ty::Str).key("name"), f("Id", u(8)).key("id"), f("OwnerName", opt(u(8))).key("ownerName"), f("plain", Ty::Bool)])
    }));
    d.add(Def::Enum(edef(
        "RawVariants",
        "t",
        vec![vd("move", "move", Some(vec![f("speed", u(8))])), vd("type", "type", None), vd("Copy", "Copy", Some(vec![f("n", u(8))])), vd("Plain", "Plain", None)],
    )));
    d.add(Def::UnitEnum(udef("RawUnit", &[("type", "type"), ("Copy", "Copy"), ("move", "mv"), ("Other", "Other")])));
    d.add(Def::UnitEnum(udef("RawUnitCamel", &[("TypeOf", "typeOf"), ("Match", "match"), ("Other", "other")])));
    d.add(st(sdef("LowerRaw", vec![f("type", u(8)), f("Other", Ty::Bool).key("other"), f("fn", opt(u(8)))])));
    d.add(st(sdef("CamelRaw", vec![f("match", u(8)), f("two_words", Ty::Bool).key("twoWords"), f("loop", opt(u(8))).key("r#loop")])));
    d.add(st(sdef(
        "MissingRenamed",
        vec![
            f("first_name", Ty::Str).key("firstName").missing("missing_mf"),
            f("id_x", u(8)).key("ID").missing("missing_unexp"),
            f("last_seen_at", opt(u(8))).key("lastSeenAt").default(Proj::None),
        ],
    )));
    d.add(Def::Enum(edef(
        "VariantRules",
        "t",
        vec![
            vd("First", "First", Some(vec![f("side_length", u(8)).key("sideLength")])),
            vd("Second", "Second", Some(vec![f("edge_count", u(8)), f("Mixed_case", Ty::Bool)])),
            vd("Third", "Third", Some(vec![f("Loud_Name", u(8)).key("loud_name")])),
            vd("Fourth", "fourth_renamed", Some(vec![f("plain_one", u(8))])),
            vd("Fifth", "Fifth", Some(vec![f("after_rename", u(8))])),
        ],
    )));
    d.add(st(sdef(
        "Defaults",
        vec![
            f("a", u(8)).default(pu(0)),
            f("b", u(8)).default(pu(42)),
            f("c", opt(u(8))),
            f("d", opt(u(8))).default(Proj::None),
            f("ee", Ty::Str).default(Proj::Str("dflt".into())),
            f("f", Ty::Bool),
        ],
    )));
    d.add(st(sdef(
        "DefaultAndMissingFn",
        vec![
            f("first_one", u(8)).default(pu(0)).missing("missing_mf"),
            f("second_one", u(8)).default(pu(9)).missing("missing_unexp"),
            f("third_one", u(8)).missing("missing_mf"),
            f("fourth_one", Ty::Bool),
        ],
    )));
    d.add(Def::Enum(edef(
        "DefaultAndMissingFnEnum",
        "t",
        vec![vd("A", "A", Some(vec![f("n", u(8)).default(pu(3)).missing("missing_mf"), f("m", u(8))])), vd("B", "B", None)],
    )));
    d.add(st(sdef(
        "SkipMapped",
        vec![f("hidden", u(8)).skip(pu(0)).map("inc_u8"), f("a", u(8)), f("hidden2", u(8)).skip(pu(41)).map("inc_u8"), f("b", Ty::Str).map("upper")],
    )));
    d.add(Def::Enum(edef(
        "SkipMappedEnum",
        "t",
        vec![
            vd("Brace", "Brace", Some(vec![f("hidden", u(8)).skip(pu(6)).map("inc_u8"), f("n", u(8))])),
            vd("OnlySkipped", "OnlySkipped", Some(vec![f("label", Ty::Str).skip(Proj::Str(String::new())).map("upper")])),
            vd("Unit", "Unit", None),
        ],
    )));
    d.add(st(sdef("SkipFirst", vec![f("ss", u(8)).skip(pu(0)), f("a", u(8)), f("b", Ty::Str)])));
    d.add(st(sdef("SkipMiddle", vec![f("a", u(8)), f("ss", Ty::Str).skip(Proj::Str(String::new())), f("b", Ty::Str)])));
    d.add(st(sdef("SkipLast", vec![f("a", u(8)), f("b", opt(Ty::Bool)), f("ss", vec(u(8))).skip(Proj::Seq(vec![]))])));
    d.add(st(sdef("SkipWithDefaultExpr", vec![f("a", u(8)), f("ss", u(8)).skip(pu(42)), f("z", u(8)).default(pu(0))])));
    d.add(st(StructDef { deny: Deny::Default, ..sdef("DenyS", vec![f("alpha", u(8)), f("beta", opt(Ty::Str)), f("gamma", Ty::Bool).key("GAMMA")]) }));
    d.add(st(StructDef { deny: Deny::Custom("unknown_unexp".into()), ..sdef("DenyCustom", vec![f("word", Ty::Str), f("count", u(8)).default(pu(0))]) }));
    d.add(st(StructDef { deny: Deny::Default, ..sdef("DenySkip", vec![f("a", u(8)), f("hidden", u(8)).skip(pu(0)), f("b", Ty::Bool)]) }));
    d.add(st(StructDef {
        deny: Deny::Custom("unknown_foreign".into()),
        ..sdef("ForeignFns", vec![f("id", u(32)).missing("missing_foreign"), f("name", Ty::Str), f("zeta", Ty::Bool).missing("missing_foreign")])
    }));
    d.add(st(sdef("ForeignFnsOuter", vec![f("first", Ty::Bool), f("inner", named("ForeignFns")), f("list", vec(named("ForeignFns")))])));
    d.add(st(sdef("MissingCustom", vec![f("a", u(8)).missing("missing_unexp"), f("b", Ty::Str).missing("missing_mf"), f("c", Ty::Bool)])));
    d.add(st(sdef(
        "ConvS",
        vec![
            f("a", u(64)).from("u64_to_string"),
            f("b", Ty::Str).from("len_of_ref"),
            f("c", u(64)).try_from("try_even"),
            f("d", Ty::Str).try_from("try_ascii_ref"),
            f("ee", u(8)).map("inc_u8"),
            f("f", u(8)).default(pu(0)).map("inc_u8"),
            f("g", i(64)).default(Proj::Int(0)).try_from("try_small"),
        ],
    )));
    d.add(st(sdef(
        "FromNamedFrom",
        vec![f("a", Ty::Str).from("shout_from"), f("b", u(8)).from("inc_into"), f("c", Ty::Str).default(Proj::Str(String::new())).from("shout_from")],
    )));
    d.add(st(sdef(
        "FieldErr",
        vec![
            f("a", u(8)).err2(),
            f("inner", named("Plain")).err2(),
            f("c", u(64)).try_from("try_even").err2(),
            f("d", Ty::Bool),
            f("vv", vec(i(8))).err2(),
        ],
    )));
    d.add(st(StructDef {
        deny: Deny::Default,
        ..sdef("FixedErr", vec![f("a", u(8)), f("b", opt(Ty::Str)).default(Proj::None), f("inner", named("Plain")), f("c", u(64)).try_from("try_even"), f("list", vec(i(8)))])
    }));
    d.add(Def::Enum(EnumDef {
        validate: Some("val_leaves".into()),
        ..edef("FixedErrEnum", "k", vec![vd("A", "A", Some(vec![f("xx", u(8)), f("y", tup(vec![u(8), Ty::Bool]))])), vd("B", "B", None)])
    }));
    d.add(st(StructDef { validate: Some("val_leaves".into()), ..sdef("Validated", vec![f("a", u(8)), f("b", opt(u(8))), f("c", vec(u(8)))]) }));
    d.add(Def::Enum(EnumDef {
        validate: Some("val_leaves".into()),
        ..edef("ValidatedEnum", "t", vec![vd("A", "A", None), vd("B", "B", Some(vec![f("xx", u(8))])), vd("C", "C", Some(vec![f("xx", u(8)), f("y", u(8))]))])
    }));
    d.add(Def::Conv(ConvDef { name: "CFrom".into(), inter: Ty::Str, conv: Conv::From("str_to_wrap".into()), validate: None }));
    d.add(Def::Conv(ConvDef { name: "CTryFrom".into(), inter: Ty::Str, conv: Conv::TryFrom("try_nonempty".into()), validate: None }));
    d.add(Def::Conv(ConvDef { name: "CFromValidated".into(), inter: vec(u(8)), conv: Conv::From("wrap_id".into()), validate: Some("val_leaves".into()) }));
    d.add(Def::Conv(ConvDef {
        name: "CTryFromValidated".into(),
        inter: vec(u(8)),
        conv: Conv::TryFrom("try_nonempty_vec".into()),
        validate: Some("val_leaves".into()),
    }));
    d.add(Def::Enum(edef(
        "TagBasic",
        "type",
        vec![
            vd("Unit", "Unit", None),
            vd("Point", "Point", Some(vec![f("xx", i(16)), f("y", i(16))])),
            vd("Named", "Named", Some(vec![f("name", Ty::Str), f("n", u(8)).default(pu(0))])),
        ],
    )));
    d.add(Def::Enum(edef(
        "TagRenames",
        "kind",
        vec![
            vd("First", "FIRST", Some(vec![f("value_one", u(8))])),
            vd("SecondOne", "secondone", Some(vec![f("inner_value", u(8)).key("innerValue"), f("other_value", Ty::Bool).key("x")])),
            vd("ThirdOne", "thirdone", None),
        ],
    )));
    d.add(Def::Enum(edef(
        "TagShared",
        "t",
        vec![
            vd("A", "A", Some(vec![f("vv", u(8)), f("w", Ty::Str)])),
            vd("B", "B", Some(vec![f("vv", Ty::Str), f("w", opt(Ty::Bool))])),
            vd("C", "C", Some(vec![f("vv", vec(u(8)))])),
        ],
    )));
    d.add(Def::Enum(edef(
        "TagCollide",
        "kind",
        vec![
            vd("A", "A", Some(vec![f("kind", u(8)), f("xx", u(8))])),
            vd("B", "B", Some(vec![f("kind", u(8)).default(pu(0)), f("xx", u(8))])),
            vd("C", "C", None),
        ],
    )));
    d.add(Def::Enum(EnumDef {
        deny: Deny::Default,
        ..edef(
            "TagDeny",
            "t",
            vec![vd("A", "A", Some(vec![f("xx", u(8))])), vd("B", "B", Some(vec![f("y", opt(u(8))), f("z", u(8)).skip(pu(0))])), vd("U", "U", None)],
        )
    }));
    d.add(Def::Enum(EnumDef {
        deny: Deny::Custom("unknown_uk".into()),
        ..edef("TagDenyCustom", "t", vec![vd("A", "A", Some(vec![f("xx", u(8))])), vd("B", "B", None)])
    }));
    d.add(Def::Enum(edef("TagUnitOnly", "t", vec![vd("A", "A", None), vd("B", "B", None), vd("C", "sea", None)])));
    d.add(Def::UnitEnum(udef("UnitE", &[("Alpha", "Alpha"), ("Beta", "Beta"), ("Gamma", "Gamma")])));
    d.add(Def::UnitEnum(udef("UnitRenamed", &[("A", "one"), ("B", "B"), ("C", "trois")])));
    d.add(Def::UnitEnum(udef("UnitCamel", &[("FirstChoice", "firstChoice"), ("SecondChoice", "secondChoice"), ("Third", "third")])));
    d.add(Def::UnitEnum(udef("UnitLower", &[("FirstChoice", "firstchoice"), ("SECOND", "second"), ("Third", "Third")])));
    d.add(st(sdef("Node", vec![f("next", opt(bx(named("Node")))), f("kids", vec(named("Node"))), f("vv", opt(u(8)))])));
    d.add(Def::Enum(edef(
        "Tree",
        "t",
        vec![vd("Leaf", "Leaf", Some(vec![f("vv", u(8))])), vd("Fork", "Fork", Some(vec![f("l", bx(named("Tree"))), f("r", bx(named("Tree")))]))],
    )));
    d.add(st(sdef("GenericNp", vec![f("a", vec(i(16))), f("b", u(8))])));
    d.add(st(sdef("GenericWhere", vec![f("doggo", Ty::Str), f("catto", opt(u(8)))])));
    d.add(st(sdef("Leaf", vec![f("n", u(8)), f("ss", Ty::Str).default(Proj::Str(String::new()))])));
    d.add(st(sdef("Mid", vec![f("leaf", tup(vec![named("Leaf"), opt(named("Leaf"))])), f("arr", arr(named("Leaf"), 2))])));
    d.add(st(sdef("Outer", vec![f("inner", vec(named("Mid"))), f("map", map(KeyTy::Str, named("Mid")))])));
    d.add(st(sdef("JsonHolder", vec![f("doc", Ty::Json), f("n", u(8)), f("ee", named("UnitE"))])));
    d.add(st(StructDef {
        deny: Deny::Default,
        ..sdef(
            "Kitchen",
            vec![
                f("id", u(32)),
                f("display_name", Ty::Str).key("displayName"),
                f("mode", named("UnitE")),
                f("shape", named("TagBasic")),
                f("tags", vec(Ty::Str)),
                f("scores", map(KeyTy::U8, i(16))),
                f("arr", arr(i(8), 3)),
                f("pair", tup(vec![u(8), Ty::Bool])),
                f("letter", Ty::Char),
                f("even", u(64)).try_from("try_even"),
                f("opt", opt(named("Plain"))).default(Proj::None),
                f("nested", vec(named("Leaf"))),
            ],
        )
    }));
    d
}

pub fn registry() -> Registry {
    let mut r = Registry::new();
    r.defs = defs();
    let nz = |bits| Ty::UInt { bits, nonzero: true };
    let nzi = |bits| Ty::Int { bits, nonzero: true };
    // scalars
    const SC: &[&str] = &["std", "scalar"];
    r.all::<()>("()", Ty::Unit, SC);
    r.all::<bool>("bool", Ty::Bool, SC);
    r.all::<char>("char", Ty::Char, SC);
    r.all::<String>("String", Ty::Str, SC);
    r.all::<u8>("u8", u(8), SC);
    r.all::<u16>("u16", u(16), SC);
    r.all::<u32>("u32", u(32), SC);
    r.all::<u64>("u64", u(64), SC);
    r.all::<u128>("u128", u(128), SC);
    r.all::<usize>("usize", u(64), SC);
    r.all::<i8>("i8", i(8), SC);
    r.all::<i16>("i16", i(16), SC);
    r.all::<i32>("i32", i(32), SC);
    r.all::<i64>("i64", i(64), SC);
    r.all::<i128>("i128", i(128), SC);
    r.all::<isize>("isize", i(64), SC);
    r.all::<NonZeroU8>("NonZeroU8", nz(8), SC);
    r.all::<NonZeroU16>("NonZeroU16", nz(16), SC);
    r.all::<NonZeroU32>("NonZeroU32", nz(32), SC);
    r.all::<NonZeroU64>("NonZeroU64", nz(64), SC);
    r.all::<NonZeroU128>("NonZeroU128", nz(128), SC);
    r.all::<NonZeroUsize>("NonZeroUsize", nz(64), SC);
    r.all::<NonZeroI8>("NonZeroI8", nzi(8), SC);
    r.all::<NonZeroI16>("NonZeroI16", nzi(16), SC);
    r.all::<NonZeroI32>("NonZeroI32", nzi(32), SC);
    r.all::<NonZeroI64>("NonZeroI64", nzi(64), SC);
    r.all::<NonZeroI128>("NonZeroI128", nzi(128), SC);
    r.all::<NonZeroIsize>("NonZeroIsize", nzi(64), SC);
    r.all::<f32>("f32", Ty::F32, SC);
    r.all::<f64>("f64", Ty::F64, SC);
    // containers
    const CT: &[&str] = &["std", "container"];
    r.all::<Vec<u8>>("Vec<u8>", vec(u(8)), CT);
    r.all::<Vec<Option<i16>>>("Vec<Option<i16>>", vec(opt(i(16))), CT);
    r.all::<Vec<Vec<bool>>>("Vec<Vec<bool>>", vec(vec(Ty::Bool)), CT);
    r.all::<Vec<(u8, String)>>("Vec<(u8,String)>", vec(tup(vec![u(8), Ty::Str])), CT);
    r.all::<Vec<Plain>>("Vec<Plain>", vec(named("Plain")), CT);
    r.all::<Option<u8>>("Option<u8>", opt(u(8)), CT);
    r.all::<Option<Option<u8>>>("Option<Option<u8>>", opt(opt(u(8))), CT);
    r.all::<Option<Vec<u8>>>("Option<Vec<u8>>", opt(vec(u(8))), CT);
    r.all::<Box<u8>>("Box<u8>", bx(u(8)), CT);
    r.all::<Box<Vec<Box<i8>>>>("Box<Vec<Box<i8>>>", bx(vec(bx(i(8)))), CT);
    r.all::<[u8; 0]>("[u8;0]", arr(u(8), 0), CT);
    r.all::<[u8; 1]>("[u8;1]", arr(u(8), 1), CT);
    r.all::<[i16; 2]>("[i16;2]", arr(i(16), 2), CT);
    r.all::<[String; 3]>("[String;3]", arr(Ty::Str, 3), CT);
    r.all::<[Option<bool>; 4]>("[Option<bool>;4]", arr(opt(Ty::Bool), 4), CT);
    r.all::<[[u8; 2]; 2]>("[[u8;2];2]", arr(arr(u(8), 2), 2), CT);
    r.all::<[Plain; 2]>("[Plain;2]", arr(named("Plain"), 2), CT);
    r.all::<[Vec<i8>; 3]>("[Vec<i8>;3]", arr(vec(i(8)), 3), CT);
    r.all::<(u8, bool)>("(u8,bool)", tup(vec![u(8), Ty::Bool]), CT);
    r.all::<(String, Vec<u8>)>("(String,Vec<u8>)", tup(vec![Ty::Str, vec(u(8))]), CT);
    r.all::<(u8, i8, char)>("(u8,i8,char)", tup(vec![u(8), i(8), Ty::Char]), CT);
    r.all::<((u8, u8), [u8; 2], Option<bool>)>("((u8,u8),[u8;2],Option<bool>)", tup(vec![tup(vec![u(8), u(8)]), arr(u(8), 2), opt(Ty::Bool)]), CT);
    r.all::<HashSet<u8>>("HashSet<u8>", set(u(8)), CT);
    r.all::<BTreeSet<String>>("BTreeSet<String>", set(Ty::Str), CT);
    r.all::<BTreeSet<(u8, u8)>>("BTreeSet<(u8,u8)>", set(tup(vec![u(8), u(8)])), CT);
    r.all::<HashSet<UnitE>>("HashSet<UnitE>", set(named("UnitE")), CT);
    r.all::<HashMap<String, u8>>("HashMap<String,u8>", map(KeyTy::Str, u(8)), CT);
    r.all::<BTreeMap<String, Vec<u8>>>("BTreeMap<String,Vec<u8>>", map(KeyTy::Str, vec(u(8))), CT);
    r.all::<BTreeMap<u8, bool>>("BTreeMap<u8,bool>", map(KeyTy::U8, Ty::Bool), CT);
    r.all::<HashMap<i16, Plain>>("HashMap<i16,Plain>", map(KeyTy::I16, named("Plain")), CT);
    r.all::<BTreeMap<char, u8>>("BTreeMap<char,u8>", map(KeyTy::Char, u(8)), CT);
    r.all::<BTreeMap<bool, u8>>("BTreeMap<bool,u8>", map(KeyTy::Bool, u(8)), CT);
    r.all::<BTreeMap<String, BTreeMap<String, u8>>>("BTreeMap<String,BTreeMap<String,u8>>", map(KeyTy::Str, map(KeyTy::Str, u(8))), CT);
    r.all::<CS<u8>>("CS<u8>", Ty::Cs(CsTy::U8), CT);
    r.all::<CS<String>>("CS<String>", Ty::Cs(CsTy::Str), CT);
    r.all::<CS<i16>>("CS<i16>", Ty::Cs(CsTy::I16), CT);
    r.all::<serde_json::Value>("serde_json::Value", Ty::Json, CT);
    r.all::<Vec<serde_json::Value>>("Vec<serde_json::Value>", vec(Ty::Json), CT);
    r.all::<PhantomData<u8>>("PhantomData<u8>", Ty::Phantom, CT);
    // derived
    const DV: &[&str] = &["derive"];
    r.all::<Plain>("Plain", named("Plain"), DV);
    r.all::<Camel>("Camel", named("Camel"), &["derive", "rename"]);
    r.all::<Lower>("Lower", named("Lower"), &["derive", "rename"]);
    r.all::<RawIdent>("RawIdent", named("RawIdent"), &["derive", "rename", "raw-ident"]);
    r.all::<Wide24>("Wide24", named("Wide24"), &["derive", "deny", "skip", "wide"]);
    r.all::<EmptyVariants>("EmptyVariants", named("EmptyVariants"), &["derive", "enum", "deny", "skip"]);
    r.all::<EmptyVariantsCustom>("EmptyVariantsCustom", named("EmptyVariantsCustom"), &["derive", "enum", "deny", "custom-fn"]);
    r.all::<TagCamelKey>("TagCamelKey", named("TagCamelKey"), &["derive", "enum", "rename"]);
    r.all::<TagLowerKey>("TagLowerKey", named("TagLowerKey"), &["derive", "enum", "rename"]);
    r.all::<VariantBoth>("VariantBoth", named("VariantBoth"), &["derive", "enum", "rename"]);
    r.all::<SkipThenAttrs>("SkipThenAttrs", named("SkipThenAttrs"), &["derive", "skip", "conv", "rename", "default"]);
    r.all::<DefaultsFirst>("DefaultsFirst", named("DefaultsFirst"), &["derive", "default", "rename", "custom-fn"]);
    #[cfg(not(verif_no_edge))]
    r.all::<LowerUnicode>("LowerUnicode", named("LowerUnicode"), &["derive", "rename", "deny"]);
    #[cfg(not(verif_no_edge))]
    r.all::<OddKeys>("OddKeys", named("OddKeys"), &["derive", "rename", "deny", "default"]);
    #[cfg(not(verif_no_edge))]
    r.all::<OddNames>("OddNames", named("OddNames"), &["derive", "unit-enum", "rename"]);
    #[cfg(not(verif_no_edge))]
    r.all::<LowerUnicodeUnit>("LowerUnicodeUnit", named("LowerUnicodeUnit"), &["derive", "unit-enum", "rename"]);
    #[cfg(not(verif_no_edge))]
    r.all::<LowerUnicodeTagged>("LowerUnicodeTagged", named("LowerUnicodeTagged"), &["derive", "enum", "rename"]);
    r.all::<DigitVariants>("DigitVariants", named("DigitVariants"), &["derive", "enum", "rename"]);
    r.all::<DigitUnit>("DigitUnit", named("DigitUnit"), &["derive", "unit-enum", "rename"]);
    #[cfg(not(verif_no_edge))]
    r.all::<Hygiene>("Hygiene", named("Hygiene"), &["derive", "deny", "conv", "hygiene"]);
    #[cfg(not(verif_no_edge))]
    r.all::<HygieneEnum>("HygieneEnum", named("HygieneEnum"), &["derive", "enum", "hygiene"]);
    r.all::<DenyRaw>("DenyRaw", named("DenyRaw"), &["derive", "deny", "rename", "raw-ident"]);
    #[cfg(not(verif_no_edge))]
    r.all::<EscapedNames>("EscapedNames", named("EscapedNames"), &["derive", "unit-enum", "rename"]);
    r.all::<CTrySame>("CTrySame", named("CTrySame"), &["derive", "conv"]);
    r.all::<PortS>("PortS", named("PortS"), &["derive", "conv", "nested"]);
    r.all::<Vec<()>>("Vec<()>", vec(Ty::Unit), CT);
    r.all::<HashSet<()>>("HashSet<()>", set(Ty::Unit), CT);
    r.all::<BTreeMap<String, ()>>("BTreeMap<String,()>", map(KeyTy::Str, Ty::Unit), CT);
    r.all::<Vec<PhantomData<u8>>>("Vec<PhantomData<u8>>", vec(Ty::Phantom), CT);
    r.all::<Option<Option<()>>>("Option<Option<()>>", opt(opt(Ty::Unit)), CT);
    r.all::<LowerUnderscores>("LowerUnderscores", named("LowerUnderscores"), &["derive", "rename", "deny"]);
    r.all::<VariantNamedLikeField>("VariantNamedLikeField", named("VariantNamedLikeField"), &["derive", "enum", "rename", "deny", "default"]);
    r.all::<VariantRuleMix>("VariantRuleMix", named("VariantRuleMix"), &["derive", "enum", "rename"]);
    r.all::<DupNames>("DupNames", named("DupNames"), &["derive", "unit-enum", "rename"]);
    r.all::<CamelPascal>("CamelPascal", named("CamelPascal"), &["derive", "rename", "deny"]);
    r.all::<RawVariants>("RawVariants", named("RawVariants"), &["derive", "enum", "raw-ident"]);
    r.all::<RawUnit>("RawUnit", named("RawUnit"), &["derive", "unit-enum", "raw-ident", "rename"]);
    r.all::<RawUnitCamel>("RawUnitCamel", named("RawUnitCamel"), &["derive", "unit-enum", "raw-ident", "rename"]);
    r.all::<LowerRaw>("LowerRaw", named("LowerRaw"), &["derive", "rename", "raw-ident"]);
    r.all::<CamelRaw>("CamelRaw", named("CamelRaw"), &["derive", "rename", "raw-ident"]);
    r.all::<MissingRenamed>("MissingRenamed", named("MissingRenamed"), &["derive", "rename", "custom-fn"]);
    r.all::<ToolAttrs>("ToolAttrs", named("ToolAttrs"), &["derive", "rename", "deny", "default", "foreign-attrs"]);
    r.all::<ToolAttrsEnum>("ToolAttrsEnum", named("ToolAttrsEnum"), &["derive", "enum", "rename", "default", "foreign-attrs"]);
    r.all::<VariantRules>("VariantRules", named("VariantRules"), &["derive", "enum", "rename"]);
    r.all::<Defaults>("Defaults", named("Defaults"), &["derive", "default"]);
    r.all::<DefaultAndMissingFn>("DefaultAndMissingFn", named("DefaultAndMissingFn"), &["derive", "default", "custom-fn"]);
    r.all::<DefaultAndMissingFnEnum>("DefaultAndMissingFnEnum", named("DefaultAndMissingFnEnum"), &["derive", "enum", "default", "custom-fn"]);
    r.all::<SkipMapped>("SkipMapped", named("SkipMapped"), &["derive", "skip", "conv", "default"]);
    r.all::<SkipMappedEnum>("SkipMappedEnum", named("SkipMappedEnum"), &["derive", "enum", "skip", "conv", "default"]);
    r.all::<SkipFirst>("SkipFirst", named("SkipFirst"), &["derive", "skip"]);
    r.all::<SkipMiddle>("SkipMiddle", named("SkipMiddle"), &["derive", "skip"]);
    r.all::<SkipLast>("SkipLast", named("SkipLast"), &["derive", "skip"]);
    r.all::<SkipWithDefaultExpr>("SkipWithDefaultExpr", named("SkipWithDefaultExpr"), &["derive", "skip", "default"]);
    r.all::<DenyS>("DenyS", named("DenyS"), &["derive", "deny"]);
    r.all::<DenyCustom>("DenyCustom", named("DenyCustom"), &["derive", "deny", "custom-fn"]);
    r.all::<DenySkip>("DenySkip", named("DenySkip"), &["derive", "deny", "skip"]);
    r.all::<ForeignFns>("ForeignFns", named("ForeignFns"), &["derive", "deny", "custom-fn", "foreign-fn"]);
    r.all::<ForeignFnsOuter>("ForeignFnsOuter", named("ForeignFnsOuter"), &["derive", "deny", "custom-fn", "foreign-fn"]);
    r.all::<MissingCustom>("MissingCustom", named("MissingCustom"), &["derive", "custom-fn"]);
    r.all::<ConvS>("ConvS", named("ConvS"), &["derive", "conv"]);
    r.all::<FromNamedFrom>("FromNamedFrom", named("FromNamedFrom"), &["derive", "conv", "default"]);
    r.rec::<FieldErr>("FieldErr", named("FieldErr"), &["derive", "conv", "err2"]);
    r.rec::<FixedErr>("FixedErr", named("FixedErr"), &["derive", "conv", "deny", "fixed-error"]);
    r.rec::<FixedErrEnum>("FixedErrEnum", named("FixedErrEnum"), &["derive", "conv", "enum", "validate", "fixed-error"]);
    r.all::<Validated>("Validated", named("Validated"), &["derive", "conv", "validate"]);
    r.all::<ValidatedEnum>("ValidatedEnum", named("ValidatedEnum"), &["derive", "conv", "validate", "enum"]);
    r.all::<CFrom>("CFrom", named("CFrom"), &["derive", "conv"]);
    r.all::<CTryFrom>("CTryFrom", named("CTryFrom"), &["derive", "conv"]);
    r.all::<CFromValidated>("CFromValidated", named("CFromValidated"), &["derive", "conv", "validate"]);
    r.all::<CTryFromValidated>("CTryFromValidated", named("CTryFromValidated"), &["derive", "conv", "validate"]);
    r.all::<TagBasic>("TagBasic", named("TagBasic"), &["derive", "enum"]);
    r.all::<TagRenames>("TagRenames", named("TagRenames"), &["derive", "enum", "rename"]);
    r.all::<TagShared>("TagShared", named("TagShared"), &["derive", "enum"]);
    r.all::<TagCollide>("TagCollide", named("TagCollide"), &["derive", "enum"]);
    r.all::<TagDeny>("TagDeny", named("TagDeny"), &["derive", "enum", "deny", "skip"]);
    r.all::<TagDenyCustom>("TagDenyCustom", named("TagDenyCustom"), &["derive", "enum", "deny", "custom-fn"]);
    r.all::<TagUnitOnly>("TagUnitOnly", named("TagUnitOnly"), &["derive", "enum"]);
    r.all::<UnitE>("UnitE", named("UnitE"), &["derive", "unit-enum"]);
    r.all::<UnitRenamed>("UnitRenamed", named("UnitRenamed"), &["derive", "unit-enum", "rename"]);
    r.all::<UnitCamel>("UnitCamel", named("UnitCamel"), &["derive", "unit-enum", "rename"]);
    r.all::<UnitLower>("UnitLower", named("UnitLower"), &["derive", "unit-enum", "rename"]);
    r.all::<Node>("Node", named("Node"), &["derive", "recursive"]);
    r.all::<Tree>("Tree", named("Tree"), &["derive", "enum", "recursive"]);
    r.all::<GenericNp<i16>>("GenericNp", named("GenericNp"), &["derive", "generic"]);
    r.all::<GenericWhere<Option<u8>>>("GenericWhere", named("GenericWhere"), &["derive", "generic"]);
    r.all::<Leaf>("Leaf", named("Leaf"), &["derive", "default"]);
    r.all::<Mid>("Mid", named("Mid"), &["derive", "nested"]);
    r.all::<Outer>("Outer", named("Outer"), &["derive", "nested"]);
    r.all::<JsonHolder>("JsonHolder", named("JsonHolder"), &["derive", "nested"]);
    r.all::<Kitchen>("Kitchen", named("Kitchen"), &["derive", "nested", "deny", "conv", "rename"]);
    r
}
