//! Subjects: instrumented user functions, the hand-written catalogue of target types (Rust type +
//! hand-written description), and the `Subject` abstraction the drivers run.
pub mod catalogue;
pub mod subject;
pub mod vf;

pub use subject::{Registry, Subject};
