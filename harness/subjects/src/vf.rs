//! Instrumented user functions. Each logs a `Call` event; behaviour mirrors refmodel::vf.
use deserr::{take_cf_content, DeserializeError, ErrorKind, ValuePointerRef};
use monitor::{log_call, Foreign, ToProj};
use std::convert::Infallible;
use std::fmt;
use vcore::Proj;

macro_rules! foreign {
    ($n:ident) => {
        #[derive(Debug)]
        pub struct $n(pub String);
        impl fmt::Display for $n {
            fn fmt(&self, f: &mut fmt::Formatter<'_>) -> fmt::Result {
                write!(f, "{}", self.0)
            }
        }
        impl std::error::Error for $n {}
        impl Foreign for $n {
            const NAME: &'static str = stringify!($n);
        }
    };
}
foreign!(Odd);
foreign!(NotAscii);
foreign!(TooBig);
foreign!(Empty);
foreign!(ValErr);
foreign!(Denied);
foreign!(Needed);

/// newtype used by container-level from/try_from subjects
#[derive(Debug, Clone, PartialEq)]
pub struct Wrap(pub String);
impl ToProj for Wrap {
    fn to_proj(&self) -> Proj {
        Proj::Struct("Wrap".into(), vec![("0".into(), Proj::Str(self.0.clone()))])
    }
}

/// a foreign error that has an underlying cause (`Error::source`)
#[derive(Debug)]
pub struct Sourced {
    pub msg: String,
    pub inner: std::num::ParseIntError,
}
impl fmt::Display for Sourced {
    fn fmt(&self, f: &mut fmt::Formatter<'_>) -> fmt::Result {
        write!(f, "{}", self.msg)
    }
}
impl std::error::Error for Sourced {
    fn source(&self) -> Option<&(dyn std::error::Error + 'static)> {
        Some(&self.inner)
    }
}
impl Foreign for Sourced {
    const NAME: &'static str = "Sourced";
}

fn arg<T: ToProj>(x: &T) -> String {
    format!("{:?}", x.to_proj())
}

// ---- from --------------------------------------------------------------------------------------
pub fn u64_to_string(x: u64) -> String {
    log_call("u64_to_string", arg(&x), None);
    x.to_string()
}
pub fn len_of_ref(s: &String) -> usize {
    log_call("len_of_ref", arg(s), None);
    s.len()
}
pub fn len_of_ref_u64(s: &String) -> u64 {
    log_call("len_of_ref", arg(s), None);
    s.len() as u64
}
pub fn str_to_wrap(s: String) -> Wrap {
    log_call("str_to_wrap", arg(&s), None);
    Wrap(s)
}
pub fn vec_sum(v: Vec<u8>) -> u64 {
    log_call("vec_sum", arg(&v), None);
    v.iter().fold(0u64, |a, b| a.wrapping_add(*b as u64))
}

// ---- try_from ----------------------------------------------------------------------------------
pub fn try_even(x: u64) -> Result<u64, Odd> {
    log_call("try_even", arg(&x), None);
    if x % 2 == 0 {
        Ok(x)
    } else {
        Err(Odd(format!("odd number {x}")))
    }
}
pub fn try_even_ref(x: &u64) -> Result<u64, Odd> {
    log_call("try_even_ref", arg(x), None);
    if x % 2 == 0 {
        Ok(*x)
    } else {
        Err(Odd(format!("odd number {x}")))
    }
}
pub fn try_ascii_ref(s: &String) -> Result<String, NotAscii> {
    log_call("try_ascii_ref", arg(s), None);
    if s.is_ascii() {
        Ok(s.to_ascii_uppercase())
    } else {
        Err(NotAscii(format!("not ascii: {s}")))
    }
}
pub fn try_small(x: i64) -> Result<i64, TooBig> {
    log_call("try_small", arg(&x), None);
    if (-100..=100).contains(&x) {
        Ok(x)
    } else {
        Err(TooBig(format!("{x} is outside -100..=100")))
    }
}
pub fn try_nonempty(s: String) -> Result<Wrap, Empty> {
    log_call("try_nonempty", arg(&s), None);
    if !s.is_empty() {
        Ok(Wrap(s))
    } else {
        Err(Empty("empty string".into()))
    }
}

pub fn try_port(s: &String) -> Result<u16, Sourced> {
    log_call("try_port", arg(s), None);
    s.parse::<u16>().map_err(|inner| Sourced { msg: format!("`{s}` is not a valid port number"), inner })
}

// ---- map ---------------------------------------------------------------------------------------
pub fn inc_u8(x: u8) -> u8 {
    log_call("inc_u8", arg(&x), None);
    x.wrapping_add(1)
}
pub fn inc_u64(x: u64) -> u64 {
    log_call("inc_u64", arg(&x), None);
    x.wrapping_add(1)
}
pub fn neg_i16(x: i16) -> i16 {
    log_call("neg_i16", arg(&x), None);
    x.wrapping_neg()
}
pub fn upper(s: String) -> String {
    log_call("upper", arg(&s), None);
    s.to_uppercase()
}
pub fn not_bool(b: bool) -> bool {
    log_call("not_bool", arg(&b), None);
    !b
}
pub fn some_to_none_if_zero(o: Option<u8>) -> Option<u8> {
    log_call("some_to_none_if_zero", arg(&o), None);
    match o {
        Some(0) => None,
        x => x,
    }
}
pub fn push_seven(mut v: Vec<u8>) -> Vec<u8> {
    log_call("push_seven", arg(&v), None);
    v.push(7);
    v
}

// ---- validate ----------------------------------------------------------------------------------
pub fn val_leaves<T: ToProj>(v: T, loc: ValuePointerRef) -> Result<T, ValErr> {
    let p = v.to_proj();
    log_call("val_leaves", format!("{p:?}"), Some(loc));
    let n = p.leaves();
    if n % 2 == 1 {
        Err(ValErr(format!("odd number of leaves: {n}")))
    } else {
        Ok(v)
    }
}
pub fn val_ok<T: ToProj>(v: T, loc: ValuePointerRef) -> Result<T, ValErr> {
    log_call("val_ok", format!("{:?}", v.to_proj()), Some(loc));
    Ok(v)
}

// ---- custom missing-field / unknown-key functions ------------------------------------------------
pub fn missing_mf<E: DeserializeError>(key: &str, loc: ValuePointerRef) -> E {
    log_call("missing_mf", key.to_string(), Some(loc));
    take_cf_content(E::error::<Infallible>(None, ErrorKind::MissingField { field: key }, loc))
}
pub fn missing_unexp<E: DeserializeError>(key: &str, loc: ValuePointerRef) -> E {
    log_call("missing_unexp", key.to_string(), Some(loc));
    take_cf_content(E::error::<Infallible>(None, ErrorKind::Unexpected { msg: format!("custom missing <{key}>") }, loc))
}
pub fn unknown_uk<E: DeserializeError>(key: &str, accepted: &[&str], loc: ValuePointerRef) -> E {
    log_call("unknown_uk", format!("{key}|{accepted:?}"), Some(loc));
    take_cf_content(E::error::<Infallible>(None, ErrorKind::UnknownKey { key, accepted }, loc))
}
pub fn unknown_unexp<E: DeserializeError>(key: &str, accepted: &[&str], loc: ValuePointerRef) -> E {
    log_call("unknown_unexp", format!("{key}|{accepted:?}"), Some(loc));
    take_cf_content(E::error::<Infallible>(None, ErrorKind::Unexpected { msg: format!("custom unknown <{key}>") }, loc))
}

/// custom functions that return an error type of their own (handed to the container's error type by the derive)
pub fn unknown_foreign(key: &str, accepted: &[&str], loc: ValuePointerRef) -> Denied {
    log_call("unknown_foreign", format!("{key}|{accepted:?}"), Some(loc));
    Denied(format!("no such key <{key}>"))
}
pub fn missing_foreign(key: &str, loc: ValuePointerRef) -> Needed {
    log_call("missing_foreign", key.to_string(), Some(loc));
    Needed(format!("<{key}> is mandatory"))
}

// ---- defaults ----------------------------------------------------------------------------------
pub fn dflt_u8() -> u8 {
    42
}
pub fn dflt_string() -> String {
    "dflt".to_string()
}
