use deserr::errors::{JsonError, QueryParamError};
use deserr::Deserr;
use monitor::{Rec, Run, Script, ToProj};
use refmodel::{Defs, Ty};
use std::marker::PhantomData;
use vcore::{Ov, Proj};

/// A target type the drivers can run: real deserr code behind a uniform, monitored interface.
pub trait Subject: Send + Sync {
    fn name(&self) -> &str;
    fn ty(&self) -> &Ty;
    /// feature labels ("std", "derive", "generated", "conv", "enum", ...)
    fn tags(&self) -> &[&'static str];
    fn run_ov(&self, p: &Ov, s: Script) -> Run;
    fn run_json(&self, p: &serde_json::Value, s: Script) -> Run;
    /// through JsonError (None when the type is fixed to the recording error type)
    fn run_jsonerror(&self, p: &serde_json::Value) -> Option<Result<Result<Proj, String>, String>>;
    fn run_qperror(&self, p: &serde_json::Value) -> Option<Result<Result<Proj, String>, String>>;
    /// through the built-in error types with the second value source: (error type name, outcome)
    fn run_ov_builtins(&self, _p: &Ov) -> Vec<(&'static str, Result<Result<Proj, String>, String>)> {
        vec![]
    }
    /// Rust source of a generated subject
    fn source(&self) -> Option<&str> {
        None
    }
    fn has(&self, tag: &str) -> bool {
        self.tags().contains(&tag)
    }
}

pub struct SRec<T> {
    pub name: String,
    pub ty: Ty,
    pub tags: Vec<&'static str>,
    pub source: Option<String>,
    pub _p: PhantomData<fn() -> T>,
}

impl<T: Deserr<Rec> + ToProj> Subject for SRec<T> {
    fn name(&self) -> &str {
        &self.name
    }
    fn ty(&self) -> &Ty {
        &self.ty
    }
    fn tags(&self) -> &[&'static str] {
        &self.tags
    }
    fn run_ov(&self, p: &Ov, s: Script) -> Run {
        monitor::run_ov::<T>(p, s)
    }
    fn run_json(&self, p: &serde_json::Value, s: Script) -> Run {
        monitor::run_json::<T>(p, s)
    }
    fn run_jsonerror(&self, _p: &serde_json::Value) -> Option<Result<Result<Proj, String>, String>> {
        None
    }
    fn run_qperror(&self, _p: &serde_json::Value) -> Option<Result<Result<Proj, String>, String>> {
        None
    }
    fn source(&self) -> Option<&str> {
        self.source.as_deref()
    }
}

pub struct SAll<T> {
    pub name: String,
    pub ty: Ty,
    pub tags: Vec<&'static str>,
    pub source: Option<String>,
    pub _p: PhantomData<fn() -> T>,
}

impl<T: Deserr<Rec> + Deserr<JsonError> + Deserr<QueryParamError> + ToProj> Subject for SAll<T> {
    fn name(&self) -> &str {
        &self.name
    }
    fn ty(&self) -> &Ty {
        &self.ty
    }
    fn tags(&self) -> &[&'static str] {
        &self.tags
    }
    fn run_ov(&self, p: &Ov, s: Script) -> Run {
        monitor::run_ov::<T>(p, s)
    }
    fn run_json(&self, p: &serde_json::Value, s: Script) -> Run {
        monitor::run_json::<T>(p, s)
    }
    fn run_jsonerror(&self, p: &serde_json::Value) -> Option<Result<Result<Proj, String>, String>> {
        Some(monitor::run_json_with::<T, JsonError>(p))
    }
    fn run_qperror(&self, p: &serde_json::Value) -> Option<Result<Result<Proj, String>, String>> {
        Some(monitor::run_json_with::<T, QueryParamError>(p))
    }
    fn run_ov_builtins(&self, p: &Ov) -> Vec<(&'static str, Result<Result<Proj, String>, String>)> {
        vec![("JsonError", monitor::run_ov_with::<T, JsonError>(p)), ("QueryParamError", monitor::run_ov_with::<T, QueryParamError>(p))]
    }
    fn source(&self) -> Option<&str> {
        self.source.as_deref()
    }
}

pub struct Registry {
    pub defs: Defs,
    pub subjects: Vec<Box<dyn Subject>>,
}

impl Registry {
    pub fn new() -> Self {
        Registry { defs: Defs::default(), subjects: vec![] }
    }
    pub fn all<T>(&mut self, name: &str, ty: Ty, tags: &[&'static str])
    where
        T: Deserr<Rec> + Deserr<JsonError> + Deserr<QueryParamError> + ToProj + 'static,
    {
        self.subjects.push(Box::new(SAll::<T> { name: name.into(), ty, tags: tags.to_vec(), source: None, _p: PhantomData }));
    }
    pub fn rec<T>(&mut self, name: &str, ty: Ty, tags: &[&'static str])
    where
        T: Deserr<Rec> + ToProj + 'static,
    {
        self.subjects.push(Box::new(SRec::<T> { name: name.into(), ty, tags: tags.to_vec(), source: None, _p: PhantomData }));
    }
    pub fn all_src<T>(&mut self, name: &str, ty: Ty, tags: &[&'static str], source: &str)
    where
        T: Deserr<Rec> + Deserr<JsonError> + Deserr<QueryParamError> + ToProj + 'static,
    {
        self.subjects.push(Box::new(SAll::<T> { name: name.into(), ty, tags: tags.to_vec(), source: Some(source.into()), _p: PhantomData }));
    }
    pub fn rec_src<T>(&mut self, name: &str, ty: Ty, tags: &[&'static str], source: &str)
    where
        T: Deserr<Rec> + ToProj + 'static,
    {
        self.subjects.push(Box::new(SRec::<T> { name: name.into(), ty, tags: tags.to_vec(), source: Some(source.into()), _p: PhantomData }));
    }
    pub fn merge(&mut self, o: Registry) {
        self.defs.extend(o.defs);
        self.subjects.extend(o.subjects);
    }
    pub fn get(&self, name: &str) -> Option<&dyn Subject> {
        self.subjects.iter().find(|s| s.name() == name).map(|b| b.as_ref())
    }
}
