//! Small independent specs (none of them shares code with deserr or with the crates deserr uses).
use std::collections::HashMap;

/// True (unrestricted) Damerau–Levenshtein distance over chars: insertions, deletions, substitutions
/// and transpositions of adjacent characters, where a transposed pair may be edited again.
pub fn damerau_levenshtein(a: &str, b: &str) -> usize {
    let a: Vec<char> = a.chars().collect();
    let b: Vec<char> = b.chars().collect();
    let (n, m) = (a.len(), b.len());
    if n == 0 {
        return m;
    }
    if m == 0 {
        return n;
    }
    let inf = n + m;
    // d has an extra leading row/column (index shifted by one)
    let mut d = vec![vec![0usize; m + 2]; n + 2];
    d[0][0] = inf;
    for i in 0..=n {
        d[i + 1][0] = inf;
        d[i + 1][1] = i;
    }
    for j in 0..=m {
        d[0][j + 1] = inf;
        d[1][j + 1] = j;
    }
    let mut last_row: HashMap<char, usize> = HashMap::new();
    for i in 1..=n {
        let mut last_match_col = 0usize;
        for j in 1..=m {
            let i1 = *last_row.get(&b[j - 1]).unwrap_or(&0);
            let j1 = last_match_col;
            let cost = if a[i - 1] == b[j - 1] {
                last_match_col = j;
                0
            } else {
                1
            };
            let sub = d[i][j] + cost;
            let ins = d[i + 1][j] + 1;
            let del = d[i][j + 1] + 1;
            let tr = d[i1][j1] + (i - i1 - 1) + 1 + (j - j1 - 1);
            d[i + 1][j + 1] = sub.min(ins).min(del).min(tr);
        }
        last_row.insert(a[i - 1], i);
    }
    d[n + 1][m + 1]
}

/// The suggestion the statement of C18 allows: the earliest accepted string at minimal distance within
/// the budget for the received BYTE length; None when there is none.
pub fn suggestion<'a>(received: &str, accepted: &[&'a str]) -> Option<&'a str> {
    let budget = match received.len() {
        0..=3 => return None,
        4..=7 => 1,
        8..=12 => 2,
        13..=17 => 3,
        18..=24 => 4,
        _ => 5,
    };
    let mut best: Option<(&str, usize)> = None;
    for a in accepted {
        let d = damerau_levenshtein(received, a);
        if d <= budget && best.map_or(true, |(_, bd)| d < bd) {
            best = Some((a, d));
        }
    }
    best.map(|b| b.0)
}

#[cfg(test)]
mod tests {
    use super::*;
    #[test]
    fn dl() {
        assert_eq!(damerau_levenshtein("ca", "abc"), 2);
        assert_eq!(damerau_levenshtein("abcd", "acbd"), 1);
        assert_eq!(damerau_levenshtein("kitten", "sitting"), 3);
        assert_eq!(damerau_levenshtein("", "abc"), 3);
        assert_eq!(damerau_levenshtein("a", "a"), 0);
    }
}
