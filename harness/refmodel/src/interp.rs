//! Independent executable model of the documented semantics of the keep-going run
//! (DESIGN.md Appendix A). Written over the plain `Ov` tree; shares no code with deserr.
use crate::types::*;
use crate::vf::{self, CustomReport};
use std::collections::{BTreeMap, BTreeSet};
use vcore::{Ov, Path, Proj, Step, VK};

#[derive(Clone, Debug, PartialEq)]
pub enum PKind {
    Kind { actual: VK, accepted: BTreeSet<VK> },
    BadLen { expected: usize, len: usize },
    Missing { field: String },
    UnknownKey { key: String, accepted: Vec<String> },
    UnknownValue { value: String, accepted: Vec<String> },
    /// only the facts the message has to contain are predicted, never the wording
    Unexpected { facts: Vec<String>, class: &'static str },
    Foreign { name: String, msg: String },
}

impl PKind {
    /// Wording-free digest; the observed side computes the same string from the structured report.
    pub fn digest(&self) -> String {
        match self {
            PKind::Kind { actual, accepted } => format!("kind:{actual:?}->{accepted:?}"),
            PKind::BadLen { expected, len } => format!("bad_len:expected={expected}:len={len}"),
            PKind::Missing { field } => format!("missing:{field}"),
            PKind::UnknownKey { key, accepted } => format!("unknown_key:{key}:{accepted:?}"),
            PKind::UnknownValue { value, accepted } => format!("unknown_value:{value}:{accepted:?}"),
            PKind::Unexpected { .. } => "unexpected".to_string(),
            PKind::Foreign { name, msg } => format!("foreign:{name}:{msg}"),
        }
    }
}

#[derive(Clone, Debug, PartialEq)]
pub struct PRep {
    pub kind: PKind,
    pub loc: Path,
    /// the set of locations at which this report is handed over on its way to the caller
    pub handovers: BTreeSet<Path>,
    /// which error type receives it first (1 under a field-level `error = Rec2`)
    pub ety: u8,
}

#[derive(Clone, Debug, PartialEq, Eq, PartialOrd, Ord)]
pub struct PCall {
    pub name: String,
    pub arg: String,
    pub loc: Option<Path>,
}

#[derive(Clone, Debug, Default)]
pub struct Pred {
    /// Some iff `reports` is empty
    pub value: Option<Proj>,
    pub reports: Vec<PRep>,
    /// nodes that get deserialized (paths)
    pub visited: Vec<Path>,
    /// payload entries stored under the name of a skipped field: must never be examined
    pub skipped_entries: Vec<Path>,
    pub calls: Vec<PCall>,
}

struct M<'a> {
    defs: &'a Defs,
    out: Pred,
    /// element positions currently being deserialized (innermost last)
    stack: Vec<Path>,
    ety: u8,
}

pub fn interp(defs: &Defs, ty: &Ty, payload: &Ov) -> Pred {
    let mut m = M { defs, out: Pred::default(), stack: vec![], ety: 0 };
    let v = m.go(ty, payload, &vec![]);
    let mut out = m.out;
    out.value = if out.reports.is_empty() { v } else { None };
    if out.reports.is_empty() {
        assert!(out.value.is_some(), "model: no report but no value");
    }
    out
}

fn ext(l: &Path, s: Step) -> Path {
    let mut p = l.clone();
    p.push(s);
    p
}

fn int_bounds(bits: u8, signed: bool) -> (i128, u128) {
    if signed {
        let min = if bits == 128 { i128::MIN } else { -(1i128 << (bits - 1)) };
        let max = if bits == 128 { i128::MAX as u128 } else { (1u128 << (bits - 1)) - 1 };
        (min, max)
    } else {
        (0, if bits == 128 { u128::MAX } else { (1u128 << bits) - 1 })
    }
}

impl<'a> M<'a> {
    fn report(&mut self, kind: PKind, loc: &Path) {
        let handovers = self.stack.iter().cloned().collect();
        self.out.reports.push(PRep { kind, loc: loc.clone(), handovers, ety: self.ety });
    }
    /// report that is additionally handed over at `extra` (custom missing / unknown-key functions)
    fn report_plus(&mut self, kind: PKind, loc: &Path, extra: &Path) {
        let mut handovers: BTreeSet<Path> = self.stack.iter().cloned().collect();
        handovers.insert(extra.clone());
        self.out.reports.push(PRep { kind, loc: loc.clone(), handovers, ety: self.ety });
    }
    fn kind_err(&mut self, v: &Ov, accepted: &[VK], loc: &Path) -> Option<Proj> {
        self.report(PKind::Kind { actual: v.kind(), accepted: accepted.iter().copied().collect() }, loc);
        None
    }
    fn child(&mut self, ty: &Ty, v: &Ov, loc: Path) -> Option<Proj> {
        self.stack.push(loc.clone());
        let r = self.go(ty, v, &loc);
        self.stack.pop();
        r
    }

    fn go(&mut self, ty: &Ty, v: &Ov, loc: &Path) -> Option<Proj> {
        self.out.visited.push(loc.clone());
        match ty {
            Ty::Unit => match v {
                Ov::Null => Some(Proj::Unit),
                _ => self.kind_err(v, &[VK::Null], loc),
            },
            Ty::Bool => match v {
                Ov::Bool(b) => Some(Proj::Bool(*b)),
                _ => self.kind_err(v, &[VK::Boolean], loc),
            },
            Ty::Str => match v {
                Ov::Str(s) => Some(Proj::Str(s.clone())),
                _ => self.kind_err(v, &[VK::String], loc),
            },
            Ty::Char => match v {
                Ov::Str(s) => {
                    let n = s.chars().count();
                    if n == 1 {
                        Some(Proj::Char(s.chars().next().unwrap()))
                    } else {
                        let facts = if n == 0 { vec![] } else { vec![s.clone(), n.to_string()] };
                        self.report(PKind::Unexpected { facts, class: "char-count" }, loc);
                        None
                    }
                }
                _ => self.kind_err(v, &[VK::String], loc),
            },
            Ty::UInt { bits, nonzero } => match v {
                Ov::Int(x) => {
                    let (_, max) = int_bounds(*bits, false);
                    if *nonzero && *x == 0 {
                        self.report(PKind::Unexpected { facts: vec!["zero".into()], class: "zero" }, loc);
                        None
                    } else if (*x as u128) > max {
                        self.report(PKind::Unexpected { facts: vec![x.to_string(), max.to_string()], class: "too-large" }, loc);
                        None
                    } else {
                        Some(Proj::UInt(*x as u128))
                    }
                }
                _ => self.kind_err(v, &[VK::Integer], loc),
            },
            Ty::Int { bits, nonzero } => {
                let (min, max) = int_bounds(*bits, true);
                match v {
                    Ov::Int(x) => {
                        if *nonzero && *x == 0 {
                            self.report(PKind::Unexpected { facts: vec!["zero".into()], class: "zero" }, loc);
                            None
                        } else if (*x as u128) > max {
                            self.report(PKind::Unexpected { facts: vec![x.to_string(), max.to_string()], class: "too-large" }, loc);
                            None
                        } else {
                            Some(Proj::Int(*x as i128))
                        }
                    }
                    Ov::Neg(x) => {
                        if *nonzero && *x == 0 {
                            self.report(PKind::Unexpected { facts: vec!["zero".into()], class: "zero" }, loc);
                            None
                        } else if (*x as i128) < min {
                            self.report(PKind::Unexpected { facts: vec![x.to_string(), min.to_string()], class: "too-small" }, loc);
                            None
                        } else {
                            Some(Proj::Int(*x as i128))
                        }
                    }
                    _ => self.kind_err(v, &[VK::Integer, VK::NegativeInteger], loc),
                }
            }
            Ty::F32 => match v {
                Ov::Int(x) => Some(Proj::F32((*x as f32).to_bits())),
                Ov::Neg(x) => Some(Proj::F32((*x as f32).to_bits())),
                Ov::Float(f) => Some(Proj::F32((f.get() as f32).to_bits())),
                _ => self.kind_err(v, &[VK::Float, VK::Integer, VK::NegativeInteger], loc),
            },
            Ty::F64 => match v {
                Ov::Int(x) => Some(Proj::F64((*x as f64).to_bits())),
                Ov::Neg(x) => Some(Proj::F64((*x as f64).to_bits())),
                Ov::Float(f) => Some(Proj::F64(f.0)),
                _ => self.kind_err(v, &[VK::Float, VK::Integer, VK::NegativeInteger], loc),
            },
            Ty::Phantom => Some(Proj::Phantom),
            Ty::Json => {
                let ok = self.json(v, loc);
                if ok {
                    Some(Proj::Json(serde_json::to_string(&v.to_json()).unwrap()))
                } else {
                    None
                }
            }
            Ty::Option(t) => match v {
                Ov::Null => Some(Proj::None),
                _ => {
                    self.out.visited.pop();
                    self.go(t, v, loc).map(|p| Proj::Some(Box::new(p)))
                }
            },
            Ty::Boxed(t) => {
                self.out.visited.pop();
                self.go(t, v, loc)
            }
            Ty::Vec(t) | Ty::Set(t) => match v {
                Ov::Seq(xs) => {
                    let mut out = vec![];
                    let mut ok = true;
                    for (i, x) in xs.iter().enumerate() {
                        match self.child(t, x, ext(loc, Step::Index(i))) {
                            Some(p) => out.push(p),
                            None => ok = false,
                        }
                    }
                    if !ok {
                        None
                    } else if matches!(ty, Ty::Set(_)) {
                        Some(Proj::Set(out.into_iter().collect()))
                    } else {
                        Some(Proj::Seq(out))
                    }
                }
                _ => self.kind_err(v, &[VK::Sequence], loc),
            },
            Ty::Array(t, n) => {
                let tys: Vec<Ty> = (0..*n).map(|_| (**t).clone()).collect();
                self.fixed(&tys, v, loc)
            }
            Ty::Tuple(ts) => self.fixed(ts, v, loc),
            Ty::Map(k, t) => match v {
                Ov::Map(m) => {
                    let mut out = BTreeMap::new();
                    let mut ok = true;
                    for (key, w) in m {
                        match parse_key(*k, key) {
                            None => {
                                self.report(PKind::Unexpected { facts: vec![key.clone()], class: "key-parse" }, loc);
                                ok = false;
                            }
                            Some(pk) => match self.child(t, w, ext(loc, Step::Key(key.clone()))) {
                                Some(p) => {
                                    out.insert(pk, p);
                                }
                                None => ok = false,
                            },
                        }
                    }
                    if ok {
                        Some(Proj::Map(out))
                    } else {
                        None
                    }
                }
                _ => self.kind_err(v, &[VK::Map], loc),
            },
            Ty::Cs(c) => match v {
                Ov::Str(s) => {
                    let mut out = vec![];
                    for seg in s.split(',').filter(|x| !x.is_empty()) {
                        let p = match c {
                            CsTy::U8 => seg.parse::<u8>().ok().map(|x| Proj::UInt(x as u128)),
                            CsTy::I16 => seg.parse::<i16>().ok().map(|x| Proj::Int(x as i128)),
                            CsTy::Str => Some(Proj::Str(seg.to_string())),
                        };
                        match p {
                            Some(p) => out.push(p),
                            None => {
                                self.report(PKind::Unexpected { facts: vec![], class: "cs" }, loc);
                                return None;
                            }
                        }
                    }
                    Some(Proj::Seq(out))
                }
                _ => self.kind_err(v, &[VK::String], loc),
            },
            Ty::Named(n) => {
                let def = self.defs.get(n).clone();
                self.def(&def, v, loc)
            }
        }
    }

    /// serde_json::Value target: every finite document is accepted; a non-finite float (only the
    /// second value source can produce one) is reported at that node and collected like Vec/Map.
    fn json(&mut self, v: &Ov, loc: &Path) -> bool {
        match v {
            Ov::Float(f) if !f.get().is_finite() => {
                self.report(PKind::Unexpected { facts: vec![], class: "non-finite" }, loc);
                false
            }
            Ov::Seq(xs) => {
                let mut ok = true;
                for (i, x) in xs.iter().enumerate() {
                    let l = ext(loc, Step::Index(i));
                    self.out.visited.push(l.clone());
                    self.stack.push(l.clone());
                    ok &= self.json(x, &l);
                    self.stack.pop();
                }
                ok
            }
            Ov::Map(m) => {
                let mut ok = true;
                for (k, x) in m {
                    let l = ext(loc, Step::Key(k.clone()));
                    self.out.visited.push(l.clone());
                    self.stack.push(l.clone());
                    ok &= self.json(x, &l);
                    self.stack.pop();
                }
                ok
            }
            _ => true,
        }
    }

    fn fixed(&mut self, tys: &[Ty], v: &Ov, loc: &Path) -> Option<Proj> {
        match v {
            Ov::Seq(xs) => {
                if xs.len() != tys.len() {
                    self.report(PKind::BadLen { expected: tys.len(), len: xs.len() }, loc);
                    return None;
                }
                let mut out = vec![];
                let mut ok = true;
                for (i, (t, x)) in tys.iter().zip(xs.iter()).enumerate() {
                    match self.child(t, x, ext(loc, Step::Index(i))) {
                        Some(p) => out.push(p),
                        None => ok = false,
                    }
                }
                if ok {
                    Some(Proj::Seq(out))
                } else {
                    None
                }
            }
            _ => self.kind_err(v, &[VK::Sequence], loc),
        }
    }

    fn validate(&mut self, f: &Option<String>, val: Option<Proj>, loc: &Path) -> Option<Proj> {
        let val = val?;
        if let Some(f) = f {
            self.out.calls.push(PCall { name: f.clone(), arg: format!("{val:?}"), loc: Some(loc.clone()) });
            if let Err(e) = vf::apply_validate(f, &val) {
                self.report(PKind::Foreign { name: e.name.to_string(), msg: e.msg }, loc);
                return None;
            }
        }
        Some(val)
    }

    fn def(&mut self, def: &Def, v: &Ov, loc: &Path) -> Option<Proj> {
        match def {
            Def::Struct(s) => {
                let before = self.out.reports.len();
                let r = match v {
                    Ov::Map(m) => {
                        let entries: Vec<&(String, Ov)> = m.iter().collect();
                        self.fields(&s.fields, &s.deny, &entries, loc)
                            .map(|fs| Proj::Struct(s.name.clone(), fs))
                    }
                    _ => self.kind_err(v, &[VK::Map], loc),
                };
                let r = if self.out.reports.len() == before { r } else { None };
                self.validate(&s.validate, r, loc)
            }
            Def::Enum(e) => {
                let before = self.out.reports.len();
                let r = match v {
                    Ov::Map(m) => {
                        let tagpos = m.iter().position(|(k, _)| *k == e.tag);
                        match tagpos {
                            None => {
                                self.report(PKind::Missing { field: e.tag.clone() }, loc);
                                None
                            }
                            Some(tp) => {
                                let tl = ext(loc, Step::Key(e.tag.clone()));
                                self.out.visited.push(tl.clone());
                                match &m[tp].1 {
                                    Ov::Str(s) => match e.variants.iter().find(|vd| vd.key == *s) {
                                        None => {
                                            self.report(PKind::Unexpected { facts: vec![], class: "tag" }, loc);
                                            None
                                        }
                                        Some(vd) => match &vd.fields {
                                            None => Some(Proj::Variant(e.name.clone(), vd.ident.clone(), vec![])),
                                            Some(fs) => {
                                                let entries: Vec<&(String, Ov)> =
                                                    m.iter().enumerate().filter(|(i, _)| *i != tp).map(|(_, x)| x).collect();
                                                self.fields(fs, &e.deny, &entries, loc)
                                                    .map(|f| Proj::Variant(e.name.clone(), vd.ident.clone(), f))
                                            }
                                        },
                                    },
                                    other => {
                                        self.report(
                                            PKind::Kind { actual: other.kind(), accepted: [VK::String].into_iter().collect() },
                                            &tl,
                                        );
                                        None
                                    }
                                }
                            }
                        }
                    }
                    _ => self.kind_err(v, &[VK::Map], loc),
                };
                let r = if self.out.reports.len() == before { r } else { None };
                self.validate(&e.validate, r, loc)
            }
            Def::UnitEnum(u) => {
                let r = match v {
                    Ov::Str(s) => match u.variants.iter().find(|(_, k)| k == s) {
                        Some((ident, _)) => Some(Proj::Variant(u.name.clone(), ident.clone(), vec![])),
                        None => {
                            self.report(
                                PKind::UnknownValue { value: s.clone(), accepted: u.variants.iter().map(|x| x.1.clone()).collect() },
                                loc,
                            );
                            None
                        }
                    },
                    _ => self.kind_err(v, &[VK::String], loc),
                };
                self.validate(&u.validate, r, loc)
            }
            Def::Conv(c) => {
                // the intermediate type is deserialized at the same location, transparently
                self.out.visited.pop();
                let before = self.out.reports.len();
                let x = self.go(&c.inter, v, loc);
                let r = if self.out.reports.len() != before {
                    None
                } else {
                    let x = x.expect("model: conv input");
                    match &c.conv {
                        Conv::From(f) => {
                            self.out.calls.push(PCall { name: f.clone(), arg: format!("{x:?}"), loc: None });
                            Some(vf::apply_from(f, &x))
                        }
                        Conv::TryFrom(f) => {
                            self.out.calls.push(PCall { name: f.clone(), arg: format!("{x:?}"), loc: None });
                            match vf::apply_try_from(f, &x) {
                                Ok(y) => Some(y),
                                Err(e) if e.name == "<same error type>" => {
                                    // reported by the user function at the origin, handed over at the container
                                    self.report_plus(PKind::Unexpected { facts: vec![e.msg], class: "custom" }, &vec![], loc);
                                    None
                                }
                                Err(e) => {
                                    self.report(PKind::Foreign { name: e.name.to_string(), msg: e.msg }, loc);
                                    None
                                }
                            }
                        }
                        Conv::None => Some(x),
                    }
                };
                self.validate(&c.validate, r, loc)
            }
        }
    }

    /// Body shared by structs and struct-like variants.
    fn fields(&mut self, fields: &[FieldDef], deny: &Deny, entries: &[&(String, Ov)], loc: &Path) -> Option<Vec<(String, Proj)>> {
        #[derive(Clone)]
        enum St {
            Missing,
            Err,
            Some(Proj),
        }
        let before = self.out.reports.len();
        let mut state: Vec<St> = fields
            .iter()
            .map(|f| match &f.default {
                Some(d) => St::Some(d.clone()),
                None => St::Missing,
            })
            .collect();
        let accepted: Vec<String> = fields.iter().filter(|f| !f.skip).map(|f| f.key.clone()).collect();
        for (k, w) in entries.iter().map(|e| (&e.0, &e.1)) {
            let fl = ext(loc, Step::Key(k.clone()));
            if let Some(fi) = fields.iter().position(|f| !f.skip && f.key == *k) {
                let f = &fields[fi];
                let saved_ety = self.ety;
                if f.err2 {
                    self.ety = 1;
                }
                self.stack.push(fl.clone());
                let nb = self.out.reports.len();
                let x = self.go(&f.ty, w, &fl);
                state[fi] = if self.out.reports.len() != nb {
                    St::Err
                } else {
                    let x = x.expect("model: field value");
                    match &f.conv {
                        Conv::None => St::Some(x),
                        Conv::From(g) => {
                            self.out.calls.push(PCall { name: g.clone(), arg: format!("{x:?}"), loc: None });
                            St::Some(vf::apply_from(g, &x))
                        }
                        Conv::TryFrom(g) => {
                            self.out.calls.push(PCall { name: g.clone(), arg: format!("{x:?}"), loc: None });
                            match vf::apply_try_from(g, &x) {
                                Ok(y) => St::Some(y),
                                Err(e) => {
                                    self.report(PKind::Foreign { name: e.name.to_string(), msg: e.msg }, &fl);
                                    St::Err
                                }
                            }
                        }
                    }
                };
                self.stack.pop();
                self.ety = saved_ety;
            } else {
                if fields.iter().any(|f| f.skip && (f.key == *k || f.ident == *k)) {
                    self.out.skipped_entries.push(fl.clone());
                }
                match deny {
                    Deny::No => {}
                    Deny::Default => {
                        self.report(PKind::UnknownKey { key: k.clone(), accepted: accepted.clone() }, loc);
                    }
                    Deny::Custom(h) => {
                        self.out.calls.push(PCall { name: h.clone(), arg: format!("{k}|{accepted:?}"), loc: Some(loc.clone()) });
                        let kind = match vf::unknown_fn_report(h, k) {
                            CustomReport::UnknownKey => PKind::UnknownKey { key: k.clone(), accepted: accepted.clone() },
                            CustomReport::Unexpected(m) => PKind::Unexpected { facts: vec![m], class: "custom" },
                            CustomReport::Foreign(name, msg) => {
                                // the hand-over of the function's own error type at the container IS the report
                                self.report(PKind::Foreign { name: name.to_string(), msg }, loc);
                                continue;
                            }
                            CustomReport::Missing => unreachable!(),
                        };
                        self.report_plus(kind, loc, loc);
                    }
                }
            }
        }
        for (fi, f) in fields.iter().enumerate() {
            if f.skip {
                continue;
            }
            if matches!(state[fi], St::Missing) {
                match &f.missing_fn {
                    None => self.report(PKind::Missing { field: f.key.clone() }, loc),
                    Some(mf) => {
                        self.out.calls.push(PCall { name: mf.clone(), arg: f.key.clone(), loc: Some(loc.clone()) });
                        let kind = match vf::missing_fn_report(mf, &f.key) {
                            CustomReport::Missing => PKind::Missing { field: f.key.clone() },
                            CustomReport::Unexpected(m) => PKind::Unexpected { facts: vec![m], class: "custom" },
                            CustomReport::Foreign(name, msg) => {
                                self.report(PKind::Foreign { name: name.to_string(), msg }, loc);
                                continue;
                            }
                            CustomReport::UnknownKey => unreachable!(),
                        };
                        self.report_plus(kind, loc, loc);
                    }
                }
            }
        }
        if self.out.reports.len() != before {
            return None;
        }
        let mut out = vec![];
        for (fi, f) in fields.iter().enumerate() {
            let St::Some(mut p) = state[fi].clone() else { panic!("model: field {} without value", f.ident) };
            if let Some(mf) = &f.map {
                self.out.calls.push(PCall { name: mf.clone(), arg: format!("{p:?}"), loc: None });
                p = vf::apply_map(mf, &p);
            }
            out.push((f.ident.clone(), p));
        }
        Some(out)
    }
}

pub fn parse_key(k: KeyTy, s: &str) -> Option<Proj> {
    match k {
        KeyTy::Str => Some(Proj::Str(s.to_string())),
        KeyTy::U8 => s.parse::<u8>().ok().map(|x| Proj::UInt(x as u128)),
        KeyTy::I16 => s.parse::<i16>().ok().map(|x| Proj::Int(x as i128)),
        KeyTy::Char => s.parse::<char>().ok().map(Proj::Char),
        KeyTy::Bool => s.parse::<bool>().ok().map(Proj::Bool),
    }
}
