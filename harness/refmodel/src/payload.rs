//! Type-directed payload generation with an explicit fault taxonomy.
use crate::types::*;
use vcore::{Ov, Rng, VK};

#[derive(Clone, Debug)]
pub struct GenOpts {
    /// probability (per mille) that a fault is injected at a node
    pub fault_pm: u32,
    pub max_depth: usize,
    pub max_len: usize,
    /// duplicate keys (second value source only; conservation / totality workloads only)
    pub allow_dup: bool,
    /// NaN / infinities (second value source only)
    pub allow_nonfinite: bool,
    /// Neg(0), Neg(positive) (second value source only)
    pub allow_noncanonical: bool,
    /// probability (per mille) of adding an unknown key to an object
    pub extra_key_pm: u32,
    /// map keys that differ as strings but parse to the same key ("01" / "1", "+3" / "3"): every entry must
    /// still be examined and reported on; which value wins is only compared where the model says so
    pub allow_key_alias: bool,
}

impl Default for GenOpts {
    fn default() -> Self {
        GenOpts { fault_pm: 80, max_depth: 5, max_len: 3, allow_dup: false, allow_nonfinite: false, allow_noncanonical: false, extra_key_pm: 120, allow_key_alias: false }
    }
}

pub struct Gen<'a> {
    pub defs: &'a Defs,
    pub rng: Rng,
    pub opts: GenOpts,
    /// tags of the faults injected into the payload being built
    pub faults: Vec<&'static str>,
    bulk_spent: bool,
    flood_spent: bool,
    /// keys that only sibling variants of the enum being written accept (candidates for stray members)
    sibling_keys: Vec<String>,
}

const WORDS: &[&str] = &[
    "a", "b", "id", "name", "zed", "é", "日本", "x_y", "Foo", "typo", "kind", "type", "", "longer_word_here", "0", "-1", "true", "null", "a,b", "1,2,3", ",", "12",
    // strings that need escaping when quoted as JSON text
    "say \"hi\"", "C:\\temp", "tab\there", "line\nbreak", "back`tick", "nul\u{0}byte", "\u{1F600} emoji",
];

pub fn one_edit(rng: &mut Rng, s: &str) -> String {
    let cs: Vec<char> = s.chars().collect();
    if cs.is_empty() {
        return "x".into();
    }
    let mut out = cs.clone();
    let i = rng.below(cs.len());
    match rng.below(4) {
        0 => {
            out.remove(i);
        }
        1 => out.insert(i, 'q'),
        2 => out[i] = if out[i] == 'z' { 'y' } else { 'z' },
        _ => {
            if cs.len() >= 2 {
                let j = if i + 1 < cs.len() { i } else { i - 1 };
                out.swap(j, j + 1);
            } else {
                out.push('k');
            }
        }
    }
    let r: String = out.into_iter().collect();
    if r == s {
        format!("{s}_")
    } else {
        r
    }
}

/// A typo of `s` at true Damerau-Levenshtein distance <= `edits`, built from the shapes that tell the
/// edit-distance variants apart: plain edits, adjacent swaps, and a swap with a letter inserted between
/// or dropped from between the swapped pair (distance 2 in true DL, 3 in optimal-string-alignment).
pub fn typo(rng: &mut Rng, s: &str, edits: usize) -> String {
    let mut cs: Vec<char> = s.chars().collect();
    let mut left = edits;
    while left > 0 && !cs.is_empty() {
        let i = rng.below(cs.len());
        match rng.below(6) {
            0 => {
                cs.remove(i);
                left -= 1;
            }
            1 => {
                cs.insert(i, *rng.pick(&['x', 'q', 'e', 'é']));
                left -= 1;
            }
            2 => {
                // substitution; a multi-byte letter is replaced by another one with the same UTF-8 lead byte
                cs[i] = if !cs[i].is_ascii() {
                    if cs[i] == 'è' { 'ç' } else { 'è' }
                } else if cs[i] == 'z' {
                    'y'
                } else {
                    'z'
                };
                left -= 1;
            }
            3 => {
                if i + 1 < cs.len() && cs[i] != cs[i + 1] {
                    cs.swap(i, i + 1);
                    left -= 1;
                }
            }
            4 => {
                // swap + insertion between: "ab" -> "bxa"
                if left >= 2 && i + 1 < cs.len() && cs[i] != cs[i + 1] {
                    cs.swap(i, i + 1);
                    cs.insert(i + 1, 'x');
                    left -= 2;
                }
            }
            _ => {
                // swap around a dropped letter: "abc" -> "ca"
                if left >= 2 && i + 2 < cs.len() && cs[i] != cs[i + 2] {
                    cs.swap(i, i + 2);
                    cs.remove(i + 1);
                    left -= 2;
                }
            }
        }
    }
    cs.into_iter().collect()
}

/// `s` with blanks around it (" s", "s\n", "\ts ", "  s"): what a trimming comparison would wrongly accept / misquote
pub fn padded(rng: &mut Rng, s: &str) -> String {
    match rng.below(4) {
        0 => format!(" {s}"),
        1 => format!("{s}\n"),
        2 => format!("\t{s} "),
        _ => format!("  {s}"),
    }
}

pub fn flip_case(s: &str) -> String {
    let mut done = false;
    let r: String = s
        .chars()
        .map(|c| {
            if !done && c.is_ascii_alphabetic() {
                done = true;
                if c.is_ascii_uppercase() {
                    c.to_ascii_lowercase()
                } else {
                    c.to_ascii_uppercase()
                }
            } else {
                c
            }
        })
        .collect();
    r
}

impl<'a> Gen<'a> {
    pub fn new(defs: &'a Defs, rng: Rng, opts: GenOpts) -> Self {
        Gen { defs, rng, opts, faults: vec![], bulk_spent: false, flood_spent: false, sibling_keys: vec![] }
    }

    fn fault(&mut self) -> bool {
        self.opts.fault_pm > 0 && (self.rng.next() % 1000) < self.opts.fault_pm as u64
    }
    fn tag(&mut self, t: &'static str) {
        self.faults.push(t);
    }

    pub fn word(&mut self) -> String {
        self.rng.pick(WORDS).to_string()
    }

    /// An arbitrary value of the given kind (used for wrong-kind faults and serde_json::Value targets).
    pub fn of_kind(&mut self, k: VK, depth: usize) -> Ov {
        match k {
            VK::Null => Ov::Null,
            VK::Boolean => Ov::Bool(self.rng.chance(1, 2)),
            VK::Integer => Ov::Int(*self.rng.pick(&[0u64, 1, 2, 7, 42, 255, 256, 65535, 1 << 40, u64::MAX])),
            VK::NegativeInteger => Ov::Neg(*self.rng.pick(&[-1i64, -2, -47, -128, -129, -32769, i64::MIN])),
            VK::Float => {
                if self.opts.allow_nonfinite && self.rng.chance(1, 5) {
                    self.tag("non-finite-float");
                    Ov::float(*self.rng.pick(&[f64::NAN, f64::INFINITY, f64::NEG_INFINITY]))
                } else {
                    Ov::float(*self.rng.pick(&[0.5f64, -0.0, 1.0, 3.25, -2.5e10, 1e300, 5e-324, 16777217.0]))
                }
            }
            VK::String => Ov::Str(self.word()),
            VK::Sequence => {
                let n = if depth >= self.opts.max_depth { 0 } else { self.rng.below(3) };
                Ov::Seq((0..n).map(|_| self.any(depth + 1)).collect())
            }
            VK::Map => {
                let n = if depth >= self.opts.max_depth { 0 } else { self.rng.below(3) };
                let mut m: Vec<(String, Ov)> = vec![];
                for _ in 0..n {
                    let k = self.word();
                    if m.iter().any(|(kk, _)| *kk == k) {
                        continue;
                    }
                    let v = self.any(depth + 1);
                    m.push((k, v));
                }
                Ov::Map(m)
            }
        }
    }

    pub fn any(&mut self, depth: usize) -> Ov {
        let k = *self.rng.pick(&vcore::ov::ALL_KINDS);
        self.of_kind(k, depth)
    }

    fn wrong_kind(&mut self, admissible: &[VK], depth: usize) -> Ov {
        loop {
            let k = *self.rng.pick(&vcore::ov::ALL_KINDS);
            if !admissible.contains(&k) {
                self.tag("wrong-kind");
                // for a target read from ONE string: sometimes a list of would-be items, good and bad ones mixed
                // (an implementation that starts accepting lists must still account for every report it makes)
                if k == VK::Sequence && admissible == [VK::String] && self.rng.chance(1, 2) {
                    let n = 2 + self.rng.below(4);
                    let items: Vec<Ov> = (0..n)
                        .map(|_| match self.rng.below(5) {
                            0 => Ov::Bool(true),
                            1 => Ov::Int(7),
                            2 => Ov::str("x,y"),
                            3 => Ov::str("not-a-number"),
                            _ => Ov::str("1"),
                        })
                        .collect();
                    return Ov::Seq(items);
                }
                return self.of_kind(k, depth + 1);
            }
        }
    }

    fn uint(&mut self, bits: u8, nonzero: bool) -> Ov {
        let max: u64 = if bits >= 64 { u64::MAX } else { (1u64 << bits) - 1 };
        if self.fault() {
            match self.rng.below(3) {
                0 if nonzero => {
                    self.tag("zero-for-nonzero");
                    return Ov::Int(0);
                }
                1 if bits < 64 => {
                    self.tag("too-large");
                    return Ov::Int(*self.rng.pick(&[max + 1, max + 2, u64::MAX, max.saturating_mul(2)]));
                }
                _ => {}
            }
        }
        let v = match self.rng.below(6) {
            0 => 0,
            1 => 1,
            2 => max,
            3 => max - 1,
            4 => self.rng.next() % 200,
            _ => {
                if max == u64::MAX {
                    self.rng.next()
                } else {
                    self.rng.next() % (max + 1)
                }
            }
        };
        let v = if nonzero && v == 0 { 1 } else { v };
        Ov::Int(v)
    }

    fn int(&mut self, bits: u8, nonzero: bool) -> Ov {
        let (min, max): (i64, u64) = if bits >= 64 { (i64::MIN, i64::MAX as u64) } else { (-(1i64 << (bits - 1)), (1u64 << (bits - 1)) - 1) };
        if self.fault() {
            match self.rng.below(4) {
                0 if nonzero => {
                    self.tag("zero-for-nonzero");
                    return Ov::Int(0);
                }
                1 if bits < 128 => {
                    self.tag("too-large");
                    return Ov::Int(*self.rng.pick(&[max + 1, max + 2, u64::MAX]));
                }
                2 if bits < 64 => {
                    self.tag("too-small");
                    return Ov::Neg(*self.rng.pick(&[min - 1, min - 2, i64::MIN]));
                }
                _ => {}
            }
        }
        if self.opts.allow_noncanonical && self.rng.chance(1, 12) {
            self.tag("non-canonical-negative");
            return Ov::Neg(*self.rng.pick(&[0i64, 1, 5, 127, 300]));
        }
        match self.rng.below(7) {
            0 => Ov::Int(if nonzero { 1 } else { 0 }),
            1 => Ov::Int(max),
            2 => Ov::Neg(min),
            3 => Ov::Neg(-1),
            4 => Ov::Int(1 + self.rng.next() % 100),
            5 => Ov::Neg(-((self.rng.next() % (max.min(1 << 62))) as i64) - 1),
            _ => Ov::Int(self.rng.next() % (max.min(u64::MAX - 1) + 1)).nz(nonzero),
        }
    }

    fn float(&mut self) -> Ov {
        if self.opts.allow_nonfinite && self.rng.chance(1, 10) {
            self.tag("non-finite-float");
            return Ov::float(*self.rng.pick(&[f64::NAN, f64::INFINITY, f64::NEG_INFINITY]));
        }
        match self.rng.below(4) {
            0 => Ov::Int(*self.rng.pick(&[0u64, 1, 16777217, 9007199254740993, u64::MAX])),
            1 => Ov::Neg(*self.rng.pick(&[-1i64, -16777217, -9007199254740993, i64::MIN])),
            _ => Ov::float(*self.rng.pick(&[0.0f64, -0.0, 0.1, 1.5, -2.25, 1e-320, 3.4028235e38, 3.5e38, 1e300, 16777217.0, 0.30000000000000004])),
        }
    }

    fn string(&mut self) -> Ov {
        Ov::Str(self.word())
    }

    fn key_of(&mut self, k: KeyTy, taken: &[String]) -> Option<String> {
        for _ in 0..20 {
            let s = match k {
                KeyTy::Str => self.word(),
                KeyTy::U8 => (self.rng.next() % 256).to_string(),
                KeyTy::I16 => self.rng.range(-32768, 32767).to_string(),
                KeyTy::Char => self.rng.pick(&["a", "b", "é", "日", "0", " ", "Z"]).to_string(),
                KeyTy::Bool => self.rng.pick(&["true", "false"]).to_string(),
            };
            if !taken.contains(&s) {
                return Some(s);
            }
        }
        None
    }

    fn bad_key(&mut self, k: KeyTy) -> Option<String> {
        if matches!(k, KeyTy::Str) {
            return None;
        }
        // one in four: a key that quoting / escaping routines rewrite (the report has to name the key itself)
        if self.rng.chance(1, 4) {
            return Some((*self.rng.pick(&["a\"b", "C:\\x", "1\t", "1\n2", "e\u{301}e", "1\u{200b}", "'1'", "nul\u{0}", "\u{7f}\u{7f}", "`2`"])).to_string());
        }
        let s = match k {
            KeyTy::Str => return None,
            KeyTy::U8 => *self.rng.pick(&["256", "-1", "x", "", "1.0", "0x10", " 1"]),
            KeyTy::I16 => *self.rng.pick(&["32768", "-32769", "abc", "", "1e2"]),
            KeyTy::Char => *self.rng.pick(&["", "ab", "日本"]),
            KeyTy::Bool => *self.rng.pick(&["True", "1", "", "yes"]),
        };
        Some(s.to_string())
    }

    /// A payload for `ty`: structurally valid except where a fault was injected (see `self.faults`).
    pub fn payload(&mut self, ty: &Ty, depth: usize) -> Ov {
        // generic wrong-kind fault, applicable to every target except serde_json::Value / PhantomData
        let admissible: &[VK] = match ty {
            Ty::Unit => &[VK::Null],
            Ty::Bool => &[VK::Boolean],
            Ty::Char | Ty::Str | Ty::Cs(_) => &[VK::String],
            Ty::UInt { .. } => &[VK::Integer],
            Ty::Int { .. } => &[VK::Integer, VK::NegativeInteger],
            Ty::F32 | Ty::F64 => &[VK::Integer, VK::NegativeInteger, VK::Float],
            Ty::Vec(_) | Ty::Set(_) | Ty::Array(..) | Ty::Tuple(_) => &[VK::Sequence],
            Ty::Map(..) => &[VK::Map],
            Ty::Named(n) => match self.defs.get(n) {
                Def::Struct(_) | Def::Enum(_) => &[VK::Map],
                Def::UnitEnum(_) => &[VK::String],
                Def::Conv(_) => &[],
            },
            Ty::Json | Ty::Phantom | Ty::Option(_) | Ty::Boxed(_) => &[],
        };
        if !admissible.is_empty() && self.fault() && self.rng.chance(1, 2) {
            return self.wrong_kind(admissible, depth);
        }
        let deep = depth >= self.opts.max_depth;
        match ty {
            Ty::Unit => Ov::Null,
            Ty::Bool => Ov::Bool(self.rng.chance(1, 2)),
            Ty::Str => self.string(),
            Ty::Char => {
                if self.fault() {
                    self.tag("char-count");
                    Ov::Str(self.rng.pick(&["", "ab", "日本語", "a\u{301}"]).to_string())
                } else {
                    Ov::Str(self.rng.pick(&["a", "Z", "é", "日", "\u{1F600}", " "]).to_string())
                }
            }
            Ty::UInt { bits, nonzero } => self.uint(*bits, *nonzero),
            Ty::Int { bits, nonzero } => self.int(*bits, *nonzero),
            Ty::F32 | Ty::F64 => self.float(),
            Ty::Phantom => self.any(depth + 1),
            Ty::Json => {
                let v = self.any(depth.max(self.opts.max_depth.saturating_sub(3)));
                if self.opts.allow_nonfinite && self.rng.chance(1, 3) {
                    // several non-finite floats among the members of ONE object / array, with finite members between
                    self.tag("non-finite-float");
                    let w = self.any(depth.max(self.opts.max_depth.saturating_sub(2)));
                    let obj = Ov::Map(vec![
                        ("a".into(), Ov::float(f64::NAN)),
                        ("b".into(), w.clone()),
                        ("c".into(), Ov::float(f64::NEG_INFINITY)),
                        ("d".into(), Ov::Seq(vec![Ov::float(0.5), Ov::float(f64::INFINITY), w])),
                    ]);
                    return match self.rng.below(3) {
                        0 => obj,
                        1 => Ov::Seq(vec![v, Ov::float(f64::NAN), obj, Ov::float(f64::INFINITY)]),
                        _ => Ov::Map(vec![("k".into(), v), ("nested".into(), obj), ("z".into(), Ov::float(f64::NAN))]),
                    };
                }
                v
            }
            Ty::Option(t) => {
                if deep || self.rng.chance(1, 4) {
                    Ov::Null
                } else {
                    self.payload(t, depth)
                }
            }
            Ty::Boxed(t) => self.payload(t, depth),
            Ty::Vec(t) | Ty::Set(t) => {
                // wrong kind of a particular shape: an object keyed by indices ("0", "1", ...) with good elements, the
                // way some encoders write lists (one kind error; an implementation that starts accepting it must not
                // depend on the order of the members)
                if !deep && self.fault() && self.rng.chance(1, 3) {
                    self.tag("wrong-kind");
                    self.tag("index-keyed-object-for-sequence");
                    let n = 2 + self.rng.below(5);
                    let saved = self.opts.fault_pm;
                    self.opts.fault_pm = 0;
                    let m: Vec<(String, Ov)> = (0..n).map(|i| (i.to_string(), self.payload(t, depth + 1))).collect();
                    self.opts.fault_pm = saved;
                    return Ov::Map(m);
                }
                let n = if deep {
                    0
                } else if self.opts.max_len > 100 && depth == 0 {
                    self.opts.max_len
                } else if self.opts.max_len > 100 && depth == 1 {
                    // bulky payloads: the first big container below the root takes the bulk, deeper ones stay small
                    if self.bulk_spent { self.rng.below(3) } else { self.bulk_spent = true; self.opts.max_len }
                } else if self.opts.max_len > 100 {
                    self.rng.below(3)
                } else {
                    self.rng.below(self.opts.max_len + 1)
                };
                Ov::Seq((0..n).map(|_| self.payload(t, depth + 1)).collect())
            }
            Ty::Array(t, n) => {
                let mut len = *n;
                if self.fault() {
                    self.tag("arity");
                    len = if *n > 0 && self.rng.chance(1, 2) { n - 1 } else { n + 1 };
                }
                Ov::Seq((0..len).map(|_| self.payload(t, depth + 1)).collect())
            }
            Ty::Tuple(ts) => {
                let mut v: Vec<Ov> = ts.iter().map(|t| self.payload(t, depth + 1)).collect();
                if self.fault() {
                    self.tag("arity");
                    if self.rng.chance(1, 2) {
                        v.pop();
                    } else {
                        let e = self.any(depth + 1);
                        v.push(e);
                    }
                }
                Ov::Seq(v)
            }
            Ty::Map(k, t) => {
                let n = if deep { 0 } else if self.opts.max_len > 100 { if depth <= 1 && !self.bulk_spent { self.bulk_spent = true; self.opts.max_len.min(200) } else { self.rng.below(3) } } else { self.rng.below(self.opts.max_len + 1) };
                let mut m: Vec<(String, Ov)> = vec![];
                let mut had_bad = false;
                for _ in 0..n {
                    let taken: Vec<String> = m.iter().map(|x| x.0.clone()).collect();
                    // bad keys come in groups half of the time (several unparsable keys in ONE map)
                    if self.fault() || (had_bad && self.rng.chance(1, 2)) {
                        if let Some(b) = self.bad_key(*k) {
                            if !taken.contains(&b) {
                                had_bad = true;
                                self.tag("unparsable-key");
                                let v = self.payload(t, depth + 1);
                                m.push((b, v));
                                continue;
                            }
                        }
                    }
                    if self.opts.allow_key_alias && matches!(k, KeyTy::U8 | KeyTy::I16) && !m.is_empty() && self.rng.chance(1, 4) {
                        // an alias of an earlier key: same parsed key, different spelling
                        let base = m[self.rng.below(m.len())].0.clone();
                        let alias = if base.starts_with('-') { format!("-0{}", &base[1..]) } else if self.rng.chance(1, 2) { format!("0{base}") } else { format!("+{base}") };
                        if alias.parse::<i32>().is_ok() && !taken.contains(&alias) {
                            self.tag("aliased-map-key");
                            let v = self.payload(t, depth + 1);
                            m.push((alias, v));
                            continue;
                        }
                    }
                    if let Some(key) = self.key_of(*k, &taken) {
                        let v = self.payload(t, depth + 1);
                        m.push((key, v));
                    }
                }
                if self.opts.allow_dup && !m.is_empty() && self.rng.chance(1, 8) {
                    self.tag("duplicate-key");
                    let k0 = m[0].0.clone();
                    let v = self.payload(t, depth + 1);
                    m.push((k0, v));
                }
                Ov::Map(m)
            }
            Ty::Cs(c) => {
                let n = self.rng.below(4);
                let mut segs: Vec<String> = (0..n)
                    .map(|_| match c {
                        CsTy::U8 => (self.rng.next() % 256).to_string(),
                        CsTy::I16 => self.rng.range(-300, 300).to_string(),
                        CsTy::Str => self.rng.pick(&["a", "bc", "é", "x y"]).to_string(),
                    })
                    .collect();
                // empty segments anywhere: leading, trailing, doubled separators in the middle
                while self.rng.chance(1, 3) {
                    let pos = self.rng.below(segs.len() + 1);
                    segs.insert(pos, String::new());
                }
                if !matches!(c, CsTy::Str) && self.fault() {
                    self.tag("cs-segment");
                    segs.push(self.rng.pick(&["x", "256000", "1.5", " 1"]).to_string());
                }
                Ov::Str(segs.join(","))
            }
            Ty::Named(n) => {
                let def = self.defs.get(n).clone();
                self.named(&def, depth)
            }
        }
    }

    fn named(&mut self, def: &Def, depth: usize) -> Ov {
        match def {
            Def::Struct(s) => {
                let m = self.fields(&s.fields, None, depth);
                Ov::Map(m)
            }
            Def::Enum(e) => {
                let mut vi = self.rng.below(e.variants.len());
                if depth >= self.opts.max_depth {
                    // bound recursive enums: prefer a variant without nested named types
                    if let Some(flat) = e.variants.iter().position(|v| v.fields.as_ref().map_or(true, |fs| fs.iter().all(|f| !contains_named(&f.ty)))) {
                        vi = flat;
                    }
                }
                let vd = &e.variants[vi];
                let mut m = match &vd.fields {
                    Some(fs) => {
                        let saved = std::mem::take(&mut self.sibling_keys);
                        self.sibling_keys = e
                            .variants
                            .iter()
                            .enumerate()
                            .filter(|(j, _)| *j != vi)
                            .flat_map(|(_, v)| v.fields.iter().flatten().filter(|f| !f.skip).map(|f| f.key.clone()))
                            .filter(|k| !fs.iter().any(|f| f.key == *k || f.ident == *k))
                            .collect();
                        // ... and the selected variant's own effective name (the tag VALUE) as a member key
                        if !fs.iter().any(|f| f.key == vd.key || f.ident == vd.key) && vd.key != e.tag {
                            self.sibling_keys.push(vd.key.clone());
                        }
                        let m = self.fields(fs, Some(&e.tag), depth);
                        self.sibling_keys = saved;
                        m
                    }
                    None => {
                        // a unit variant ignores every other member: zero to three strays
                        let mut v = vec![];
                        while v.len() < 3 && self.rng.chance(1, 3) {
                            let k = format!("stray{}", v.len());
                            let val = self.any(depth + 1);
                            v.push((k, val));
                        }
                        v
                    }
                };
                // a field whose key equals the tag is absent by construction (the tag entry wins)
                m.retain(|(k, _)| *k != e.tag);
                let mut tagv = Ov::Str(vd.key.clone());
                let mut put = true;
                if self.fault() {
                    match self.rng.below(4) {
                        0 => {
                            self.tag("tag-missing");
                            put = false;
                        }
                        1 => {
                            self.tag("tag-not-string");
                            tagv = self.wrong_kind(&[VK::String], depth);
                        }
                        2 => {
                            self.tag("tag-near-miss");
                            tagv = Ov::Str(match self.rng.below(3) {
                                0 => flip_case(&vd.key),
                                1 => one_edit(&mut self.rng, &vd.key),
                                _ => padded(&mut self.rng, &vd.key),
                            });
                        }
                        _ => {
                            self.tag("tag-ident-or-random");
                            tagv = Ov::Str(if self.rng.chance(1, 2) { vd.ident.clone() } else { self.word() });
                        }
                    }
                }
                if put {
                    let pos = self.rng.below(m.len() + 1);
                    m.insert(pos, (e.tag.clone(), tagv));
                    if self.opts.allow_dup && self.rng.chance(1, 10) {
                        self.tag("duplicate-key");
                        let other = e.variants[self.rng.below(e.variants.len())].key.clone();
                        m.push((e.tag.clone(), Ov::Str(other)));
                    }
                }
                Ov::Map(m)
            }
            Def::UnitEnum(u) => {
                let (ident, key) = u.variants[self.rng.below(u.variants.len())].clone();
                if self.fault() {
                    self.tag("unknown-enum-value");
                    let s = match self.rng.below(6) {
                        0 => flip_case(&key),
                        1 => one_edit(&mut self.rng, &key),
                        2 => ident,
                        3 => padded(&mut self.rng, &key),
                        4 => {
                            let w = self.word();
                            padded(&mut self.rng, &w)
                        }
                        _ => self.word(),
                    };
                    Ov::Str(s)
                } else {
                    Ov::Str(key)
                }
            }
            Def::Conv(c) => self.payload(&c.inter, depth),
        }
    }

    fn fields(&mut self, fields: &[FieldDef], tag: Option<&str>, depth: usize) -> Vec<(String, Ov)> {
        let mut m: Vec<(String, Ov)> = vec![];
        for f in fields {
            if f.skip {
                // the name of a skipped field sometimes shows up in the payload
                if self.rng.chance(1, 4) && !m.iter().any(|(k, _)| *k == f.key) && !fields.iter().any(|g| !g.skip && g.key == f.key) {
                    self.tag("skipped-name-present");
                    let v = self.any(depth + 1);
                    m.push((f.key.clone(), v));
                }
                continue;
            }
            let absent_ok = f.default.is_some() && self.rng.chance(1, 3);
            if absent_ok {
                continue;
            }
            if self.fault() {
                self.tag("key-deleted");
                continue;
            }
            if self.fault() && !matches!(f.ty, Ty::Option(_) | Ty::Unit | Ty::Json | Ty::Phantom) {
                self.tag("key-nulled");
                m.push((f.key.clone(), Ov::Null));
                continue;
            }
            let v = self.payload(&f.ty, depth + 1);
            m.push((f.key.clone(), v));
            if self.opts.allow_dup && self.rng.chance(1, 14) {
                self.tag("duplicate-key");
                let v2 = self.payload(&f.ty, depth + 1);
                m.push((f.key.clone(), v2));
            }
        }
        // unknown keys: random, near misses of real keys, identifiers instead of effective keys
        while (self.rng.next() % 1000) < self.opts.extra_key_pm as u64 && m.len() < 12 {
            let real: Vec<&FieldDef> = fields.iter().filter(|f| !f.skip).collect();
            let cand = if !self.sibling_keys.is_empty() && self.rng.chance(1, 3) {
                // a member that belongs to another variant of the same enum
                let sk = self.sibling_keys.clone();
                self.rng.pick(&sk).clone()
            } else if real.is_empty() || self.rng.chance(1, 3) {
                self.word()
            } else {
                let f = *self.rng.pick(&real);
                match self.rng.below(6) {
                    0 => flip_case(&f.key),
                    1 => one_edit(&mut self.rng, &f.key),
                    2 => f.ident.clone(),
                    3 => format!("r#{}", f.ident), // the raw-identifier spelling of the field's name
                    4 => padded(&mut self.rng, &f.key),
                    _ => f.key.to_lowercase(),
                }
            };
            let is_known = fields.iter().any(|f| !f.skip && f.key == cand) || tag == Some(cand.as_str());
            if is_known || m.iter().any(|(k, _)| *k == cand) {
                continue;
            }
            self.tag("unknown-key");
            let v = self.any(depth + 1);
            let pos = self.rng.below(m.len() + 1);
            m.insert(pos, (cand, v));
        }
        // bulky cases: one object of the payload gets a flood of 17..40 stray members (limits on the number
        // of reports per object, tables sized by the number of fields)
        if self.opts.max_len > 100 && !self.flood_spent && self.rng.chance(1, 2) {
            self.flood_spent = true;
            self.tag("unknown-key-flood");
            let n = 17 + self.rng.below(24);
            for i in 0..n {
                let k = format!("junk_{i:02}");
                if fields.iter().any(|f| !f.skip && f.key == k) || tag == Some(k.as_str()) {
                    continue;
                }
                let v = if i % 3 == 0 { self.any(depth + 1) } else { Ov::Int(i as u64) };
                let pos = self.rng.below(m.len() + 1);
                m.insert(pos, (k, v));
            }
        }
        if self.rng.chance(1, 3) {
            self.rng.shuffle(&mut m);
        }
        m
    }
}

fn contains_named(t: &Ty) -> bool {
    match t {
        Ty::Named(_) => true,
        Ty::Option(x) | Ty::Boxed(x) | Ty::Vec(x) | Ty::Set(x) | Ty::Array(x, _) | Ty::Map(_, x) => contains_named(x),
        Ty::Tuple(ts) => ts.iter().any(contains_named),
        _ => false,
    }
}

trait Nz {
    fn nz(self, nonzero: bool) -> Self;
}
impl Nz for Ov {
    fn nz(self, nonzero: bool) -> Ov {
        match self {
            Ov::Int(0) if nonzero => Ov::Int(1),
            o => o,
        }
    }
}
