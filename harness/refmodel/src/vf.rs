//! Models of the instrumented user functions (subjects::vf implements the same behaviour on real
//! Rust values; each is a few lines and written twice on purpose).
use vcore::Proj;

#[derive(Clone, Debug, PartialEq)]
pub struct ForeignErr {
    pub name: &'static str,
    pub msg: String,
}

/// `from` functions: total.
pub fn apply_from(f: &str, x: &Proj) -> Proj {
    match (f, x) {
        ("u64_to_string", Proj::UInt(v)) => Proj::Str(v.to_string()),
        ("len_of_ref", Proj::Str(s)) => Proj::UInt(s.len() as u128),
        ("str_to_wrap", Proj::Str(s)) => Proj::Struct("Wrap".into(), vec![("0".into(), Proj::Str(s.clone()))]),
        ("vec_sum", Proj::Seq(v)) => Proj::UInt(
            v.iter().map(|p| if let Proj::UInt(u) = p { *u as u64 } else { 0 }).fold(0u64, |a, b| a.wrapping_add(b)) as u128,
        ),
        ("wrap_id", x) => x.clone(),
        ("shout_from", Proj::Str(s)) => Proj::Str(s.to_uppercase()),
        ("inc_into", Proj::UInt(v)) => Proj::UInt((*v as u8).wrapping_add(1) as u128),
        _ => panic!("model: unknown from function {f} for {x:?}"),
    }
}

/// `try_from` functions.
pub fn apply_try_from(f: &str, x: &Proj) -> Result<Proj, ForeignErr> {
    match (f, x) {
        ("try_even", Proj::UInt(v)) | ("try_even_ref", Proj::UInt(v)) => {
            if v % 2 == 0 {
                Ok(Proj::UInt(*v))
            } else {
                Err(ForeignErr { name: "Odd", msg: format!("odd number {v}") })
            }
        }
        ("try_ascii_ref", Proj::Str(s)) => {
            if s.is_ascii() {
                Ok(Proj::Str(s.to_ascii_uppercase()))
            } else {
                Err(ForeignErr { name: "NotAscii", msg: format!("not ascii: {s}") })
            }
        }
        ("try_small", Proj::Int(v)) => {
            if (-100..=100).contains(v) {
                Ok(Proj::Int(*v))
            } else {
                Err(ForeignErr { name: "TooBig", msg: format!("{v} is outside -100..=100") })
            }
        }
        ("try_port", Proj::Str(s)) => match s.parse::<u16>() {
            Ok(p) => Ok(Proj::UInt(p as u128)),
            Err(_) => Err(ForeignErr { name: "Sourced", msg: format!("`{s}` is not a valid port number") }),
        },
        // a container try_from whose function returns the CONTAINER's error type, built by the function itself
        // (it has no location, so its report is at the origin); the derive then hands it over at the container
        ("try_same_err", Proj::Str(s)) => {
            if !s.is_empty() {
                Ok(Proj::Struct("Wrap".into(), vec![("0".into(), Proj::Str(s.clone()))]))
            } else {
                Err(ForeignErr { name: "<same error type>", msg: "empty string (reported by the function itself)".into() })
            }
        }
        ("try_nonempty_vec", Proj::Seq(v)) => {
            if !v.is_empty() {
                Ok(Proj::Seq(v.clone()))
            } else {
                Err(ForeignErr { name: "Empty", msg: "empty list".into() })
            }
        }
        ("try_nonempty", Proj::Str(s)) => {
            if !s.is_empty() {
                Ok(Proj::Struct("Wrap".into(), vec![("0".into(), Proj::Str(s.clone()))]))
            } else {
                Err(ForeignErr { name: "Empty", msg: "empty string".into() })
            }
        }
        ("try_wrap_l3", x) => {
            if x.leaves() % 3 == 0 {
                Err(ForeignErr { name: "Empty", msg: format!("{} leaves", x.leaves()) })
            } else {
                Ok(x.clone())
            }
        }
        _ => panic!("model: unknown try_from function {f} for {x:?}"),
    }
}

/// `map` functions: T -> T.
pub fn apply_map(f: &str, x: &Proj) -> Proj {
    match (f, x) {
        ("inc_u8", Proj::UInt(v)) => Proj::UInt(((*v as u8).wrapping_add(1)) as u128),
        ("neg_i16", Proj::Int(v)) => Proj::Int((*v as i16).wrapping_neg() as i128),
        ("upper", Proj::Str(s)) => Proj::Str(s.to_uppercase()),
        ("not_bool", Proj::Bool(b)) => Proj::Bool(!b),
        ("some_to_none_if_zero", Proj::Some(b)) if **b == Proj::UInt(0) => Proj::None,
        ("some_to_none_if_zero", p) => p.clone(),
        ("push_seven", Proj::Seq(v)) => {
            let mut v = v.clone();
            v.push(Proj::UInt(7));
            Proj::Seq(v)
        }
        ("inc_u64", Proj::UInt(v)) => Proj::UInt(((*v as u64).wrapping_add(1)) as u128),
        _ => panic!("model: unknown map function {f} for {x:?}"),
    }
}

/// `validate` functions on the finished value.
pub fn apply_validate(f: &str, x: &Proj) -> Result<(), ForeignErr> {
    match f {
        "val_leaves" => {
            let n = x.leaves();
            if n % 2 == 1 {
                Err(ForeignErr { name: "ValErr", msg: format!("odd number of leaves: {n}") })
            } else {
                Ok(())
            }
        }
        "val_ok" => Ok(()),
        _ => panic!("model: unknown validate function {f}"),
    }
}

/// What a custom missing-field function reports: Missing{key} or an Unexpected message.
pub enum CustomReport {
    Missing,
    UnknownKey,
    Unexpected(String),
    /// the function returns an error type of its own: (type name, message)
    Foreign(&'static str, String),
}

pub fn missing_fn_report(f: &str, key: &str) -> CustomReport {
    match f {
        "missing_mf" => CustomReport::Missing,
        "missing_unexp" => CustomReport::Unexpected(format!("custom missing <{key}>")),
        "missing_foreign" => CustomReport::Foreign("Needed", format!("<{key}> is mandatory")),
        _ => panic!("model: unknown missing_field_error function {f}"),
    }
}

pub fn unknown_fn_report(f: &str, key: &str) -> CustomReport {
    match f {
        "unknown_uk" => CustomReport::UnknownKey,
        "unknown_unexp" => CustomReport::Unexpected(format!("custom unknown <{key}>")),
        "unknown_foreign" => CustomReport::Foreign("Denied", format!("no such key <{key}>")),
        _ => panic!("model: unknown deny_unknown_fields function {f}"),
    }
}
