use serde::{Deserialize, Serialize};
use std::collections::BTreeMap;
use vcore::Proj;

#[derive(Clone, Debug, PartialEq, Serialize, Deserialize)]
pub enum Ty {
    Unit,
    Bool,
    Char,
    Str,
    /// bits in {8,16,32,64,128}; usize/isize are 64 here
    UInt { bits: u8, nonzero: bool },
    Int { bits: u8, nonzero: bool },
    F32,
    F64,
    Json,
    Phantom,
    Option(Box<Ty>),
    Boxed(Box<Ty>),
    Vec(Box<Ty>),
    Set(Box<Ty>),
    Array(Box<Ty>, usize),
    Tuple(Vec<Ty>),
    Map(KeyTy, Box<Ty>),
    Cs(CsTy),
    Named(String),
}

#[derive(Clone, Copy, Debug, PartialEq, Serialize, Deserialize)]
pub enum KeyTy {
    Str,
    U8,
    I16,
    Char,
    Bool,
}

#[derive(Clone, Copy, Debug, PartialEq, Serialize, Deserialize)]
pub enum CsTy {
    U8,
    I16,
    Str,
}

#[derive(Clone, Debug, PartialEq, Serialize, Deserialize)]
pub enum Conv {
    None,
    From(String),
    TryFrom(String),
}

#[derive(Clone, Debug, PartialEq, Serialize, Deserialize)]
pub enum Deny {
    No,
    Default,
    Custom(String),
}

#[derive(Clone, Debug, PartialEq, Serialize, Deserialize)]
pub struct FieldDef {
    /// Rust identifier (as written, without `r#`)
    pub ident: String,
    /// effective key, computed by whoever wrote the description (never by the macro)
    pub key: String,
    /// the type that is deserialized from the payload (the intermediate type under from/try_from)
    pub ty: Ty,
    pub skip: bool,
    /// projection of the default value (of the final field type), if the field has one
    pub default: Option<Proj>,
    pub conv: Conv,
    pub map: Option<String>,
    pub missing_fn: Option<String>,
    /// field-level `error = Rec2`
    pub err2: bool,
}

impl FieldDef {
    pub fn plain(ident: &str, ty: Ty) -> FieldDef {
        FieldDef {
            ident: ident.into(),
            key: ident.into(),
            ty,
            skip: false,
            default: None,
            conv: Conv::None,
            map: None,
            missing_fn: None,
            err2: false,
        }
    }
    pub fn key(mut self, k: &str) -> Self {
        self.key = k.into();
        self
    }
    pub fn default(mut self, p: Proj) -> Self {
        self.default = Some(p);
        self
    }
    pub fn skip(mut self, p: Proj) -> Self {
        self.skip = true;
        self.default = Some(p);
        self
    }
    pub fn from(mut self, f: &str) -> Self {
        self.conv = Conv::From(f.into());
        self
    }
    pub fn try_from(mut self, f: &str) -> Self {
        self.conv = Conv::TryFrom(f.into());
        self
    }
    pub fn map(mut self, f: &str) -> Self {
        self.map = Some(f.into());
        self
    }
    pub fn missing(mut self, f: &str) -> Self {
        self.missing_fn = Some(f.into());
        self
    }
    pub fn err2(mut self) -> Self {
        self.err2 = true;
        self
    }
}

#[derive(Clone, Debug, PartialEq, Serialize, Deserialize)]
pub struct StructDef {
    pub name: String,
    pub fields: Vec<FieldDef>,
    pub deny: Deny,
    pub validate: Option<String>,
}

#[derive(Clone, Debug, PartialEq, Serialize, Deserialize)]
pub struct VariantDef {
    pub ident: String,
    pub key: String,
    /// None = unit variant
    pub fields: Option<Vec<FieldDef>>,
}

#[derive(Clone, Debug, PartialEq, Serialize, Deserialize)]
pub struct EnumDef {
    pub name: String,
    pub tag: String,
    pub variants: Vec<VariantDef>,
    pub deny: Deny,
    pub validate: Option<String>,
}

#[derive(Clone, Debug, PartialEq, Serialize, Deserialize)]
pub struct UnitEnumDef {
    pub name: String,
    /// (identifier, effective name) in declaration order
    pub variants: Vec<(String, String)>,
    pub validate: Option<String>,
}

#[derive(Clone, Debug, PartialEq, Serialize, Deserialize)]
pub struct ConvDef {
    pub name: String,
    pub inter: Ty,
    pub conv: Conv,
    pub validate: Option<String>,
}

#[derive(Clone, Debug, PartialEq, Serialize, Deserialize)]
pub enum Def {
    Struct(StructDef),
    Enum(EnumDef),
    UnitEnum(UnitEnumDef),
    Conv(ConvDef),
}

impl Def {
    pub fn name(&self) -> &str {
        match self {
            Def::Struct(s) => &s.name,
            Def::Enum(e) => &e.name,
            Def::UnitEnum(u) => &u.name,
            Def::Conv(c) => &c.name,
        }
    }
}

#[derive(Clone, Debug, Default, Serialize, Deserialize)]
pub struct Defs(pub BTreeMap<String, Def>);

impl Defs {
    pub fn add(&mut self, d: Def) {
        self.0.insert(d.name().to_string(), d);
    }
    pub fn get(&self, n: &str) -> &Def {
        self.0.get(n).unwrap_or_else(|| panic!("no description for type {n}"))
    }
    pub fn extend(&mut self, o: Defs) {
        self.0.extend(o.0);
    }
}

// ---- shorthands -------------------------------------------------------------------------------
pub fn u(bits: u8) -> Ty {
    Ty::UInt { bits, nonzero: false }
}
pub fn i(bits: u8) -> Ty {
    Ty::Int { bits, nonzero: false }
}
pub fn opt(t: Ty) -> Ty {
    Ty::Option(Box::new(t))
}
pub fn bx(t: Ty) -> Ty {
    Ty::Boxed(Box::new(t))
}
pub fn vec(t: Ty) -> Ty {
    Ty::Vec(Box::new(t))
}
pub fn set(t: Ty) -> Ty {
    Ty::Set(Box::new(t))
}
pub fn arr(t: Ty, n: usize) -> Ty {
    Ty::Array(Box::new(t), n)
}
pub fn tup(ts: Vec<Ty>) -> Ty {
    Ty::Tuple(ts)
}
pub fn map(k: KeyTy, t: Ty) -> Ty {
    Ty::Map(k, Box::new(t))
}
pub fn named(n: &str) -> Ty {
    Ty::Named(n.to_string())
}
