//! Reference model: TypeDesc, an independent interpreter of the documented keep-going semantics
//! (DESIGN.md Appendix A), type-directed payload generation with fault operators, small specs.
pub mod interp;
pub mod payload;
pub mod specs;
pub mod types;
pub mod vf;

pub use interp::{interp, PCall, PRep, Pred};
pub use types::*;
