fn main() {
    let reg = subjects::catalogue::registry();
    let code = vchecks::main_with(reg, serde_json::Map::new());
    std::process::exit(code);
}
