//! Non-termination watchdog. A monitored call normally takes microseconds; a worker thread that burns tens of
//! seconds of its OWN CPU time inside one call is not going to return. The measure is per-thread CPU time read from
//! /proc (not wall-clock), so a loaded or stalled machine cannot trip it.
use std::cell::Cell;
use std::collections::HashMap;
use std::sync::atomic::{AtomicU64, Ordering};
use std::sync::{Arc, Mutex, OnceLock};

pub struct Slot {
    pub tid: u64,
    /// odd while the thread is inside a monitored call; changes on every entry and exit
    pub seq: AtomicU64,
    pub ctx: Mutex<String>,
}

static SLOTS: OnceLock<Mutex<Vec<Arc<Slot>>>> = OnceLock::new();

fn slots() -> &'static Mutex<Vec<Arc<Slot>>> {
    SLOTS.get_or_init(|| Mutex::new(vec![]))
}

fn my_tid() -> u64 {
    // "/proc/thread-self" -> "<pid>/task/<tid>"
    std::fs::read_link("/proc/thread-self").ok().and_then(|p| p.file_name().and_then(|n| n.to_str().and_then(|s| s.parse().ok()))).unwrap_or(0)
}

thread_local! {
    static MY: Arc<Slot> = {
        let s = Arc::new(Slot { tid: my_tid(), seq: AtomicU64::new(0), ctx: Mutex::new(String::new()) });
        slots().lock().unwrap().push(s.clone());
        s
    };
    static DEPTH: Cell<u32> = const { Cell::new(0) };
}

/// Entering a monitored call (nesting allowed; only the outermost counts).
pub fn enter() {
    DEPTH.with(|d| {
        if d.get() == 0 {
            MY.with(|s| s.seq.fetch_add(1, Ordering::Relaxed));
        }
        d.set(d.get() + 1);
    });
}

pub fn leave() {
    DEPTH.with(|d| {
        let v = d.get().saturating_sub(1);
        d.set(v);
        if v == 0 {
            MY.with(|s| s.seq.fetch_add(1, Ordering::Relaxed));
        }
    });
}

/// What this thread is working on (set once per case, not per call).
pub fn set_context(f: impl FnOnce() -> String) {
    MY.with(|s| {
        if let Ok(mut c) = s.ctx.lock() {
            *c = f();
        }
    });
}

/// utime + stime of a task, in clock ticks (100 per second on Linux)
pub fn cpu_ticks_of(path: &str) -> Option<u64> {
    let s = std::fs::read_to_string(path).ok()?;
    // the command name is in parentheses and may contain spaces: parse after the last ')'
    let rest = &s[s.rfind(')')? + 1..];
    let f: Vec<&str> = rest.split_whitespace().collect();
    // rest starts at field 3 (state); utime = field 14, stime = field 15
    let utime: u64 = f.get(11)?.parse().ok()?;
    let stime: u64 = f.get(12)?.parse().ok()?;
    Some(utime + stime)
}

/// Start the watchdog (once). `on_stuck(context, cpu_seconds)` is called from the watchdog thread when one call has
/// consumed `limit_cpu_secs` of its thread's CPU time; it is expected to report and end the process.
pub fn start(limit_cpu_secs: u64, on_stuck: Box<dyn Fn(&str, u64) + Send + 'static>) {
    static STARTED: OnceLock<()> = OnceLock::new();
    if STARTED.set(()).is_err() {
        return;
    }
    let _ = std::thread::Builder::new().name("watchdog".into()).spawn(move || {
        // tid -> (seq seen, ticks when first seen inside that call)
        let mut seen: HashMap<u64, (u64, u64)> = HashMap::new();
        loop {
            std::thread::sleep(std::time::Duration::from_millis(1500));
            let list: Vec<Arc<Slot>> = slots().lock().map(|v| v.clone()).unwrap_or_default();
            for s in list {
                let q = s.seq.load(Ordering::Relaxed);
                if q % 2 == 0 || s.tid == 0 {
                    seen.remove(&s.tid);
                    continue;
                }
                let Some(t) = cpu_ticks_of(&format!("/proc/self/task/{}/stat", s.tid)) else { continue };
                match seen.get(&s.tid) {
                    Some((q0, t0)) if *q0 == q => {
                        let secs = t.saturating_sub(*t0) / 100;
                        if secs >= limit_cpu_secs {
                            let ctx = s.ctx.lock().map(|c| c.clone()).unwrap_or_default();
                            on_stuck(&ctx, secs);
                            seen.remove(&s.tid);
                        }
                    }
                    _ => {
                        seen.insert(s.tid, (q, t));
                    }
                }
            }
        }
    });
}

/// RAII form of enter / leave.
pub struct Active;
pub fn guard() -> Active {
    enter();
    Active
}
impl Drop for Active {
    fn drop(&mut self) {
        leave();
    }
}
