use crate::trace::{self, Event};
use deserr::{IntoValue, Map, Sequence, Value, ValueKind};
use vcore::{Ov, Path, Step, VK};

/// Instrumented, order preserving value source: every node knows its id; ids index `NodeInfo`.
pub struct OvI {
    pub id: u32,
    v: V,
}

enum V {
    Null,
    Bool(bool),
    Int(u64),
    Neg(i64),
    Float(f64),
    Str(String),
    Seq(Vec<OvI>),
    Map(Vec<(String, OvI)>),
}

#[derive(Clone, Debug)]
pub struct NodeInfo {
    pub path: Path,
    pub kind: VK,
    pub parent: Option<u32>,
}

/// Assign node ids in pre-order.
pub fn instrument(p: &Ov) -> (OvI, Vec<NodeInfo>) {
    let mut nodes = vec![];
    let mut path = vec![];
    let r = build(p, &mut nodes, &mut path, None);
    (r, nodes)
}

fn build(p: &Ov, nodes: &mut Vec<NodeInfo>, path: &mut Path, parent: Option<u32>) -> OvI {
    let id = nodes.len() as u32;
    nodes.push(NodeInfo { path: path.clone(), kind: p.kind(), parent });
    let v = match p {
        Ov::Null => V::Null,
        Ov::Bool(b) => V::Bool(*b),
        Ov::Int(u) => V::Int(*u),
        Ov::Neg(i) => V::Neg(*i),
        Ov::Float(f) => V::Float(f.get()),
        Ov::Str(s) => V::Str(s.clone()),
        Ov::Seq(xs) => V::Seq(
            xs.iter()
                .enumerate()
                .map(|(i, x)| {
                    path.push(Step::Index(i));
                    let r = build(x, nodes, path, Some(id));
                    path.pop();
                    r
                })
                .collect(),
        ),
        Ov::Map(m) => V::Map(
            m.iter()
                .map(|(k, x)| {
                    path.push(Step::Key(k.clone()));
                    let r = build(x, nodes, path, Some(id));
                    path.pop();
                    (k.clone(), r)
                })
                .collect(),
        ),
    };
    OvI { id, v }
}

pub struct OvSeq {
    pub id: u32,
    items: Vec<OvI>,
}

pub struct OvMap {
    pub id: u32,
    items: Vec<(String, OvI)>,
}

impl IntoValue for OvI {
    type Sequence = OvSeq;
    type Map = OvMap;

    fn kind(&self) -> ValueKind {
        match &self.v {
            V::Null => ValueKind::Null,
            V::Bool(_) => ValueKind::Boolean,
            V::Int(_) => ValueKind::Integer,
            V::Neg(_) => ValueKind::NegativeInteger,
            V::Float(_) => ValueKind::Float,
            V::Str(_) => ValueKind::String,
            V::Seq(_) => ValueKind::Sequence,
            V::Map(_) => ValueKind::Map,
        }
    }

    fn into_value(self) -> Value<Self> {
        trace::log(Event::Examine { node: self.id });
        match self.v {
            V::Null => Value::Null,
            V::Bool(b) => Value::Boolean(b),
            V::Int(u) => Value::Integer(u),
            V::Neg(i) => Value::NegativeInteger(i),
            V::Float(f) => Value::Float(f),
            V::Str(s) => Value::String(s),
            V::Seq(items) => Value::Sequence(OvSeq { id: self.id, items }),
            V::Map(items) => Value::Map(OvMap { id: self.id, items }),
        }
    }
}

impl Sequence for OvSeq {
    type Value = OvI;
    type Iter = std::vec::IntoIter<OvI>;
    fn len(&self) -> usize {
        self.items.len()
    }
    fn into_iter(self) -> Self::Iter {
        trace::log(Event::IterSeq { node: self.id });
        IntoIterator::into_iter(self.items)
    }
}

impl Map for OvMap {
    type Value = OvI;
    type Iter = std::vec::IntoIter<(String, OvI)>;
    fn len(&self) -> usize {
        self.items.len()
    }
    fn remove(&mut self, key: &str) -> Option<OvI> {
        let pos = self.items.iter().position(|(k, _)| k == key);
        let r = pos.map(|p| Vec::remove(&mut self.items, p).1);
        trace::log(Event::Remove { map: self.id, key: key.to_string(), found: r.as_ref().map(|x| x.id) });
        r
    }
    fn into_iter(self) -> Self::Iter {
        trace::log(Event::IterMap { node: self.id });
        IntoIterator::into_iter(self.items)
    }
}
