use std::collections::{BTreeMap, BTreeSet, HashMap, HashSet};
use std::marker::PhantomData;
use std::num::*;
use vcore::Proj;

/// Projection of a real Rust value, by Rust structure (never by serialisation key).
pub trait ToProj {
    fn to_proj(&self) -> Proj;
}

impl ToProj for () {
    fn to_proj(&self) -> Proj {
        Proj::Unit
    }
}
impl ToProj for bool {
    fn to_proj(&self) -> Proj {
        Proj::Bool(*self)
    }
}
impl ToProj for char {
    fn to_proj(&self) -> Proj {
        Proj::Char(*self)
    }
}
impl ToProj for String {
    fn to_proj(&self) -> Proj {
        Proj::Str(self.clone())
    }
}
macro_rules! uproj { ($($t:ty),*) => { $(impl ToProj for $t { fn to_proj(&self) -> Proj { Proj::UInt(*self as u128) } })* } }
macro_rules! iproj { ($($t:ty),*) => { $(impl ToProj for $t { fn to_proj(&self) -> Proj { Proj::Int(*self as i128) } })* } }
macro_rules! nzuproj { ($($t:ty),*) => { $(impl ToProj for $t { fn to_proj(&self) -> Proj { Proj::UInt(self.get() as u128) } })* } }
macro_rules! nziproj { ($($t:ty),*) => { $(impl ToProj for $t { fn to_proj(&self) -> Proj { Proj::Int(self.get() as i128) } })* } }
uproj!(u8, u16, u32, u64, u128, usize);
iproj!(i8, i16, i32, i64, i128, isize);
nzuproj!(NonZeroU8, NonZeroU16, NonZeroU32, NonZeroU64, NonZeroU128, NonZeroUsize);
nziproj!(NonZeroI8, NonZeroI16, NonZeroI32, NonZeroI64, NonZeroI128, NonZeroIsize);
impl ToProj for f32 {
    fn to_proj(&self) -> Proj {
        Proj::F32(self.to_bits())
    }
}
impl ToProj for f64 {
    fn to_proj(&self) -> Proj {
        Proj::F64(self.to_bits())
    }
}
impl<T: ToProj> ToProj for Option<T> {
    fn to_proj(&self) -> Proj {
        match self {
            None => Proj::None,
            Some(x) => Proj::Some(Box::new(x.to_proj())),
        }
    }
}
impl<T: ToProj> ToProj for Box<T> {
    fn to_proj(&self) -> Proj {
        (**self).to_proj()
    }
}
impl<T: ToProj> ToProj for Vec<T> {
    fn to_proj(&self) -> Proj {
        Proj::Seq(self.iter().map(|x| x.to_proj()).collect())
    }
}
impl<T: ToProj, const N: usize> ToProj for [T; N] {
    fn to_proj(&self) -> Proj {
        Proj::Seq(self.iter().map(|x| x.to_proj()).collect())
    }
}
impl<A: ToProj, B: ToProj> ToProj for (A, B) {
    fn to_proj(&self) -> Proj {
        Proj::Seq(vec![self.0.to_proj(), self.1.to_proj()])
    }
}
impl<A: ToProj, B: ToProj, C: ToProj> ToProj for (A, B, C) {
    fn to_proj(&self) -> Proj {
        Proj::Seq(vec![self.0.to_proj(), self.1.to_proj(), self.2.to_proj()])
    }
}
impl<T: ToProj> ToProj for HashSet<T> {
    fn to_proj(&self) -> Proj {
        Proj::Set(self.iter().map(|x| x.to_proj()).collect::<BTreeSet<_>>())
    }
}
impl<T: ToProj> ToProj for BTreeSet<T> {
    fn to_proj(&self) -> Proj {
        Proj::Set(self.iter().map(|x| x.to_proj()).collect::<BTreeSet<_>>())
    }
}
impl<K: ToProj, T: ToProj> ToProj for HashMap<K, T> {
    fn to_proj(&self) -> Proj {
        Proj::Map(self.iter().map(|(k, v)| (k.to_proj(), v.to_proj())).collect::<BTreeMap<_, _>>())
    }
}
impl<K: ToProj, T: ToProj> ToProj for BTreeMap<K, T> {
    fn to_proj(&self) -> Proj {
        Proj::Map(self.iter().map(|(k, v)| (k.to_proj(), v.to_proj())).collect::<BTreeMap<_, _>>())
    }
}
impl<T> ToProj for PhantomData<T> {
    fn to_proj(&self) -> Proj {
        Proj::Phantom
    }
}
impl ToProj for serde_json::Value {
    fn to_proj(&self) -> Proj {
        Proj::Json(serde_json::to_string(self).unwrap_or_else(|_| "<unserialisable>".into()))
    }
}
impl<T: ToProj> ToProj for serde_cs::vec::CS<T> {
    fn to_proj(&self) -> Proj {
        Proj::Seq(self.0.iter().map(|x| x.to_proj()).collect())
    }
}
