use deserr::ValuePointerRef;
use serde::{Deserialize, Serialize};
use std::cell::RefCell;
use vcore::{Ov, Path, Rng, Step, VK};

/// The answer script = the fault injector: decides the ControlFlow answer of the i-th decision.
#[derive(Clone, Debug, PartialEq, Eq, Serialize, Deserialize)]
pub enum Script {
    /// keep-going: always Continue
    Continue,
    /// fail-fast: always Break
    Break,
    /// Continue for decisions < k, Break from decision k on
    BreakFrom(u32),
    /// pseudo-random answers, 3/4 Continue
    Bits(u64),
    /// pseudo-random answers, 1/2 Continue
    Coin(u64),
    /// explicit list (true = Continue); Continue once exhausted
    Explicit(Vec<bool>),
    /// answers by the KIND of decision instead of its index: Break to every report whose kind tag is
    /// listed ("kind", "missing", "unknown_key", "unknown_value", "bad_len", "unexpected", "foreign"),
    /// to every hand-over when `merges`, Continue otherwise. `ety`: restrict to one error type (0 = Rec,
    /// 1 = Rec2), e.g. "the field-level error type stops, the container's keeps going".
    Policy { reports: Vec<String>, merges: bool, ety: Option<u8> },
}

/// What a decision is about (for `Script::Policy`).
pub enum Ask<'a> {
    Report { tag: &'a str, ety: u8 },
    Merge { ety: u8 },
}

impl Script {
    pub fn answer_for(&self, decision: u32, ask: Ask) -> bool {
        match self {
            Script::Policy { reports, merges, ety } => match ask {
                Ask::Report { tag, ety: e } => !(ety.map_or(true, |x| x == e) && reports.iter().any(|r| r == tag)),
                Ask::Merge { ety: e } => !(ety.map_or(true, |x| x == e) && *merges),
            },
            other => other.answer(decision),
        }
    }

    pub fn answer(&self, decision: u32) -> bool {
        match self {
            Script::Policy { .. } => true,
            Script::Continue => true,
            Script::Break => false,
            Script::BreakFrom(k) => decision < *k,
            Script::Bits(seed) => Rng::derive(*seed, decision as u64, 7).next() % 4 != 0,
            Script::Coin(seed) => Rng::derive(*seed, decision as u64, 11).next() % 2 != 0,
            Script::Explicit(v) => v.get(decision as usize).copied().unwrap_or(true),
        }
    }
}

#[derive(Clone, Debug, PartialEq, Serialize, Deserialize)]
pub enum RKind {
    Kind { actual: Ov, actual_node: Option<u32>, accepted: Vec<VK> },
    Missing { field: String },
    UnknownKey { key: String, accepted: Vec<String> },
    UnknownValue { value: String, accepted: Vec<String> },
    BadLen { actual: Ov, actual_node: Option<u32>, expected: usize },
    Unexpected { msg: String },
    /// a foreign (user function) error handed to the error type through MergeWithError<F>
    Foreign { name: String, msg: String },
}

impl RKind {
    pub fn tag(&self) -> &'static str {
        match self {
            RKind::Kind { .. } => "kind",
            RKind::Missing { .. } => "missing",
            RKind::UnknownKey { .. } => "unknown_key",
            RKind::UnknownValue { .. } => "unknown_value",
            RKind::BadLen { .. } => "bad_len",
            RKind::Unexpected { .. } => "unexpected",
            RKind::Foreign { .. } => "foreign",
        }
    }
}

#[derive(Clone, Debug, PartialEq, Serialize, Deserialize)]
pub struct Report {
    /// unique id of this report within the run
    pub id: u32,
    /// which recording error type received it (0 = Rec, 1 = Rec2)
    pub ety: u8,
    pub kind: RKind,
    pub loc: Path,
    pub self_tok: Option<u32>,
    pub self_holding: Vec<u32>,
    pub decision: u32,
    /// the answer given: true = Continue, false = Break
    pub cont: bool,
    pub out_tok: u32,
}

#[derive(Clone, Debug, PartialEq, Serialize, Deserialize)]
pub struct Merge {
    pub ety: u8,
    pub self_tok: Option<u32>,
    pub self_holding: Vec<u32>,
    pub other_tok: u32,
    pub other_ety: u8,
    pub other_holding: Vec<u32>,
    pub loc: Path,
    pub decision: u32,
    pub cont: bool,
    pub out_tok: u32,
}

#[derive(Clone, Debug, PartialEq, Serialize, Deserialize)]
pub enum Event {
    /// the value source was asked for the content of a node (IntoValue::into_value)
    Examine { node: u32 },
    IterSeq { node: u32 },
    IterMap { node: u32 },
    Remove { map: u32, key: String, found: Option<u32> },
    Report(Report),
    Merge(Merge),
    /// an instrumented user function ran
    Call { name: String, arg: String, loc: Option<Path> },
    /// an error value died while still holding reports (or at all)
    Drop { tok: u32, ety: u8, holding: Vec<u32> },
}

impl Event {
    pub fn short(&self) -> String {
        match self {
            Event::Examine { node } => format!("examine n{node}"),
            Event::IterSeq { node } => format!("iter-seq n{node}"),
            Event::IterMap { node } => format!("iter-map n{node}"),
            Event::Remove { map, key, found } => format!("remove n{map}[{key:?}] -> {found:?}"),
            Event::Report(r) => format!(
                "report r{} {}{} @{:?} self={:?} d{}={} -> t{}",
                r.id,
                r.kind.tag(),
                if r.ety == 0 { "" } else { "(Rec2)" },
                vcore::render_path(&r.loc),
                r.self_tok,
                r.decision,
                if r.cont { "Continue" } else { "Break" },
                r.out_tok
            ),
            Event::Merge(m) => format!(
                "merge self={:?} other=t{}{:?} @{:?} d{}={} -> t{}",
                m.self_tok,
                m.other_tok,
                m.other_holding,
                vcore::render_path(&m.loc),
                m.decision,
                if m.cont { "Continue" } else { "Break" },
                m.out_tok
            ),
            Event::Call { name, arg, loc } => {
                format!("call {name}({arg}) @{:?}", loc.as_ref().map(|l| vcore::render_path(l)))
            }
            Event::Drop { tok, holding, .. } => format!("drop t{tok} holding {holding:?}"),
        }
    }
}

pub struct State {
    pub active: bool,
    pub events: Vec<Event>,
    pub next_report: u32,
    pub next_tok: u32,
    pub decision: u32,
    pub script: Script,
}

thread_local! {
    pub static STATE: RefCell<State> = RefCell::new(State {
        active: false, events: Vec::new(), next_report: 0, next_tok: 0, decision: 0, script: Script::Continue,
    });
}

pub fn begin(script: Script) {
    STATE.with(|s| {
        let mut s = s.borrow_mut();
        s.active = true;
        s.events.clear();
        s.next_report = 0;
        s.next_tok = 0;
        s.decision = 0;
        s.script = script;
    });
}

pub fn end() -> Vec<Event> {
    STATE.with(|s| {
        let mut s = s.borrow_mut();
        s.active = false;
        std::mem::take(&mut s.events)
    })
}

pub fn log(e: Event) {
    STATE.with(|s| {
        if let Ok(mut s) = s.try_borrow_mut() {
            if s.active {
                s.events.push(e);
            }
        }
    });
}

pub fn events_len() -> usize {
    STATE.with(|s| s.borrow().events.len())
}

/// Cut the events logged since `len` out of the trace and return them (used while the monitor
/// itself walks a value it was handed: those examinations are the monitor's, not deserr's).
pub fn cut_events(len: usize) -> Vec<Event> {
    STATE.with(|s| {
        let mut s = s.borrow_mut();
        if s.events.len() > len {
            s.events.split_off(len)
        } else {
            vec![]
        }
    })
}

pub fn to_path(l: ValuePointerRef) -> Path {
    // walks the public enum itself: independent of ValuePointerRef::to_owned (C19's subject)
    // ... but, like a user's error type would, the recording types also call the accessors on every location they
    // are given (results unused): an accessor that panics or does not return then shows inside deserialize (C12)
    let _ = (l.is_origin(), l.first_field(), l.last_field());
    let _ = l.to_owned();
    let mut out = vec![];
    let mut cur = l;
    loop {
        match cur {
            ValuePointerRef::Origin => break,
            ValuePointerRef::Key { key, prev } => {
                out.push(Step::Key(key.to_string()));
                cur = *prev;
            }
            ValuePointerRef::Index { index, prev } => {
                out.push(Step::Index(index));
                cur = *prev;
            }
        }
    }
    out.reverse();
    out
}

/// Called by the instrumented user functions.
pub fn log_call(name: &str, arg: String, loc: Option<ValuePointerRef>) {
    log(Event::Call { name: name.to_string(), arg, loc: loc.map(to_path) });
}

pub fn vk(k: deserr::ValueKind) -> VK {
    match k {
        deserr::ValueKind::Null => VK::Null,
        deserr::ValueKind::Boolean => VK::Boolean,
        deserr::ValueKind::Integer => VK::Integer,
        deserr::ValueKind::NegativeInteger => VK::NegativeInteger,
        deserr::ValueKind::Float => VK::Float,
        deserr::ValueKind::String => VK::String,
        deserr::ValueKind::Sequence => VK::Sequence,
        deserr::ValueKind::Map => VK::Map,
    }
}

pub fn dk(k: VK) -> deserr::ValueKind {
    match k {
        VK::Null => deserr::ValueKind::Null,
        VK::Boolean => deserr::ValueKind::Boolean,
        VK::Integer => deserr::ValueKind::Integer,
        VK::NegativeInteger => deserr::ValueKind::NegativeInteger,
        VK::Float => deserr::ValueKind::Float,
        VK::String => deserr::ValueKind::String,
        VK::Sequence => deserr::ValueKind::Sequence,
        VK::Map => deserr::ValueKind::Map,
    }
}
