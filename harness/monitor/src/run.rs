use crate::ovi::{instrument, NodeInfo, OvI};
use crate::proj::ToProj;
use crate::rec::Rec;
use crate::trace::{self, Event, Script};
use deserr::{DeserializeError, Deserr, IntoValue};
use std::cell::RefCell;
use std::panic::{catch_unwind, AssertUnwindSafe};
use std::sync::Once;
use vcore::{Ov, Proj};

#[derive(Clone, Debug, PartialEq)]
pub enum Outcome {
    Ok(Proj),
    /// the returned error: its token and the report ids it holds (in order)
    Err { tok: u32, holding: Vec<u32> },
    Panic(String),
}

impl Outcome {
    pub fn tag(&self) -> &'static str {
        match self {
            Outcome::Ok(_) => "ok",
            Outcome::Err { .. } => "err",
            Outcome::Panic(_) => "panic",
        }
    }
    pub fn show(&self) -> String {
        match self {
            Outcome::Ok(p) => format!("Ok({})", p.show()),
            Outcome::Err { tok, holding } => format!("Err(t{tok} holding {holding:?})"),
            Outcome::Panic(m) => format!("PANIC: {m}"),
        }
    }
}

pub struct Run {
    pub outcome: Outcome,
    pub events: Vec<Event>,
    /// node table of the instrumented source (empty for the serde_json source)
    pub nodes: Vec<NodeInfo>,
}

impl Run {
    pub fn reports(&self) -> impl Iterator<Item = &crate::trace::Report> {
        self.events.iter().filter_map(|e| if let Event::Report(r) = e { Some(r) } else { None })
    }
    pub fn merges(&self) -> impl Iterator<Item = &crate::trace::Merge> {
        self.events.iter().filter_map(|e| if let Event::Merge(r) = e { Some(r) } else { None })
    }
    pub fn decisions(&self) -> u32 {
        self.events
            .iter()
            .filter(|e| matches!(e, Event::Report(_) | Event::Merge(_)))
            .count() as u32
    }
    pub fn trace_lines(&self, cap: usize) -> Vec<String> {
        let mut v: Vec<String> = self.events.iter().take(cap).map(|e| e.short()).collect();
        if self.events.len() > cap {
            v.push(format!("… {} more events", self.events.len() - cap));
        }
        v
    }
}

thread_local! {
    static IN_RUN: RefCell<bool> = RefCell::new(false);
    static LAST_PANIC: RefCell<Option<String>> = RefCell::new(None);
}
static HOOK: Once = Once::new();

fn install_hook() {
    HOOK.call_once(|| {
        let prev = std::panic::take_hook();
        std::panic::set_hook(Box::new(move |info| {
            let in_run = IN_RUN.with(|f| *f.borrow());
            if in_run {
                let msg = if let Some(s) = info.payload().downcast_ref::<&str>() {
                    s.to_string()
                } else if let Some(s) = info.payload().downcast_ref::<String>() {
                    s.clone()
                } else {
                    "<non-string panic>".to_string()
                };
                let loc = info.location().map(|l| format!("{}:{}", l.file(), l.line())).unwrap_or_default();
                LAST_PANIC.with(|p| *p.borrow_mut() = Some(format!("{msg} at {loc}")));
            } else {
                prev(info);
            }
        }));
    });
}

/// Run a closure as a monitored deserialize call: panics are caught and reported as an outcome,
/// the trace survives the unwind.
pub fn monitored<T>(script: Script, f: impl FnOnce() -> Result<T, Rec>, proj: impl FnOnce(&T) -> Proj) -> (Outcome, Vec<Event>) {
    install_hook();
    let _active = crate::watch::guard();
    trace::begin(script);
    IN_RUN.with(|f| *f.borrow_mut() = true);
    LAST_PANIC.with(|p| *p.borrow_mut() = None);
    let r = catch_unwind(AssertUnwindSafe(f));
    let outcome = match r {
        Ok(Ok(v)) => match catch_unwind(AssertUnwindSafe(|| proj(&v))) {
            Ok(p) => Outcome::Ok(p),
            Err(_) => Outcome::Panic("projection panicked".into()),
        },
        Ok(Err(e)) => {
            let (tok, holding) = e.consume();
            Outcome::Err { tok, holding }
        }
        Err(_) => Outcome::Panic(LAST_PANIC.with(|p| p.borrow_mut().take()).unwrap_or_else(|| "panic".into())),
    };
    IN_RUN.with(|f| *f.borrow_mut() = false);
    let events = trace::end();
    (outcome, events)
}

pub fn run_ov<T: Deserr<Rec> + ToProj>(p: &Ov, script: Script) -> Run {
    let (inst, nodes) = instrument(p);
    let (outcome, events) = monitored(script, move || deserr::deserialize::<T, OvI, Rec>(inst), |v: &T| v.to_proj());
    Run { outcome, events, nodes }
}

pub fn run_json<T: Deserr<Rec> + ToProj>(p: &serde_json::Value, script: Script) -> Run {
    let p = p.clone();
    let (outcome, events) =
        monitored(script, move || deserr::deserialize::<T, serde_json::Value, Rec>(p), |v: &T| v.to_proj());
    Run { outcome, events, nodes: vec![] }
}

/// Run through an arbitrary (non recording) error type, e.g. JsonError: result as projection or Display text.
pub fn run_json_with<T, E>(p: &serde_json::Value) -> Result<Result<Proj, String>, String>
where
    T: Deserr<E> + ToProj,
    E: DeserializeError + std::fmt::Display,
{
    install_hook();
    let _active = crate::watch::guard();
    IN_RUN.with(|f| *f.borrow_mut() = true);
    LAST_PANIC.with(|p| *p.borrow_mut() = None);
    let p = p.clone();
    let r = catch_unwind(AssertUnwindSafe(move || deserr::deserialize::<T, serde_json::Value, E>(p)));
    IN_RUN.with(|f| *f.borrow_mut() = false);
    match r {
        Ok(Ok(v)) => Ok(Ok(v.to_proj())),
        Ok(Err(e)) => Ok(Err(e.to_string())),
        Err(_) => Err(LAST_PANIC.with(|p| p.borrow_mut().take()).unwrap_or_else(|| "panic".into())),
    }
}

/// Run any closure with panics caught silently (for direct calls of functions under test).
pub fn quiet_catch<T>(f: impl FnOnce() -> T) -> Result<T, String> {
    install_hook();
    let _active = crate::watch::guard();
    let was = IN_RUN.with(|f| std::mem::replace(&mut *f.borrow_mut(), true));
    LAST_PANIC.with(|p| *p.borrow_mut() = None);
    let r = catch_unwind(AssertUnwindSafe(f));
    IN_RUN.with(|f| *f.borrow_mut() = was);
    r.map_err(|_| LAST_PANIC.with(|p| p.borrow_mut().take()).unwrap_or_else(|| "panic".into()))
}

/// Same through the instrumented (second) value source: the built-in error types see values only
/// serde_json cannot hold (non-finite floats, duplicate keys, non-canonical numbers).
pub fn run_ov_with<T, E>(p: &Ov) -> Result<Result<Proj, String>, String>
where
    T: Deserr<E> + ToProj,
    E: DeserializeError + std::fmt::Display,
{
    install_hook();
    let _active = crate::watch::guard();
    let (inst, _) = instrument(p);
    IN_RUN.with(|f| *f.borrow_mut() = true);
    LAST_PANIC.with(|p| *p.borrow_mut() = None);
    let r = catch_unwind(AssertUnwindSafe(move || deserr::deserialize::<T, OvI, E>(inst)));
    IN_RUN.with(|f| *f.borrow_mut() = false);
    match r {
        Ok(Ok(v)) => Ok(Ok(v.to_proj())),
        Ok(Err(e)) => Ok(Err(e.to_string())),
        Err(_) => Err(LAST_PANIC.with(|p| p.borrow_mut().take()).unwrap_or_else(|| "panic".into())),
    }
}

#[allow(unused)]
fn _assert_into_value<T: IntoValue>() {}
