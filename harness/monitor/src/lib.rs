//! Monitor kit: recording error types (linear tokens, unique report ids, scripted answers),
//! instrumented value source, event trace, projections of Rust values.
pub mod ovi;
pub mod proj;
pub mod rec;
pub mod run;
pub mod trace;
pub mod watch;

pub use ovi::{instrument, NodeInfo, OvI};
pub use proj::ToProj;
pub use rec::{Foreign, Rec, Rec2, RecG};
pub use run::{run_json, run_json_with, run_ov, run_ov_with, Outcome, Run};
pub use trace::{log_call, Event, Merge, RKind, Report, Script};
