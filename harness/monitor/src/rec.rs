use crate::trace::{self, Event, Merge, RKind, Report, STATE};
use deserr::{DeserializeError, ErrorKind, IntoValue, Map as _, MergeWithError, Sequence as _, Value, ValuePointerRef};
use std::ops::ControlFlow;
use vcore::Ov;

/// Recording error type. A value is a *linear token*: it has a fresh token id and holds the ordered
/// multiset of report ids it was built from. It keeps everything it is handed (premise of C01).
pub struct RecG<const N: u8> {
    pub tok: u32,
    pub reports: Vec<u32>,
    live: bool,
}

pub type Rec = RecG<0>;
pub type Rec2 = RecG<1>;

impl<const N: u8> std::fmt::Debug for RecG<N> {
    fn fmt(&self, f: &mut std::fmt::Formatter<'_>) -> std::fmt::Result {
        write!(f, "Rec{}(t{} {:?})", N, self.tok, self.reports)
    }
}

impl<const N: u8> RecG<N> {
    /// Take the content out; the token is then dead and its Drop is silent.
    pub fn consume(mut self) -> (u32, Vec<u32>) {
        self.live = false;
        (self.tok, std::mem::take(&mut self.reports))
    }
}

impl<const N: u8> Drop for RecG<N> {
    fn drop(&mut self) {
        if self.live {
            trace::log(Event::Drop { tok: self.tok, ety: N, holding: self.reports.clone() });
        }
    }
}

/// Marker for the user-function error types (`Odd`, `ValErr`, ...) the recording types accept.
pub trait Foreign: std::fmt::Display {
    const NAME: &'static str;
}

fn walk<V: IntoValue>(v: Value<V>) -> Ov {
    match v {
        Value::Null => Ov::Null,
        Value::Boolean(b) => Ov::Bool(b),
        Value::Integer(u) => Ov::Int(u),
        Value::NegativeInteger(i) => Ov::Neg(i),
        Value::Float(f) => Ov::float(f),
        Value::String(s) => Ov::Str(s),
        Value::Sequence(s) => Ov::Seq(s.into_iter().map(|x| walk(x.into_value())).collect()),
        Value::Map(m) => Ov::Map(m.into_iter().map(|(k, x)| (k, walk(x.into_value()))).collect()),
    }
}

/// Capture a value the error type was handed as an owned tree, walking it through the IntoValue
/// traits themselves (not through deserr's From<Value> for serde_json::Value, which C13 tests).
/// The examinations this causes are cut out of the trace; the first container iteration tells which
/// node of the instrumented source the value *is* (identity, not equality).
fn capture<V: IntoValue>(v: Value<V>) -> (Ov, Option<u32>) {
    let len = trace::events_len();
    let ov = walk(v);
    let cut = trace::cut_events(len);
    let node = match cut.first() {
        Some(Event::IterSeq { node }) | Some(Event::IterMap { node }) => Some(*node),
        _ => None,
    };
    (ov, node)
}

fn own_kind<V: IntoValue>(e: ErrorKind<V>) -> RKind {
    match e {
        ErrorKind::IncorrectValueKind { actual, accepted } => {
            let accepted = accepted.iter().map(|k| trace::vk(*k)).collect();
            let (actual, actual_node) = capture(actual);
            RKind::Kind { actual, actual_node, accepted }
        }
        ErrorKind::MissingField { field } => RKind::Missing { field: field.to_string() },
        ErrorKind::UnknownKey { key, accepted } => {
            RKind::UnknownKey { key: key.to_string(), accepted: accepted.iter().map(|s| s.to_string()).collect() }
        }
        ErrorKind::UnknownValue { value, accepted } => RKind::UnknownValue {
            value: value.to_string(),
            accepted: accepted.iter().map(|s| s.to_string()).collect(),
        },
        ErrorKind::BadSequenceLen { actual, expected } => {
            let (actual, actual_node) = capture::<V>(Value::Sequence(actual));
            RKind::BadLen { actual, actual_node, expected }
        }
        ErrorKind::Unexpected { msg } => RKind::Unexpected { msg },
    }
}

fn new_report<const N: u8>(self_: Option<RecG<N>>, kind: RKind, location: ValuePointerRef) -> ControlFlow<RecG<N>, RecG<N>> {
    let loc = trace::to_path(location);
    let (self_tok, mut holding) = match self_ {
        Some(s) => {
            let (t, h) = s.consume();
            (Some(t), h)
        }
        None => (None, vec![]),
    };
    let self_holding = holding.clone();
    let (id, decision, cont, out_tok) = STATE.with(|s| {
        let mut s = s.borrow_mut();
        let id = s.next_report;
        s.next_report += 1;
        let d = s.decision;
        s.decision += 1;
        let t = s.next_tok;
        s.next_tok += 1;
        (id, d, s.script.answer_for(d, trace::Ask::Report { tag: kind.tag(), ety: N }), t)
    });
    holding.push(id);
    trace::log(Event::Report(Report { id, ety: N, kind, loc, self_tok, self_holding, decision, cont, out_tok }));
    let r = RecG { tok: out_tok, reports: holding, live: true };
    if cont {
        ControlFlow::Continue(r)
    } else {
        ControlFlow::Break(r)
    }
}

impl<const N: u8> DeserializeError for RecG<N> {
    fn error<V: IntoValue>(self_: Option<Self>, error: ErrorKind<V>, location: ValuePointerRef) -> ControlFlow<Self, Self> {
        let kind = own_kind(error);
        new_report(self_, kind, location)
    }
}

impl<const A: u8, const B: u8> MergeWithError<RecG<B>> for RecG<A> {
    fn merge(self_: Option<Self>, other: RecG<B>, merge_location: ValuePointerRef) -> ControlFlow<Self, Self> {
        let loc = trace::to_path(merge_location);
        let (self_tok, mut holding) = match self_ {
            Some(s) => {
                let (t, h) = s.consume();
                (Some(t), h)
            }
            None => (None, vec![]),
        };
        let self_holding = holding.clone();
        let (other_tok, other_holding) = other.consume();
        holding.extend(other_holding.iter().copied());
        let (decision, cont, out_tok) = STATE.with(|s| {
            let mut s = s.borrow_mut();
            let d = s.decision;
            s.decision += 1;
            let t = s.next_tok;
            s.next_tok += 1;
            (d, s.script.answer_for(d, trace::Ask::Merge { ety: A }), t)
        });
        trace::log(Event::Merge(Merge {
            ety: A,
            self_tok,
            self_holding,
            other_tok,
            other_ety: B,
            other_holding,
            loc,
            decision,
            cont,
            out_tok,
        }));
        let r = RecG { tok: out_tok, reports: holding, live: true };
        if cont {
            ControlFlow::Continue(r)
        } else {
            ControlFlow::Break(r)
        }
    }
}

impl<const A: u8, F: Foreign> MergeWithError<F> for RecG<A> {
    fn merge(self_: Option<Self>, other: F, merge_location: ValuePointerRef) -> ControlFlow<Self, Self> {
        new_report(self_, RKind::Foreign { name: F::NAME.to_string(), msg: other.to_string() }, merge_location)
    }
}
