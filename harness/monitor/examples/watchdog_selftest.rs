//! Self-test of monitor::watch: a sleeping call must not trip the watchdog, a spinning one must.
fn main() {
    monitor::watch::start(
        2,
        Box::new(|ctx, secs| {
            println!("STUCK ctx={ctx} cpu_secs={secs}");
            std::process::exit(7);
        }),
    );
    monitor::watch::set_context(|| "sleeping call".into());
    let _ = monitor::run::quiet_catch(|| std::thread::sleep(std::time::Duration::from_secs(6)));
    println!("sleeping call returned without alarm");
    monitor::watch::set_context(|| "spinning call".into());
    let _ = monitor::run::quiet_catch(|| {
        let mut x = 0u64;
        loop {
            x = std::hint::black_box(x.wrapping_add(1));
        }
    });
}
