#!/bin/bash
# Run once after a fresh restore, offline: builds the harness from files on disk only.
set -eu
ROOT="$(cd "$(dirname "$0")" && pwd)"
export CARGO_NET_OFFLINE=true CARGO_TARGET_DIR="$ROOT/target" CARGO_TERM_COLOR=never
mkdir -p "$ROOT/evidence" "$ROOT/work"
[ -f "$ROOT/harness/Cargo.lock" ] || cp /repo/Cargo.lock "$ROOT/harness/Cargo.lock"
( cd "$ROOT/harness" && cargo build --offline -p verif -p gen -p vdirect )
# pre-build the quick-tier generated crate for the default seed (checks rebuild it when the seed or /repo changes)
dir="$ROOT/work/gen-quick"; mkdir -p "$dir"
"$ROOT/target/debug/gen" --seed "${VERIF_SEED:-1}" --count "${VERIF_PROGRAMS:-120}" --out "$dir" --harness "$ROOT/harness" --name gsub-quick
[ -f "$dir/Cargo.lock" ] || cp "$ROOT/harness/Cargo.lock" "$dir/Cargo.lock"
( cd "$dir" && cargo build --offline )
echo "setup done"
