#!/bin/bash
# Run once after a fresh restore, offline: builds the harness from files on disk only.
set -eu
ROOT="$(cd "$(dirname "$0")" && pwd)"
export CARGO_NET_OFFLINE=true CARGO_TARGET_DIR="$ROOT/target" CARGO_TERM_COLOR=never
mkdir -p "$ROOT/evidence" "$ROOT/work"
[ -f "$ROOT/harness/Cargo.lock" ] || cp /repo/Cargo.lock "$ROOT/harness/Cargo.lock"
( cd "$ROOT/harness" && cargo build --offline -p verif )
echo "setup done"
