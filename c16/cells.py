"""C16 matrix: one cell per signature `cause/level/attribute/spelling/item-kind`.

Every cell has a builder `build(rng, j) -> (Item, subkind)`; `j` is the instance index inside the cell and
drives the deterministic rotations (which twin half is kept, tagged/unit enum, alone/mixed placement ...),
the rng (seeded from VERIF_SEED) only varies the base item around the poison.
"""
from gen import (Atom, N, Line, layout, gen_base, gen_field, field_noise, Field, Variant, snake, pascal, lit,
                 type_by_name, TYPES, MAPS, FROMS, TRY_FROMS)

CELLS = []


def cell(sig, family, level, k=2):
    def deco(fn):
        CELLS.append({"sig": sig, "family": family, "level": level, "k": k, "build": fn})
        return fn
    return deco


def dup_atoms(a, b, keep):
    """two occurrences with different values; the twin keeps occurrence `keep`"""
    return [Atom(a, a if keep == 0 else None), Atom(b, b if keep == 1 else None)]


def host_fields(rng, item, host):
    """the field list that receives the poisoned field ('struct' or a struct-like variant of a tagged enum)"""
    if host == "struct":
        return item.fields
    cands = [v for v in item.variants if v.fields is not None]
    return rng.pick(cands).fields


def add_field(rng, item, host, ty, poison, spelling, exclude=(), raw=None, with_noise=True):
    fields = host_fields(rng, item, host)
    used = {f.name for f in fields}
    name = snake(rng, used)
    noise = []
    if with_noise:
        if ty == "h::W":
            if "rename" not in exclude and rng.chance(1, 3):
                noise.append(N(f'rename = "{lit(rng)}"'))
            if "default" not in exclude and rng.chance(1, 4):
                noise.append(N("default"))
        else:
            noise = [a for a in field_noise(rng, item, ty, exclude=tuple(exclude) + ("skip",))]
    f = Field(name, ty, layout(rng, noise, poison, spelling, raw))
    fields.insert(rng.below(len(fields) + 1), f)
    return f


def base_for_field(rng, host, mode=None, **kw):
    return gen_base(rng, "struct" if host == "struct" else "tagged", mode=mode, **kw)


def finish_container(rng, item, poison=(), spelling=None, raw=None):
    item.lines = layout(rng, item.noise, poison, spelling, raw)
    return item


def single_spelling(j):
    return "alone" if j % 2 == 0 else "one"


# ------------------------------------------------------------------------------------------------
# shapes

@cell("shape/tuple-struct", "shape", "container", k=2)
def _(rng, j):
    it = gen_base(rng, "struct", quiet_fields=(j % 2 == 0))
    it.shape_p = "tuple"
    return finish_container(rng, it), "attrs-on-fields" if j % 2 else "plain-fields"


@cell("shape/unit-struct", "shape", "container", k=2)
def _(rng, j):
    it = gen_base(rng, "struct", exclude=("validate",) if j % 2 else ())
    it.shape_p = "unit"
    if j % 2:
        it.shape_t = "empty"
    return finish_container(rng, it), "twin-empty-braces" if j % 2 else "twin-with-fields"


@cell("shape/union", "shape", "container", k=2)
def _(rng, j):
    it = gen_base(rng, "struct", quiet_fields=(j % 2 == 0), copy_only=True, exclude=("validate",))
    it.keyword_p = "union"
    return finish_container(rng, it), "attrs-on-fields" if j % 2 else "plain-fields"


@cell("shape/unnamed-variant", "shape", "variant", k=3)
def _(rng, j):
    it = gen_base(rng, "tagged")
    used = {v.name for v in it.variants}
    r = j % 3
    nf = [1, rng.rng(2, 3), 0][r]
    fu = set()
    v = Variant(pascal(rng, used), [gen_field(rng, it, fu, quiet=True) for _ in range(nf)])
    v.shape_p = "tuple"
    it.variants.insert(rng.below(len(it.variants) + 1), v)
    return finish_container(rng, it), ["one-unnamed", "several-unnamed", "empty-parens"][r]


@cell("shape/enum-without-tag", "shape", "container", k=2)
def _(rng, j):
    it = gen_base(rng, "tagged", exclude=("tag",))
    tag = Atom(None, 'tag = "%s"' % rng.pick(["type", "kind"]))
    if j % 2 == 0:
        # keep other container attributes out of the way in half of the instances
        it.noise = [a for a in it.noise if a.p.startswith("error")]
    return finish_container(rng, it, [tag], "one"), "bare" if j % 2 == 0 else "with-other-attrs"


# ------------------------------------------------------------------------------------------------
# unknown attribute

def unknown_text(rng, name, j):
    form = (j // 2) % 3
    if form == 0:
        return name
    if form == 1:
        return f'{name} = "{lit(rng)}"'
    return f"{name} = {lit(rng).strip('0123456789_') or 'x'}"


for _name in ["bogus", "rename", "default", "skip"]:
    for _kind in ["struct", "enum"]:
        def _b(rng, j, _name=_name, _kind=_kind):
            kind = "struct" if _kind == "struct" else ["tagged", "unit"][j % 2]
            it = gen_base(rng, kind)
            txt = unknown_text(rng, _name, j) if _name in ("bogus", "rename") else _name
            return finish_container(rng, it, [Atom(txt, None)], single_spelling(j)), f"{kind}/{single_spelling(j)}"
        cell(f"unknown/container/{_name}/{_kind}", "unknown", "container", k=2)(_b)

for _name in ["bogus", "tag", "default", "error"]:
    def _b(rng, j, _name=_name):
        kind = ["tagged", "unit"][j % 2]
        it = gen_base(rng, kind)
        v = rng.pick(it.variants)
        txt = {"bogus": unknown_text(rng, "bogus", j), "tag": 'tag = "kind"', "default": "default",
               "error": "error = deserr::errors::JsonError"}[_name]
        noise = [a for ln in v.lines for a in (ln.atoms or [])]
        v.lines = layout(rng, noise, [Atom(txt, None)], single_spelling(j))
        vk = "unit-variant" if v.fields is None else "struct-variant"
        return finish_container(rng, it), f"{kind}/{vk}/{single_spelling(j)}"
    cell(f"unknown/variant/{_name}", "unknown", "variant", k=2)(_b)

for _name in ["bogus", "tag", "rename_all", "deny_unknown_fields", "validate"]:
    for _host in ["struct", "variant"]:
        def _b(rng, j, _name=_name, _host=_host):
            it = base_for_field(rng, _host)
            txt = {"bogus": unknown_text(rng, "bogus", j), "tag": 'tag = "kind"', "rename_all": "rename_all = camelCase",
                   "deny_unknown_fields": "deny_unknown_fields", "validate": "validate = check_a -> h::ValErrA"}[_name]
            ty = rng.pick(TYPES)[0]
            add_field(rng, it, _host, ty, [Atom(txt, None)], single_spelling(j))
            return finish_container(rng, it), single_spelling(j)
        cell(f"unknown/field/{_name}/{_host}", "unknown", "field", k=2)(_b)


# ------------------------------------------------------------------------------------------------
# single-valued attribute given twice

def container_dup_values(rng, item, attr):
    E = item.E
    if attr == "rename_all":
        v = ["rename_all = camelCase", "rename_all = lowercase"]
    elif attr == "tag":
        v = ['tag = "kind"', 'tag = "type"']
    elif attr == "error":
        v = rng.pick([["error = deserr::errors::JsonError", "error = deserr::errors::QueryParamError"],
                      ["error = deserr::errors::JsonError", "error = h::EA"],
                      ["error = h::EA", "error = deserr::errors::QueryParamError"]])
    elif attr == "deny_unknown_fields":
        return ["deny_unknown_fields", "deny_unknown_fields"]
    elif attr == "deny_unknown_fields_fn":
        v = [f"deny_unknown_fields = h::unknown_a::<{E}>", f"deny_unknown_fields = h::unknown_b::<{E}>"]
    elif attr == "deny_unknown_fields_mixed":
        v = ["deny_unknown_fields", f"deny_unknown_fields = h::unknown_{rng.pick('ab')}::<{E}>"]
    elif attr == "from":
        v = rng.pick([["from(String) = cfrom_a", "from(u64) = cfrom_b"], ["from(&String) = cfrom_r", "from(u64) = cfrom_b"],
                      ["from(String) = cfrom_a", "from(&String) = cfrom_r"]])
    elif attr == "try_from":
        v = ["try_from(String) = ctry_a -> h::ConvErrA", "try_from(&u64) = ctry_b -> h::ConvErrB"]
    elif attr == "validate":
        v = ["validate = check_a -> h::ValErrA", "validate = check_b -> h::ValErrB"]
    else:
        raise KeyError(attr)
    if rng.chance(1, 2):
        v.reverse()
    return v


def container_kind_for(attr, kind_label, j):
    """which base kind a container-level cell uses; returns (kind, excluded noise families)"""
    fam = attr.split("_fn")[0].split("_mixed")[0]
    excl = [fam]
    if kind_label == "struct":
        kind = "struct"
    elif attr in ("tag", "deny_unknown_fields", "deny_unknown_fields_fn", "deny_unknown_fields_mixed"):
        kind = "tagged"
    elif attr == "try_from":
        kind = "unit"
    else:
        kind = ["tagged", "unit"][j % 2]
    if attr == "try_from":
        excl += ["rename_all", "deny_unknown_fields", "tag"]
    return kind, tuple(excl)


for _attr in ["rename_all", "error", "deny_unknown_fields", "deny_unknown_fields_fn", "deny_unknown_fields_mixed",
              "from", "try_from", "validate", "tag"]:
    for _sp in ["one", "two"]:
        for _kind in (["enum"] if _attr == "tag" else ["struct", "enum"]):
            def _b(rng, j, _attr=_attr, _sp=_sp, _kind=_kind):
                kind, excl = container_kind_for(_attr, _kind, j)
                mode = "generic" if _attr == "error" else None
                it = gen_base(rng, kind, mode=mode, exclude=excl, no_e_noise=(_attr == "error"))
                a, b = container_dup_values(rng, it, _attr)
                keep = (j // 2) % 2
                return finish_container(rng, it, dup_atoms(a, b, keep), _sp), f"{kind}/twin-keeps-{keep}"
            cell(f"dup/container/{_attr}/{_sp}/{_kind}", "dup", "container", k=2)(_b)

for _attr in ["rename", "rename_all"]:
    for _sp in ["one", "two"]:
        def _b(rng, j, _attr=_attr, _sp=_sp):
            kind = ["tagged", "unit", "tagged"][j % 3]
            it = gen_base(rng, kind)
            if j % 3 == 2:
                cands = [v for v in it.variants if v.fields is not None]
            else:
                cands = it.variants
            v = rng.pick(cands)
            noise = [a for ln in v.lines for a in (ln.atoms or []) if not a.p.startswith(_attr + " =")]
            if _attr == "rename":
                a, b = f'rename = "{lit(rng)}A"', f'rename = "{lit(rng)}B"'
            else:
                a, b = rng.pick([("rename_all = camelCase", "rename_all = lowercase"),
                                 ("rename_all = lowercase", "rename_all = camelCase")])
            keep = (j // 3) % 2
            v.lines = layout(rng, noise, dup_atoms(a, b, keep), _sp)
            vk = "unit-variant" if v.fields is None else "struct-variant"
            return finish_container(rng, it), f"{kind}/{vk}/twin-keeps-{keep}"
        cell(f"dup/variant/{_attr}/{_sp}", "dup", "variant", k=3)(_b)


def field_dup(rng, item, attr):
    """returns (field type, [value a, value b], noise families to exclude)"""
    E = item.E
    if attr == "rename":
        return rng.pick(TYPES)[0], [f'rename = "{lit(rng)}A"', f'rename = "{lit(rng)}B"'], ("rename",)
    if attr == "default":
        return rng.pick(TYPES)[0], ["default", "default"], ("default",)
    if attr == "default_expr":
        t = rng.pick(TYPES)
        v = [f"default = {t[1]}", f"default = {t[2]}"]
        if rng.chance(1, 2):
            v.reverse()
        return t[0], v, ("default",)
    if attr == "default_mixed":
        t = rng.pick(TYPES)
        v = ["default", f"default = {t[rng.rng(1, 2)]}"]
        if rng.chance(1, 2):
            v.reverse()
        return t[0], v, ("default",)
    if attr == "missing_field_error":
        v = [f"missing_field_error = h::missing_a::<{E}>", f"missing_field_error = h::missing_b::<{E}>"]
        if rng.chance(1, 2):
            v.reverse()
        return rng.pick(TYPES)[0], v, ("missing_field_error", "default")
    if attr == "error":
        v = ["error = h::EB", "error = h::EC"]
        if rng.chance(1, 2):
            v.reverse()
        return rng.pick(TYPES)[0], v, ("error",)
    if attr == "map":
        ty = rng.pick(sorted(MAPS))
        v = list(MAPS[ty])
        if rng.chance(1, 2):
            v.reverse()
        return ty, ["map = " + v[0], "map = " + v[1]], ("map",)
    if attr == "from":
        v = list(FROMS)
        rng.shuffle(v)
        return "h::W", v[:2], ()
    if attr == "try_from":
        v = list(TRY_FROMS)
        rng.shuffle(v)
        return "h::W", v[:2], ()
    raise KeyError(attr)


for _attr in ["rename", "default", "default_expr", "default_mixed", "missing_field_error", "error", "map", "from",
              "try_from"]:
    for _sp in ["one", "two"]:
        for _host in ["struct", "variant"]:
            def _b(rng, j, _attr=_attr, _sp=_sp, _host=_host):
                it = base_for_field(rng, _host, mode="own" if _attr == "error" else None)
                ty, vals, excl = field_dup(rng, it, _attr)
                keep = j % 2
                add_field(rng, it, _host, ty, dup_atoms(vals[0], vals[1], keep), _sp, exclude=excl)
                return finish_container(rng, it), f"twin-keeps-{keep}"
            cell(f"dup/field/{_attr}/{_sp}/{_host}", "dup", "field", k=2)(_b)


# ------------------------------------------------------------------------------------------------
# conflicts

C_FROM = ["from(String) = cfrom_a", "from(u64) = cfrom_b", "from(&String) = cfrom_r"]
C_TRY = ["try_from(String) = ctry_a -> h::ConvErrA", "try_from(&u64) = ctry_b -> h::ConvErrB"]

for _order in ["from-first", "try_from-first"]:
    for _sp in ["one", "two"]:
        for _kind in ["struct", "enum"]:
            def _b(rng, j, _order=_order, _sp=_sp, _kind=_kind):
                kind = "struct" if _kind == "struct" else "unit"
                it = gen_base(rng, kind, exclude=("rename_all", "deny_unknown_fields", "tag"))
                keep = j % 2      # 0: twin keeps `from`, 1: twin keeps `try_from`
                f, t = rng.pick(C_FROM), rng.pick(C_TRY)
                fa, ta = Atom(f, f if keep == 0 else None), Atom(t, t if keep == 1 else None)
                poison = [fa, ta] if _order == "from-first" else [ta, fa]
                return finish_container(rng, it, poison, _sp), f"twin-keeps-{'from' if keep == 0 else 'try_from'}"
            cell(f"conflict/container/from+try_from/{_order}/{_sp}/{_kind}", "conflict", "container", k=2)(_b)
        for _host in ["struct", "variant"]:
            def _b(rng, j, _order=_order, _sp=_sp, _host=_host):
                it = base_for_field(rng, _host)
                keep = j % 2
                f, t = rng.pick(FROMS), rng.pick(TRY_FROMS)
                fa, ta = Atom(f, f if keep == 0 else None), Atom(t, t if keep == 1 else None)
                poison = [fa, ta] if _order == "from-first" else [ta, fa]
                add_field(rng, it, _host, "h::W", poison, _sp)
                return finish_container(rng, it), f"twin-keeps-{'from' if keep == 0 else 'try_from'}"
            cell(f"conflict/field/from+try_from/{_order}/{_sp}/{_host}", "conflict", "field", k=2)(_b)


@cell("conflict/container/tag-on-struct", "conflict", "container", k=4)
def _(rng, j):
    it = gen_base(rng, "struct")
    if j % 4 >= 2:
        it.noise = [a for a in it.noise if a.p.startswith("error")]
    sp = single_spelling(j)
    tag = Atom('tag = "%s"' % rng.pick(["type", "kind", "t"]), None)
    return finish_container(rng, it, [tag], sp), f"{sp}/{'bare' if j % 4 >= 2 else 'with-other-attrs'}"


def tf_conflict(partner, order, sp):
    def _b(rng, j):
        # the only partner present is the poisoned one (exactly one cause); a container try_from makes the
        # derive ignore the shape, so both twin halves (drop try_from / drop the partner) are valid items
        if partner == "tag":
            kind = "tagged"
        elif partner == "rename_all":
            kind = ["struct", "unit"][(j // 2) % 2]
        else:
            kind = "struct"
        it = gen_base(rng, kind, exclude=("rename_all", "deny_unknown_fields", "tag"))
        keep_tf = (j % 2 == 0)
        tf = rng.pick(C_TRY)
        if partner == "rename_all":
            px = "rename_all = " + rng.pick(["camelCase", "lowercase"])
        elif partner == "tag":
            px = 'tag = "%s"' % rng.pick(["type", "kind"])
        else:
            px = "deny_unknown_fields" if (j // 2) % 2 == 0 else f"deny_unknown_fields = h::unknown_a::<{it.E}>"
        ta = Atom(tf, tf if keep_tf else None)
        xa = Atom(px, None if keep_tf else px)
        if order == "rot":
            first = (j // 2) % 2 == 0
        else:
            first = order == "tf-first"
        poison = [ta, xa] if first else [xa, ta]
        sub = f"{kind}/twin-keeps-{'try_from' if keep_tf else partner}"
        if order == "rot":
            sub += "/tf-first" if first else "/tf-last"
        return finish_container(rng, it, poison, sp), sub
    return _b


for _partner in ["rename_all", "deny_unknown_fields"]:
    for _order in ["tf-first", "tf-last"]:
        for _sp in ["one", "two"]:
            cell(f"conflict/container/try_from+{_partner}/{_order}/{_sp}", "conflict", "container", k=4)(
                tf_conflict(_partner, _order, _sp))
for _sp in ["one", "two"]:
    cell(f"conflict/container/try_from+tag/{_sp}", "conflict", "container", k=4)(tf_conflict("tag", "rot", _sp))


# ------------------------------------------------------------------------------------------------
# invalid rename_all value

BAD_CASES = ["snake_case", "PascalCase", "UPPERCASE", "camelcase", "CamelCase", "kebab", "lower", "SCREAMING_SNAKE_CASE"]

for _kind in ["struct", "enum"]:
    def _b(rng, j, _kind=_kind):
        kind = "struct" if _kind == "struct" else ["tagged", "unit"][j % 2]
        it = gen_base(rng, kind, exclude=("rename_all",))
        bad = BAD_CASES[(j // 2) % len(BAD_CASES)]
        good = rng.pick(["camelCase", "lowercase"])
        return finish_container(rng, it, [Atom(f"rename_all = {bad}", f"rename_all = {good}")], single_spelling(j)), \
            f"{kind}/{bad}"
    cell(f"value/container/rename_all/{_kind}", "value", "container", k=2)(_b)


@cell("value/variant/rename_all", "value", "variant", k=3)
def _(rng, j):
    kind = ["tagged", "unit", "tagged"][j % 3]
    it = gen_base(rng, kind)
    v = rng.pick([x for x in it.variants if x.fields is not None] if j % 3 == 2 else it.variants)
    noise = [a for ln in v.lines for a in (ln.atoms or []) if not a.p.startswith("rename_all")]
    bad = BAD_CASES[(j // 3) % len(BAD_CASES)]
    good = rng.pick(["camelCase", "lowercase"])
    v.lines = layout(rng, noise, [Atom(f"rename_all = {bad}", f"rename_all = {good}")], single_spelling(j))
    return finish_container(rng, it), f"{kind}/{bad}"


# ------------------------------------------------------------------------------------------------
# malformed syntax.  Every entry: name -> (bad text, good text or None, requirements)

def syn_container(name, bad, good, kinds=("struct", "tagged", "unit"), excl=(), raw=False):
    def _b(rng, j):
        kind = kinds[j % len(kinds)]
        it = gen_base(rng, kind, exclude=tuple(excl))
        E = it.E
        b = bad.replace("{E}", E)
        g = good.replace("{E}", E) if good is not None else None
        if raw:
            if "{N}" in b:
                # line-level malformation around two valid atoms
                pool = ["rename_all = camelCase", "rename_all = lowercase"]
                n1 = rng.pick(pool)
                n2 = rng.pick(["validate = check_a -> h::ValErrA", "validate = check_b -> h::ValErrB"])
                it.noise = [a for a in it.noise if not (a.p.startswith("rename_all") or a.p.startswith("validate"))]
                b = b.replace("{N}", n1).replace("{M}", n2)
                g = g.replace("{N}", n1).replace("{M}", n2)
            return finish_container(rng, it, (), "raw", Line(None, b, g)), kind
        sp = single_spelling(j // len(kinds))
        return finish_container(rng, it, [Atom(b, g)], sp), f"{kind}/{sp}"
    cell(f"syntax/container/{name}", "syntax", "container", k=max(2, len(kinds)))(_b)


NO_TF = ("rename_all", "deny_unknown_fields", "tag")
syn_container("rename_all-missing-eq", "rename_all camelCase", "rename_all = camelCase", excl=("rename_all",))
syn_container("rename_all-missing-value", "rename_all =", "rename_all = lowercase", excl=("rename_all",))
syn_container("rename_all-string-literal", 'rename_all = "camelCase"', "rename_all = camelCase", excl=("rename_all",))
syn_container("rename_all-trailing-tokens", "rename_all = camelCase lowercase", "rename_all = camelCase",
              excl=("rename_all",))
syn_container("tag-missing-eq", 'tag "kind"', 'tag = "kind"', kinds=("tagged",), excl=("tag",))
syn_container("tag-non-literal", "tag = kind", 'tag = "kind"', kinds=("tagged",), excl=("tag",))
syn_container("tag-missing-value", "tag =", 'tag = "type"', kinds=("tagged",), excl=("tag",))
syn_container("tag-trailing-tokens", 'tag = "kind" "type"', 'tag = "kind"', kinds=("tagged",), excl=("tag",))
syn_container("deny_unknown_fields-missing-eq", "deny_unknown_fields h::unknown_a::<{E}>",
              "deny_unknown_fields = h::unknown_a::<{E}>", kinds=("struct", "tagged"), excl=("deny_unknown_fields",))
syn_container("deny_unknown_fields-missing-value", "deny_unknown_fields =", "deny_unknown_fields",
              kinds=("struct", "tagged"), excl=("deny_unknown_fields",))
syn_container("validate-missing-arrow", "validate = check_a", "validate = check_a -> h::ValErrA", excl=("validate",))
syn_container("validate-missing-eq", "validate check_a -> h::ValErrA", "validate = check_a -> h::ValErrA",
              excl=("validate",))
syn_container("validate-missing-error-type", "validate = check_b ->", "validate = check_b -> h::ValErrB",
              excl=("validate",))
syn_container("from-no-parens", "from = cfrom_a", "from(String) = cfrom_a")
syn_container("from-missing-eq", "from(String) cfrom_a", "from(String) = cfrom_a")
syn_container("from-missing-value", "from(u64)", "from(u64) = cfrom_b")
syn_container("from-empty-parens", "from() = cfrom_b", "from(u64) = cfrom_b")
syn_container("try_from-missing-arrow", "try_from(String) = ctry_a", "try_from(String) = ctry_a -> h::ConvErrA",
              kinds=("struct", "unit"), excl=NO_TF)
syn_container("try_from-no-parens", "try_from = ctry_a -> h::ConvErrA", "try_from(String) = ctry_a -> h::ConvErrA",
              kinds=("struct", "unit"), excl=NO_TF)
syn_container("try_from-missing-error-type", "try_from(&u64) = ctry_b ->", "try_from(&u64) = ctry_b -> h::ConvErrB",
              kinds=("struct", "unit"), excl=NO_TF)
syn_container("name-value-attr", '#[deserr = "rename_all"]', None, raw=True)
syn_container("bare-attr", "#[deserr]", None, raw=True)
syn_container("empty-attr", "#[deserr()]", None, raw=True)
syn_container("literal-instead-of-name", '#[deserr("rename_all")]', None, raw=True)
syn_container("leading-comma", "#[deserr(, {N})]", "#[deserr({N})]", raw=True)
syn_container("double-comma", "#[deserr({N},, {M})]", "#[deserr({N}, {M})]", raw=True)
syn_container("missing-comma", "#[deserr({N} {M})]", "#[deserr({N}, {M})]", raw=True)


def syn_container_error(name, bad, good):
    def _b(rng, j):
        kind = ["struct", "tagged", "unit"][j % 3]
        it = gen_base(rng, kind, mode="generic", exclude=("error",), no_e_noise=True)
        sp = single_spelling(j // 3)
        return finish_container(rng, it, [Atom(bad, good)], sp), f"{kind}/{sp}"
    cell(f"syntax/container/{name}", "syntax", "container", k=3)(_b)


syn_container_error("error-missing-eq", "error deserr::errors::JsonError", "error = deserr::errors::JsonError")
syn_container_error("error-missing-value", "error =", "error = deserr::errors::JsonError")


def syn_variant(name, bad, good, raw=False):
    def _b(rng, j):
        kind = ["tagged", "unit", "tagged"][j % 3]
        it = gen_base(rng, kind)
        v = rng.pick([x for x in it.variants if x.fields is not None] if j % 3 == 2 else it.variants)
        fam = bad.split()[0].strip("#[(")
        noise = [a for ln in v.lines for a in (ln.atoms or [])
                 if not (a.p.startswith("rename =") and fam == "rename") and not (a.p.startswith("rename_all") and fam == "rename_all")]
        vk = "unit-variant" if v.fields is None else "struct-variant"
        if raw:
            if "{N}" in bad:
                noise = []
            v.lines = layout(rng, noise, (), "raw", Line(None, bad.replace("{N}", 'rename = "Aa"').replace("{M}", "rename_all = camelCase"),
                                                         good.replace("{N}", 'rename = "Aa"').replace("{M}", "rename_all = camelCase") if good else None))
            return finish_container(rng, it), f"{kind}/{vk}"
        sp = single_spelling(j // 3)
        v.lines = layout(rng, noise, [Atom(bad, good)], sp)
        return finish_container(rng, it), f"{kind}/{vk}/{sp}"
    cell(f"syntax/variant/{name}", "syntax", "variant", k=3)(_b)


syn_variant("rename-missing-eq", 'rename "Xy"', 'rename = "Xy"')
syn_variant("rename-missing-value", "rename =", 'rename = "Xy"')
syn_variant("rename-non-literal", "rename = Xy", 'rename = "Xy"')
syn_variant("rename-trailing-tokens", 'rename = "Xy" "Zw"', 'rename = "Xy"')
syn_variant("rename_all-missing-eq", "rename_all lowercase", "rename_all = lowercase")
syn_variant("rename_all-string-literal", 'rename_all = "lowercase"', "rename_all = lowercase")
syn_variant("name-value-attr", '#[deserr = "rename"]', None, raw=True)
syn_variant("bare-attr", "#[deserr]", None, raw=True)
syn_variant("empty-attr", "#[deserr()]", None, raw=True)
syn_variant("missing-comma", "#[deserr({N} {M})]", "#[deserr({N}, {M})]", raw=True)


def syn_field(name, bad, good, ty=None, excl=(), raw=False, mode=None):
    def _b(rng, j):
        host = ["struct", "variant"][j % 2]
        it = base_for_field(rng, host, mode=mode)
        E = it.E
        t = ty or rng.pick(TYPES)[0]
        if raw:
            b = bad.replace("{N}", 'rename = "aa"').replace("{M}", "default")
            g = good.replace("{N}", 'rename = "aa"').replace("{M}", "default") if good else None
            add_field(rng, it, host, t, (), "raw", exclude=excl, raw=Line(None, b, g), with_noise="{N}" not in bad)
            return finish_container(rng, it), host
        sp = single_spelling(j // 2)
        b = bad.replace("{E}", E)
        g = good.replace("{E}", E) if good else None
        add_field(rng, it, host, t, [Atom(b, g)], sp, exclude=excl)
        return finish_container(rng, it), f"{host}/{sp}"
    cell(f"syntax/field/{name}", "syntax", "field", k=2)(_b)


syn_field("rename-missing-eq", 'rename "aa"', 'rename = "aa"', excl=("rename",))
syn_field("rename-missing-value", "rename =", 'rename = "aa"', excl=("rename",))
syn_field("rename-non-literal", "rename = aa", 'rename = "aa"', excl=("rename",))
syn_field("rename-int-literal", "rename = 5", 'rename = "5"', excl=("rename",))
syn_field("rename-trailing-tokens", 'rename = "aa" "bb"', 'rename = "aa"', excl=("rename",))
syn_field("default-missing-value", "default =", "default", excl=("default", "missing_field_error"))
syn_field("default-missing-eq", "default 7", "default = 7", ty="u32", excl=("default", "missing_field_error"))
syn_field("missing_field_error-missing-eq", "missing_field_error h::missing_a::<{E}>",
          "missing_field_error = h::missing_a::<{E}>", excl=("default", "missing_field_error"))
syn_field("missing_field_error-missing-value", "missing_field_error =", "missing_field_error = h::missing_b::<{E}>",
          excl=("default", "missing_field_error"))
syn_field("error-missing-eq", "error h::EB", "error = h::EB", excl=("error",), mode="own")
syn_field("error-missing-value", "error =", "error = h::EC", excl=("error",), mode="own")
syn_field("map-missing-eq", "map h::inc_u32", "map = h::inc_u32", ty="u32", excl=("map",))
syn_field("map-missing-value", "map =", "map = h::upper", ty="String", excl=("map",))
syn_field("map-call-parens", "map = h::not()", "map = h::not", ty="bool", excl=("map",))
syn_field("from-no-parens", "from = h::w_from_u64", "from(u64) = h::w_from_u64", ty="h::W")
syn_field("from-missing-eq", "from(u64) h::w_from_u64", "from(u64) = h::w_from_u64", ty="h::W")
syn_field("from-missing-value", "from(String)", "from(String) = h::w_from_string", ty="h::W")
syn_field("from-empty-parens", "from() = h::w_from_u64", "from(u64) = h::w_from_u64", ty="h::W")
syn_field("try_from-missing-arrow", "try_from(u64) = h::w_try_u64", "try_from(u64) = h::w_try_u64 -> h::Odd", ty="h::W")
syn_field("try_from-no-parens", "try_from = h::w_try_u64 -> h::Odd", "try_from(u64) = h::w_try_u64 -> h::Odd", ty="h::W")
syn_field("try_from-missing-error-type", "try_from(&String) = h::w_try_str ->",
          "try_from(&String) = h::w_try_str -> h::NotAscii", ty="h::W")
syn_field("skip-with-value", "skip = true", "skip", excl=("default", "missing_field_error", "map", "rename", "error"))
syn_field("needs_predicate-with-value", "needs_predicate = true", "needs_predicate", excl=("needs_predicate",))
syn_field("name-value-attr", '#[deserr = "default"]', None, raw=True)
syn_field("bare-attr", "#[deserr]", None, raw=True)
syn_field("empty-attr", "#[deserr()]", None, raw=True)
syn_field("missing-comma", "#[deserr({N} {M})]", "#[deserr({N}, {M})]", raw=True)


def plan(tier):
    """[(cell, instance index)] : every cell in both tiers; quick max(2,k) instances per cell, thorough ~6000"""
    per = None
    if tier == "thorough":
        per = -(-6000 // len(CELLS))
    out = []
    for c in CELLS:
        n = max(2, c["k"]) if per is None else max(per, c["k"])
        for j in range(n):
            out.append((c, j))
    return out
