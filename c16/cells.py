"""C16 matrix: one cell per signature `cause/level/attribute/spelling/item-kind`.

Every cell is instantiated once per legal CONTEXT attribute of the poison's own level (another valid attribute that
accompanies the poison: validation code is sometimes only reached, or skipped, depending on unrelated attributes),
with a rotated PLACEMENT of the context (before / after the poison, same #[deserr(..)] or a separate one) and a
rotated FOREIGN inert attribute (#[rustfmt::skip], #[allow], doc, cfg_attr, #[serde]) before / between / after the
deserr attributes.  All rotations are deterministic functions of the instance index; the rng (VERIF_SEED) only
varies the base item around the poison.
"""
from gen import (Atom, N, Line, layout, place, poison_lines, add_foreign, sprinkle, gen_base, gen_field, field_noise,
                 variant_noise, Field, Variant, snake, pascal, lit, type_by_name, TYPES, MAPS, FROMS, TRY_FROMS)

CELLS = []

CONT_CTX = ["none", "error", "rename_all", "deny_unknown_fields", "validate", "from", "try_from", "where_predicate",
            "generic_param", "mix"]
FIELD_CTX = ["none", "rename", "default", "skip", "map", "from", "try_from", "error", "missing_field_error",
             "needs_predicate", "mix"]
VAR_CTX = ["none", "rename", "rename_all", "mix"]
PLACEMENTS = ["before-same", "after-sep", "after-same", "before-sep"]
FOREIGN_ROT = [("tool", "before"), ("allow", "after"), ("tool", "between"), ("none", "none"), ("doc", "before"),
               ("serde", "between"), ("cfg_attr", "before"), ("doccomment", "after"), ("tool", "after"),
               ("serde", "before"), ("doccomment", "before"), ("allow", "between"), ("cfg_attr", "after")]
NO_TF = ("rename_all", "deny_unknown_fields", "tag")
C_FROM = ["from(String) = cfrom_a", "from(u64) = cfrom_b", "from(&String) = cfrom_r"]
C_TRY = ["try_from(String) = ctry_a -> h::ConvErrA", "try_from(&u64) = ctry_b -> h::ConvErrB"]


class Cell:
    def __init__(self, sig, family, level, fams, poison, kinds=None, hosts=None, ty=None, mode=None, setup=None,
                 conv_ok=True, base_kw=None, no_e=False):
        self.sig, self.family, self.level = sig, family, level
        self.fams = set(fams)          # attribute families the poison (or its twin) involves
        self.poison = poison           # container/variant: f(rng, item, r) ; field: f(rng, item, r, ty)
        self.kinds = kinds             # base kinds the cell may use
        self.hosts = hosts             # field level: 'struct' / 'variant'
        self.ty = ty                   # field level: None (free) | type name | 'maps'
        self.mode = mode               # fixed error mode, if the cell needs one
        self.setup = setup
        self.conv_ok = conv_ok         # container from / try_from may accompany the poison (never for shapes)
        self.base_kw = base_kw or {}
        self.no_e = no_e
        self.ctxs = self.legal_contexts()
        CELLS.append(self)

    # -- which context attributes keep "exactly one cause" and a compiling twin ------------------
    def cont_legal(self, ctx, kind):
        f = self.fams
        if ctx in ("none", "mix"):
            return True
        if ctx in f:
            return False
        if ctx == "error":
            return self.mode is None
        if ctx in ("from", "try_from"):
            if not self.conv_ok or f & {"from", "try_from"}:
                return False
            if ctx == "try_from" and (kind == "tagged" or f & set(NO_TF)):
                return False
            return True
        if ctx in ("rename_all", "deny_unknown_fields"):
            if "try_from" in f:
                return False
            return not (ctx == "deny_unknown_fields" and kind == "unit")
        return True

    def field_legal(self, ctx):
        f = self.fams
        if ctx in ("none", "mix"):
            return True
        if ctx in f:
            return False
        if ctx == "map":
            return self.ty is None or self.ty == "maps" or self.ty in MAPS
        if ctx in ("from", "try_from"):
            return not (f & {"from", "try_from"}) and self.ty in (None, "h::W")
        if ctx == "error":
            return self.mode in (None, "own")
        return True

    def legal_contexts(self):
        if self.level == "container":
            return [c for c in CONT_CTX if any(self.cont_legal(c, k) for k in self.kinds)]
        if self.level == "variant":
            return [c for c in VAR_CTX if c in ("none", "mix") or c not in self.fams]
        return [c for c in FIELD_CTX if self.field_legal(c)]

    # -- instance -------------------------------------------------------------------------------
    def build(self, rng, j, ci):
        n = len(self.ctxs)
        c, p = j % n, j // n
        ctx = self.ctxs[c]
        cpl = PLACEMENTS[(c + p + ci) % len(PLACEMENTS)]
        fk, fp = FOREIGN_ROT[0] if j == 0 else FOREIGN_ROT[(3 * c + 5 * p + ci) % len(FOREIGN_ROT)]
        r = c + p
        if self.level == "container":
            it, sub = self.build_container(rng, r, ctx, cpl, fk, fp)
        elif self.level == "variant":
            it, sub = self.build_variant(rng, r, ctx, cpl, fk, fp)
        else:
            it, sub = self.build_field(rng, r, ctx, cpl, fk, fp)
        if self.level != "container":
            it.lines = layout(rng, it.noise)
            sprinkle(rng, it.lines)
        meta = {"ctx": ctx, "cpl": cpl if ctx not in ("none", "mix") else "-", "fkind": fk, "fpos": fp}
        return it, f"{sub}/ctx={ctx}/{meta['cpl']}/foreign={fk}-{fp}", meta

    def build_container(self, rng, r, ctx, cpl, fk, fp):
        kinds = [k for k in self.kinds if self.cont_legal(ctx, k)]
        kind = kinds[r % len(kinds)]
        if ctx == "mix":
            excl = set(self.fams) | (set(NO_TF) if "try_from" in self.fams else set())
            it = gen_base(rng, kind, mode=self.mode, exclude=tuple(excl), no_e_noise=self.no_e, **self.base_kw)
        else:
            mode = self.mode or (rng.pick(["json", "own"]) if ctx == "error" else "generic")
            it = gen_base(rng, kind, mode=mode, exclude=tuple(self.fams), no_e_noise=self.no_e, plain=True,
                          **self.base_kw)
        if self.setup:
            self.setup(rng, it, r)
        atoms, sp, raw = self.poison(rng, it, r // len(kinds))
        if ctx == "mix":
            spo = {"single": "alone" if r % 2 == 0 else "one"}.get(sp, sp)
            lines = layout(rng, it.noise, atoms, spo, raw) if (atoms or raw) else layout(rng, it.noise)
            pl = poison_lines(lines, atoms, raw)
        else:
            extra = list(it.noise)
            ctx_atoms = []
            if ctx == "error":
                ctx_atoms = [a for a in extra if a.p.startswith("error =")]
                extra = [a for a in extra if not a.p.startswith("error =")]
            elif ctx != "none":
                ctx_atoms = [N(container_ctx_text(rng, it, ctx, self.no_e))]
            lines, pl = place(rng, atoms, sp, raw, ctx_atoms, cpl, extra)
        add_foreign(lines, pl, fk, fp)
        it.lines = lines
        return it, kind

    def build_variant(self, rng, r, ctx, cpl, fk, fp):
        kind = self.kinds[r % len(self.kinds)]
        it = gen_base(rng, kind)
        if self.setup:
            v = self.setup(rng, it, r)
        else:
            want_struct = (r // len(self.kinds)) % 2 == 1
            cands = [x for x in it.variants if x.fields is not None] if want_struct else []
            v = rng.pick(cands or it.variants)
        atoms, sp, raw = self.poison(rng, it, r // 2)
        if ctx == "mix":
            spo = {"single": "alone" if r % 2 == 0 else "one"}.get(sp, sp)
            vn = variant_noise(rng, exclude=tuple(self.fams))
            v.lines = layout(rng, vn, atoms, spo, raw) if (atoms or raw) else layout(rng, vn)
            pl = poison_lines(v.lines, atoms, raw)
        else:
            ctx_atoms = []
            if ctx == "rename":
                ctx_atoms = [N(f'rename = "{lit(rng)}"')]
            elif ctx == "rename_all":
                ctx_atoms = [N("rename_all = " + rng.pick(["camelCase", "lowercase"]))]
            v.lines, pl = place(rng, atoms, sp, raw, ctx_atoms, cpl, [])
        add_foreign(v.lines, pl, fk, fp)
        vk = "unit-variant" if v.fields is None else ("unnamed-variant" if v.shape_p else "struct-variant")
        return it, f"{kind}/{vk}"

    def build_field(self, rng, r, ctx, cpl, fk, fp):
        host = self.hosts[r % len(self.hosts)]
        mode = self.mode or ("own" if ctx == "error" else None)
        it = gen_base(rng, "struct" if host == "struct" else "tagged", mode=mode)
        ty = self.ty
        if ty == "maps" or (ty is None and ctx == "map"):
            ty = rng.pick(sorted(MAPS))
        elif ty is None and ctx in ("from", "try_from"):
            ty = "h::W"
        elif ty is None:
            ty = rng.pick(TYPES)[0]
        atoms, sp, raw = self.poison(rng, it, r // len(self.hosts), ty)
        if host == "struct":
            fields = it.fields
        else:
            fields = rng.pick([v for v in it.variants if v.fields is not None]).fields
        name = snake(rng, {f.name for f in fields})
        if ctx == "mix":
            spo = {"single": "alone" if r % 2 == 0 else "one"}.get(sp, sp)
            if ty == "h::W":
                noise = []
                if "rename" not in self.fams and rng.chance(1, 2):
                    noise.append(N(f'rename = "{lit(rng)}"'))
                if "default" not in self.fams and rng.chance(1, 2):
                    noise.append(N("default"))
                if "needs_predicate" not in self.fams and rng.chance(1, 3):
                    noise.append(N("needs_predicate"))
            else:
                noise = field_noise(rng, it, ty, exclude=tuple(self.fams) + ("skip",))
            lines = layout(rng, noise, atoms, spo, raw)
            pl = poison_lines(lines, atoms, raw)
        else:
            ctx_atoms = [] if ctx == "none" else [N(field_ctx_text(rng, it, ctx, ty))]
            lines, pl = place(rng, atoms, sp, raw, ctx_atoms, cpl, [])
        add_foreign(lines, pl, fk, fp)
        fields.insert(rng.below(len(fields) + 1), Field(name, ty, lines))
        return it, host


def container_ctx_text(rng, it, ctx, no_e=False):
    if ctx == "rename_all":
        return "rename_all = " + rng.pick(["camelCase", "lowercase"])
    if no_e and ctx == "deny_unknown_fields":
        return "deny_unknown_fields"
    if no_e and ctx == "where_predicate":
        return "where_predicate = h::W: Clone"
    if ctx == "deny_unknown_fields":
        return rng.pick(["deny_unknown_fields", f"deny_unknown_fields = h::unknown_{rng.pick('ab')}::<{it.E}>"])
    if ctx == "validate":
        return rng.pick(["validate = check_a -> h::ValErrA", "validate = check_b -> h::ValErrB"])
    if ctx == "from":
        return rng.pick(C_FROM)
    if ctx == "try_from":
        return rng.pick(C_TRY)
    if ctx == "where_predicate":
        if it.mode == "generic" and rng.chance(1, 2):
            return "where_predicate = __Deserr_E: deserr::MergeWithError<h::Odd>"
        return rng.pick(["where_predicate = h::W: Clone", "where_predicate = u8: deserr::Deserr<%s>" % it.E])
    if ctx == "generic_param":
        return "generic_param = 'ctx"
    raise KeyError(ctx)


def field_ctx_text(rng, it, ctx, ty):
    if ctx == "rename":
        return f'rename = "{lit(rng)}"'
    if ctx == "default":
        return rng.pick(["default", "default = " + type_by_name(ty)[rng.rng(1, 2)]])
    if ctx == "skip":
        return "skip"
    if ctx == "map":
        return "map = " + rng.pick(MAPS[ty])
    if ctx == "from":
        return rng.pick(FROMS)
    if ctx == "try_from":
        return rng.pick(TRY_FROMS)
    if ctx == "error":
        return "error = h::E" + rng.pick("BC")
    if ctx == "missing_field_error":
        return f"missing_field_error = h::missing_{rng.pick('ab')}::<{it.E}>"
    if ctx == "needs_predicate":
        return "needs_predicate"
    raise KeyError(ctx)


def dup_atoms(a, b, keep):
    """two occurrences with different values; the twin keeps occurrence `keep`"""
    return [Atom(a, a if keep == 0 else None), Atom(b, b if keep == 1 else None)]


def fam_of(attr):
    return attr.split("_fn")[0].split("_mixed")[0].split("_expr")[0]


ALL_KINDS = ("struct", "tagged", "unit")

# ------------------------------------------------------------------------------------------------
# shapes

def _tuple(rng, it, r):
    it.shape_p = "tuple"


def _unit(rng, it, r):
    it.shape_p = "unit"
    if r % 2:
        it.shape_t = "empty"


def _union(rng, it, r):
    it.keyword_p = "union"


def _nothing(rng, it, r, ty=None):
    return [], "single", None


Cell("shape/tuple-struct", "shape", "container", (), _nothing, kinds=("struct",), setup=_tuple, conv_ok=False)
Cell("shape/unit-struct", "shape", "container", (), _nothing, kinds=("struct",), setup=_unit, conv_ok=False)
Cell("shape/union", "shape", "container", (), _nothing, kinds=("struct",), setup=_union, conv_ok=False,
     base_kw={"copy_only": True})
Cell("shape/enum-without-tag", "shape", "container", ("tag",),
     lambda rng, it, r: ([Atom(None, 'tag = "%s"' % rng.pick(["type", "kind"]))], "single", None),
     kinds=("tagged",), conv_ok=False)


def _no_readable_fields(rng, it, r):
    """every brace variant keeps its braces but has nothing to read: no field at all, or only skipped fields
    (a derive that decides "unit-like" by counting readable fields must still refuse the enum without a tag)"""
    braces = [v for v in it.variants if v.fields is not None]
    if not braces:
        it.variants[0].fields = []
        braces = [it.variants[0]]
    for i, v in enumerate(braces):
        form = (r + i) % 3
        keep = [f for f in v.fields if f.ty != "h::W"]
        if form == 0 or not keep:
            v.fields = []
        else:
            v.fields = keep[:1 + (r % 2)]
            for f in v.fields:
                f.lines = [Line([N("skip")])] if form == 1 else [Line([N("skip"), N("default = " + type_by_name(f.ty)[1])])]


Cell("shape/enum-without-tag/no-readable-fields", "shape", "container", ("tag",),
     lambda rng, it, r: ([Atom(None, 'tag = "%s"' % rng.pick(["type", "kind"]))], "single", None),
     kinds=("tagged",), conv_ok=False, setup=_no_readable_fields)


def _unnamed_variant(rng, it, r):
    used = {v.name for v in it.variants}
    nf = [1, rng.rng(2, 3), 0][r % 3]
    fu = set()
    v = Variant(pascal(rng, used), [gen_field(rng, it, fu, quiet=(r % 2 == 0)) for _ in range(nf)])
    v.fields = [f for f in v.fields if f.ty != "h::W"] if nf else []
    for f in v.fields:
        sprinkle(rng, f.lines)
    v.shape_p = "tuple"
    it.variants.insert(rng.below(len(it.variants) + 1), v)
    return v


Cell("shape/unnamed-variant", "shape", "variant", (), _nothing, kinds=("tagged",), setup=_unnamed_variant)

# ------------------------------------------------------------------------------------------------
# unknown attribute

def unknown_text(rng, name, r):
    form = r % 3
    if form == 0:
        return name
    if form == 1:
        return f'{name} = "{lit(rng)}"'
    return f"{name} = {lit(rng).strip('0123456789_') or 'x'}"


for _name in ["bogus", "rename", "default", "skip"]:
    for _kind in ["struct", "enum"]:
        def _p(rng, it, r, _name=_name):
            txt = unknown_text(rng, _name, r) if _name in ("bogus", "rename") else _name
            return [Atom(txt, None)], "single", None
        Cell(f"unknown/container/{_name}/{_kind}", "unknown", "container", (), _p,
             kinds=("struct",) if _kind == "struct" else ("tagged", "unit"))

for _name in ["bogus", "tag", "default", "error"]:
    def _p(rng, it, r, _name=_name):
        txt = {"bogus": unknown_text(rng, "bogus", r), "tag": 'tag = "kind"', "default": "default",
               "error": "error = deserr::errors::JsonError"}[_name]
        return [Atom(txt, None)], "single", None
    Cell(f"unknown/variant/{_name}", "unknown", "variant", (), _p, kinds=("tagged", "unit"))

for _name in ["bogus", "tag", "rename_all", "deny_unknown_fields", "validate"]:
    for _host in ["struct", "variant"]:
        def _p(rng, it, r, ty, _name=_name):
            txt = {"bogus": unknown_text(rng, "bogus", r), "tag": 'tag = "kind"', "rename_all": "rename_all = camelCase",
                   "deny_unknown_fields": "deny_unknown_fields", "validate": "validate = check_a -> h::ValErrA"}[_name]
            return [Atom(txt, None)], "single", None
        Cell(f"unknown/field/{_name}/{_host}", "unknown", "field", (), _p, hosts=(_host,))


# ------------------------------------------------------------------------------------------------
# single-valued attribute given twice

def container_dup_values(rng, item, attr):
    E = item.E
    if attr == "rename_all":
        v = ["rename_all = camelCase", "rename_all = lowercase"]
    elif attr == "tag":
        v = ['tag = "kind"', 'tag = "type"']
    elif attr == "error":
        v = rng.pick([["error = deserr::errors::JsonError", "error = deserr::errors::QueryParamError"],
                      ["error = deserr::errors::JsonError", "error = h::EA"],
                      ["error = h::EA", "error = deserr::errors::QueryParamError"]])
    elif attr == "deny_unknown_fields":
        return ["deny_unknown_fields", "deny_unknown_fields"]
    elif attr == "deny_unknown_fields_fn":
        v = [f"deny_unknown_fields = h::unknown_a::<{E}>", f"deny_unknown_fields = h::unknown_b::<{E}>"]
    elif attr == "deny_unknown_fields_mixed":
        v = ["deny_unknown_fields", f"deny_unknown_fields = h::unknown_{rng.pick('ab')}::<{E}>"]
    elif attr == "from":
        v = rng.pick([["from(String) = cfrom_a", "from(u64) = cfrom_b"], ["from(&String) = cfrom_r", "from(u64) = cfrom_b"],
                      ["from(String) = cfrom_a", "from(&String) = cfrom_r"]])
    elif attr == "try_from":
        v = ["try_from(String) = ctry_a -> h::ConvErrA", "try_from(&u64) = ctry_b -> h::ConvErrB"]
    elif attr == "validate":
        v = ["validate = check_a -> h::ValErrA", "validate = check_b -> h::ValErrB"]
    else:
        raise KeyError(attr)
    if rng.chance(1, 2):
        v.reverse()
    return v


for _attr in ["rename_all", "error", "deny_unknown_fields", "deny_unknown_fields_fn", "deny_unknown_fields_mixed",
              "from", "try_from", "validate", "tag"]:
    for _sp in ["one", "two"]:
        for _kind in (["enum"] if _attr == "tag" else ["struct", "enum"]):
            if _kind == "struct":
                _kinds = ("struct",)
            elif _attr in ("tag", "deny_unknown_fields", "deny_unknown_fields_fn", "deny_unknown_fields_mixed"):
                _kinds = ("tagged",)
            elif _attr == "try_from":
                _kinds = ("unit",)
            else:
                _kinds = ("tagged", "unit")

            def _p(rng, it, r, _attr=_attr, _sp=_sp):
                a, b = container_dup_values(rng, it, _attr)
                return dup_atoms(a, b, r % 2), _sp, None
            Cell(f"dup/container/{_attr}/{_sp}/{_kind}", "dup", "container", (fam_of(_attr),), _p, kinds=_kinds,
                 mode="generic" if _attr == "error" else None, no_e=(_attr == "error"))

for _attr in ["rename", "rename_all"]:
    for _sp in ["one", "two"]:
        def _p(rng, it, r, _attr=_attr, _sp=_sp):
            if _attr == "rename":
                a, b = f'rename = "{lit(rng)}A"', f'rename = "{lit(rng)}B"'
            else:
                a, b = rng.pick([("rename_all = camelCase", "rename_all = lowercase"),
                                 ("rename_all = lowercase", "rename_all = camelCase")])
            return dup_atoms(a, b, r % 2), _sp, None
        Cell(f"dup/variant/{_attr}/{_sp}", "dup", "variant", (_attr,), _p, kinds=("tagged", "unit"))


def field_dup_values(rng, item, attr, ty):
    E = item.E
    if attr == "rename":
        return [f'rename = "{lit(rng)}A"', f'rename = "{lit(rng)}B"']
    if attr == "default":
        return ["default", "default"]
    t = type_by_name(ty) if attr.startswith("default") else None
    if attr == "default_expr":
        v = [f"default = {t[1]}", f"default = {t[2]}"]
    elif attr == "default_mixed":
        v = ["default", f"default = {t[rng.rng(1, 2)]}"]
    elif attr == "missing_field_error":
        v = [f"missing_field_error = h::missing_a::<{E}>", f"missing_field_error = h::missing_b::<{E}>"]
    elif attr == "error":
        v = ["error = h::EB", "error = h::EC"]
    elif attr == "map":
        v = ["map = " + MAPS[ty][0], "map = " + MAPS[ty][1]]
    elif attr == "from":
        v = list(FROMS)
        rng.shuffle(v)
        return v[:2]
    elif attr == "try_from":
        v = list(TRY_FROMS)
        rng.shuffle(v)
        return v[:2]
    else:
        raise KeyError(attr)
    if rng.chance(1, 2):
        v.reverse()
    return v


for _attr in ["rename", "default", "default_expr", "default_mixed", "missing_field_error", "error", "map", "from",
              "try_from"]:
    for _sp in ["one", "two"]:
        for _host in ["struct", "variant"]:
            def _p(rng, it, r, ty, _attr=_attr, _sp=_sp):
                a, b = field_dup_values(rng, it, _attr, ty)
                return dup_atoms(a, b, r % 2), _sp, None
            Cell(f"dup/field/{_attr}/{_sp}/{_host}", "dup", "field", (fam_of(_attr),), _p, hosts=(_host,),
                 ty={"map": "maps", "from": "h::W", "try_from": "h::W"}.get(_attr),
                 mode="own" if _attr == "error" else None)


# ------------------------------------------------------------------------------------------------
# conflicts

for _order in ["from-first", "try_from-first"]:
    for _sp in ["one", "two"]:
        for _kind in ["struct", "enum"]:
            def _p(rng, it, r, _order=_order, _sp=_sp):
                keep = r % 2      # 0: twin keeps `from`, 1: twin keeps `try_from`
                f, t = rng.pick(C_FROM), rng.pick(C_TRY)
                fa, ta = Atom(f, f if keep == 0 else None), Atom(t, t if keep == 1 else None)
                return ([fa, ta] if _order == "from-first" else [ta, fa]), _sp, None
            Cell(f"conflict/container/from+try_from/{_order}/{_sp}/{_kind}", "conflict", "container",
                 ("from", "try_from"), _p, kinds=("struct",) if _kind == "struct" else ("unit",))
        for _host in ["struct", "variant"]:
            def _p(rng, it, r, ty, _order=_order, _sp=_sp):
                keep = r % 2
                f, t = rng.pick(FROMS), rng.pick(TRY_FROMS)
                fa, ta = Atom(f, f if keep == 0 else None), Atom(t, t if keep == 1 else None)
                return ([fa, ta] if _order == "from-first" else [ta, fa]), _sp, None
            Cell(f"conflict/field/from+try_from/{_order}/{_sp}/{_host}", "conflict", "field", ("from", "try_from"), _p,
                 hosts=(_host,), ty="h::W")

Cell("conflict/container/tag-on-struct", "conflict", "container", ("tag",),
     lambda rng, it, r: ([Atom('tag = "%s"' % rng.pick(["type", "kind", "t"]), None)], "single", None),
     kinds=("struct",))


def tf_conflict(partner, order, sp):
    def _p(rng, it, r):
        # a container try_from makes the derive ignore the shape: both twin halves are valid items
        keep_tf = (r % 2 == 0)
        tf = rng.pick(C_TRY)
        if partner == "rename_all":
            px = "rename_all = " + rng.pick(["camelCase", "lowercase"])
        elif partner == "tag":
            px = 'tag = "%s"' % rng.pick(["type", "kind"])
        else:
            px = "deny_unknown_fields" if (r // 2) % 2 == 0 else f"deny_unknown_fields = h::unknown_a::<{it.E}>"
        ta = Atom(tf, tf if keep_tf else None)
        xa = Atom(px, None if keep_tf else px)
        first = ((r // 2) % 2 == 0) if order == "rot" else (order == "tf-first")
        return ([ta, xa] if first else [xa, ta]), sp, None
    return _p


for _partner in ["rename_all", "deny_unknown_fields"]:
    for _order in ["tf-first", "tf-last"]:
        for _sp in ["one", "two"]:
            Cell(f"conflict/container/try_from+{_partner}/{_order}/{_sp}", "conflict", "container",
                 ("try_from",) + NO_TF, tf_conflict(_partner, _order, _sp),
                 kinds=("struct", "unit") if _partner == "rename_all" else ("struct",))
for _sp in ["one", "two"]:
    Cell(f"conflict/container/try_from+tag/{_sp}", "conflict", "container", ("try_from",) + NO_TF,
         tf_conflict("tag", "rot", _sp), kinds=("tagged",))


# ------------------------------------------------------------------------------------------------
# invalid rename_all value

BAD_CASES = ["snake_case", "PascalCase", "UPPERCASE", "camelcase", "CamelCase", "kebab", "lower", "SCREAMING_SNAKE_CASE"]


def _bad_case(rng, it, r, ty=None):
    bad = BAD_CASES[r % len(BAD_CASES)]
    return [Atom(f"rename_all = {bad}", "rename_all = " + rng.pick(["camelCase", "lowercase"]))], "single", None


Cell("value/container/rename_all/struct", "value", "container", ("rename_all",), _bad_case, kinds=("struct",))
Cell("value/container/rename_all/enum", "value", "container", ("rename_all",), _bad_case, kinds=("tagged", "unit"))
Cell("value/variant/rename_all", "value", "variant", ("rename_all",), _bad_case, kinds=("tagged", "unit"))


# ------------------------------------------------------------------------------------------------
# malformed syntax: (bad text, corrected text or None)

def syn_container(name, bad, good, fams, kinds=ALL_KINDS, raw=False, mode=None, no_e=False):
    def _p(rng, it, r):
        b = bad.replace("{E}", it.E)
        g = good.replace("{E}", it.E) if good is not None else None
        if raw:
            n1 = rng.pick(["rename_all = camelCase", "rename_all = lowercase"])
            n2 = rng.pick(["validate = check_a -> h::ValErrA", "validate = check_b -> h::ValErrB"])
            b = b.replace("{N}", n1).replace("{M}", n2)
            g = g.replace("{N}", n1).replace("{M}", n2) if g else None
            return [], "raw", Line(None, b, g)
        return [Atom(b, g)], "single", None
    Cell(f"syntax/container/{name}", "syntax", "container", fams, _p, kinds=kinds, mode=mode, no_e=no_e)


RA, TG, DN, VA, FR, TF = ("rename_all",), ("tag",), ("deny_unknown_fields",), ("validate",), ("from",), ("try_from",)
syn_container("rename_all-missing-eq", "rename_all camelCase", "rename_all = camelCase", RA)
syn_container("rename_all-missing-value", "rename_all =", "rename_all = lowercase", RA)
syn_container("rename_all-string-literal", 'rename_all = "camelCase"', "rename_all = camelCase", RA)
syn_container("rename_all-trailing-tokens", "rename_all = camelCase lowercase", "rename_all = camelCase", RA)
syn_container("tag-missing-eq", 'tag "kind"', 'tag = "kind"', TG, kinds=("tagged",))
syn_container("tag-non-literal", "tag = kind", 'tag = "kind"', TG, kinds=("tagged",))
syn_container("tag-missing-value", "tag =", 'tag = "type"', TG, kinds=("tagged",))
syn_container("tag-trailing-tokens", 'tag = "kind" "type"', 'tag = "kind"', TG, kinds=("tagged",))
syn_container("deny_unknown_fields-missing-eq", "deny_unknown_fields h::unknown_a::<{E}>",
              "deny_unknown_fields = h::unknown_a::<{E}>", DN, kinds=("struct", "tagged"))
syn_container("deny_unknown_fields-missing-value", "deny_unknown_fields =", "deny_unknown_fields", DN,
              kinds=("struct", "tagged"))
syn_container("validate-missing-arrow", "validate = check_a", "validate = check_a -> h::ValErrA", VA)
syn_container("validate-missing-eq", "validate check_a -> h::ValErrA", "validate = check_a -> h::ValErrA", VA)
syn_container("validate-missing-error-type", "validate = check_b ->", "validate = check_b -> h::ValErrB", VA)
syn_container("from-no-parens", "from = cfrom_a", "from(String) = cfrom_a", FR)
syn_container("from-missing-eq", "from(String) cfrom_a", "from(String) = cfrom_a", FR)
syn_container("from-missing-value", "from(u64)", "from(u64) = cfrom_b", FR)
syn_container("from-empty-parens", "from() = cfrom_b", "from(u64) = cfrom_b", FR)
syn_container("from-ref-mut", "from(&mut String) = cfrom_r", "from(&String) = cfrom_r", FR)
syn_container("from-ref-lifetime", "from(&'static String) = cfrom_r", "from(&String) = cfrom_r", FR)
syn_container("from-with-arrow", "from(String) = cfrom_a -> h::ConvErrA", "from(String) = cfrom_a", FR)
syn_container("try_from-ref-mut", "try_from(&mut u64) = ctry_b -> h::ConvErrB", "try_from(&u64) = ctry_b -> h::ConvErrB", TF,
              kinds=("struct", "unit"))
syn_container("try_from-missing-arrow", "try_from(String) = ctry_a", "try_from(String) = ctry_a -> h::ConvErrA", TF,
              kinds=("struct", "unit"))
syn_container("try_from-no-parens", "try_from = ctry_a -> h::ConvErrA", "try_from(String) = ctry_a -> h::ConvErrA", TF,
              kinds=("struct", "unit"))
syn_container("try_from-missing-error-type", "try_from(&u64) = ctry_b ->", "try_from(&u64) = ctry_b -> h::ConvErrB", TF,
              kinds=("struct", "unit"))
syn_container("error-missing-eq", "error deserr::errors::JsonError", "error = deserr::errors::JsonError", ("error",),
              mode="generic", no_e=True)
syn_container("error-missing-value", "error =", "error = deserr::errors::JsonError", ("error",), mode="generic",
              no_e=True)
syn_container("name-value-attr", '#[deserr = "rename_all"]', None, (), raw=True)
syn_container("bare-attr", "#[deserr]", None, (), raw=True)
syn_container("empty-attr", "#[deserr()]", None, (), raw=True)
syn_container("literal-instead-of-name", '#[deserr("rename_all")]', None, (), raw=True)
syn_container("leading-comma", "#[deserr(, {N})]", "#[deserr({N})]", RA, raw=True)
syn_container("double-comma", "#[deserr({N},, {M})]", "#[deserr({N}, {M})]", RA + VA, raw=True)
syn_container("missing-comma", "#[deserr({N} {M})]", "#[deserr({N}, {M})]", RA + VA, raw=True)


def syn_variant(name, bad, good, fams, raw=False):
    def _p(rng, it, r):
        if raw:
            b = bad.replace("{N}", 'rename = "Aa"').replace("{M}", "rename_all = camelCase")
            g = good.replace("{N}", 'rename = "Aa"').replace("{M}", "rename_all = camelCase") if good else None
            return [], "raw", Line(None, b, g)
        return [Atom(bad, good)], "single", None
    Cell(f"syntax/variant/{name}", "syntax", "variant", fams, _p, kinds=("tagged", "unit"))


syn_variant("rename-missing-eq", 'rename "Xy"', 'rename = "Xy"', ("rename",))
syn_variant("rename-missing-value", "rename =", 'rename = "Xy"', ("rename",))
syn_variant("rename-non-literal", "rename = Xy", 'rename = "Xy"', ("rename",))
syn_variant("rename-trailing-tokens", 'rename = "Xy" "Zw"', 'rename = "Xy"', ("rename",))
syn_variant("rename_all-missing-eq", "rename_all lowercase", "rename_all = lowercase", RA)
syn_variant("rename_all-string-literal", 'rename_all = "lowercase"', "rename_all = lowercase", RA)
syn_variant("name-value-attr", '#[deserr = "rename"]', None, (), raw=True)
syn_variant("bare-attr", "#[deserr]", None, (), raw=True)
syn_variant("empty-attr", "#[deserr()]", None, (), raw=True)
syn_variant("missing-comma", "#[deserr({N} {M})]", "#[deserr({N}, {M})]", ("rename", "rename_all"), raw=True)


def syn_field(name, bad, good, fams, ty=None, raw=False, mode=None):
    def _p(rng, it, r, t):
        if raw:
            b = bad.replace("{N}", 'rename = "aa"').replace("{M}", "default")
            g = good.replace("{N}", 'rename = "aa"').replace("{M}", "default") if good else None
            return [], "raw", Line(None, b, g)
        b = bad.replace("{E}", it.E)
        g = good.replace("{E}", it.E) if good else None
        return [Atom(b, g)], "single", None
    Cell(f"syntax/field/{name}", "syntax", "field", fams, _p, hosts=("struct", "variant"), ty=ty, mode=mode)


RN, DF, MF, ER, MP = ("rename",), ("default",), ("missing_field_error",), ("error",), ("map",)
syn_field("rename-missing-eq", 'rename "aa"', 'rename = "aa"', RN)
syn_field("rename-missing-value", "rename =", 'rename = "aa"', RN)
syn_field("rename-non-literal", "rename = aa", 'rename = "aa"', RN)
syn_field("rename-int-literal", "rename = 5", 'rename = "5"', RN)
syn_field("rename-trailing-tokens", 'rename = "aa" "bb"', 'rename = "aa"', RN)
syn_field("default-missing-value", "default =", "default", DF)
syn_field("default-missing-eq", "default 7", "default = 7", DF, ty="u32")
syn_field("missing_field_error-missing-eq", "missing_field_error h::missing_a::<{E}>",
          "missing_field_error = h::missing_a::<{E}>", MF)
syn_field("missing_field_error-missing-value", "missing_field_error =", "missing_field_error = h::missing_b::<{E}>", MF)
syn_field("error-missing-eq", "error h::EB", "error = h::EB", ER, mode="own")
syn_field("error-missing-value", "error =", "error = h::EC", ER, mode="own")
syn_field("map-missing-eq", "map h::inc_u32", "map = h::inc_u32", MP, ty="u32")
syn_field("map-missing-value", "map =", "map = h::upper", MP, ty="String")
syn_field("map-call-parens", "map = h::not()", "map = h::not", MP, ty="bool")
syn_field("from-no-parens", "from = h::w_from_u64", "from(u64) = h::w_from_u64", FR, ty="h::W")
syn_field("from-missing-eq", "from(u64) h::w_from_u64", "from(u64) = h::w_from_u64", FR, ty="h::W")
syn_field("from-missing-value", "from(String)", "from(String) = h::w_from_string", FR, ty="h::W")
syn_field("from-empty-parens", "from() = h::w_from_u64", "from(u64) = h::w_from_u64", FR, ty="h::W")
syn_field("from-ref-mut", "from(&mut String) = h::w_from_str", "from(&String) = h::w_from_str", FR, ty="h::W")
syn_field("from-ref-lifetime", "from(&'static String) = h::w_from_str", "from(&String) = h::w_from_str", FR, ty="h::W")
syn_field("from-with-arrow", "from(u64) = h::w_from_u64 -> h::Odd", "from(u64) = h::w_from_u64", FR, ty="h::W")
syn_field("try_from-ref-mut", "try_from(&mut String) = h::w_try_str -> h::NotAscii",
          "try_from(&String) = h::w_try_str -> h::NotAscii", TF, ty="h::W")
syn_field("try_from-missing-arrow", "try_from(u64) = h::w_try_u64", "try_from(u64) = h::w_try_u64 -> h::Odd", TF, ty="h::W")
syn_field("try_from-no-parens", "try_from = h::w_try_u64 -> h::Odd", "try_from(u64) = h::w_try_u64 -> h::Odd", TF, ty="h::W")
syn_field("try_from-missing-error-type", "try_from(&String) = h::w_try_str ->",
          "try_from(&String) = h::w_try_str -> h::NotAscii", TF, ty="h::W")
syn_field("skip-with-value", "skip = true", "skip", ("skip",))
syn_field("needs_predicate-with-value", "needs_predicate = true", "needs_predicate", ("needs_predicate",))
syn_field("name-value-attr", '#[deserr = "default"]', None, (), raw=True)
syn_field("bare-attr", "#[deserr]", None, (), raw=True)
syn_field("empty-attr", "#[deserr()]", None, (), raw=True)
syn_field("missing-comma", "#[deserr({N} {M})]", "#[deserr({N}, {M})]", ("rename", "default"), raw=True)


def plan(tier):
    """[(cell index, cell, instance index)]: quick = every (cell, context) once; thorough = every (cell, context,
    placement) (4 passes).  Instance 0 of every cell carries the tool attribute before all deserr attributes."""
    passes = 1 if tier == "quick" else 4
    out = []
    for ci, c in enumerate(CELLS):
        for j in range(max(2, len(c.ctxs) * passes)):
            out.append((ci, c, j))
    return out
