// Helper library shared by every generated item of the C16 workload (copied to src/h.rs of both crates).
// Everything an attribute of a generated item refers to really exists here (or in the item's own module),
// so that rustc itself has nothing to complain about: the only errors may come from the derive.
#![allow(dead_code, unused_variables, unused_imports)]
use deserr::{take_cf_content, DeserializeError, ErrorKind, IntoValue, MergeWithError, ValuePointerRef};
use std::convert::Infallible;
use std::fmt;
use std::ops::ControlFlow;

// ---- foreign error types (implement std::error::Error, so JsonError / QueryParamError accept them) ----
macro_rules! foreign {
    ($($n:ident),*) => {$(
        #[derive(Debug)]
        pub struct $n;
        impl fmt::Display for $n {
            fn fmt(&self, f: &mut fmt::Formatter<'_>) -> fmt::Result { f.write_str(stringify!($n)) }
        }
        impl std::error::Error for $n {}
    )*};
}
foreign!(Odd, NotAscii, TooBig, ValErrA, ValErrB, ConvErrA, ConvErrB);

// ---- own deserialize-error types (container `error = h::EA`, field `error = h::EB` / `h::EC`) ----
macro_rules! own_err {
    ($($n:ident),*) => {$(
        #[derive(Debug)]
        pub struct $n(pub String);
        impl DeserializeError for $n {
            fn error<V: IntoValue>(_s: Option<Self>, _e: ErrorKind<V>, _l: ValuePointerRef) -> ControlFlow<Self, Self> {
                ControlFlow::Break($n(String::from(stringify!($n))))
            }
        }
        impl MergeWithError<$n> for $n {
            fn merge(_s: Option<Self>, o: $n, _l: ValuePointerRef) -> ControlFlow<Self, Self> { ControlFlow::Break(o) }
        }
    )*};
}
own_err!(EA, EB, EC);

macro_rules! merge_into {
    ($t:ident <- $($o:ident),*) => {$(
        impl MergeWithError<$o> for $t {
            fn merge(_s: Option<Self>, o: $o, _l: ValuePointerRef) -> ControlFlow<Self, Self> {
                ControlFlow::Break($t(format!("{:?}", o)))
            }
        }
    )*};
}
merge_into!(EA <- EB, EC, Odd, NotAscii, TooBig, ValErrA, ValErrB, ConvErrA, ConvErrB);
merge_into!(EB <- Odd, NotAscii, TooBig, ValErrA, ValErrB, ConvErrA, ConvErrB);
merge_into!(EC <- Odd, NotAscii, TooBig, ValErrA, ValErrB, ConvErrA, ConvErrB);

// ---- custom missing-field / unknown-key functions (generic over the error type: always used with a turbofish) ----
pub fn missing_a<E: DeserializeError>(field: &str, loc: ValuePointerRef) -> E {
    take_cf_content(E::error::<Infallible>(None, ErrorKind::Unexpected { msg: format!("missing_a {field}") }, loc))
}
pub fn missing_b<E: DeserializeError>(field: &str, loc: ValuePointerRef) -> E {
    take_cf_content(E::error::<Infallible>(None, ErrorKind::MissingField { field }, loc))
}
pub fn unknown_a<E: DeserializeError>(key: &str, accepted: &[&str], loc: ValuePointerRef) -> E {
    take_cf_content(E::error::<Infallible>(None, ErrorKind::UnknownKey { key, accepted }, loc))
}
pub fn unknown_b<E: DeserializeError>(key: &str, _accepted: &[&str], loc: ValuePointerRef) -> E {
    take_cf_content(E::error::<Infallible>(None, ErrorKind::Unexpected { msg: format!("unknown_b {key}") }, loc))
}

// ---- map functions ----
pub fn inc_u32(x: u32) -> u32 { x.wrapping_add(1) }
pub fn dbl_u32(x: u32) -> u32 { x.wrapping_mul(2) }
pub fn upper(s: String) -> String { s.to_uppercase() }
pub fn trim(s: String) -> String { s.trim().to_string() }
pub fn not(b: bool) -> bool { !b }
pub fn id_bool(b: bool) -> bool { b }
pub fn neg_i64(x: i64) -> i64 { x.wrapping_neg() }
pub fn abs_i64(x: i64) -> i64 { x.wrapping_abs() }

// ---- default expressions ----
pub fn dflt_u32() -> u32 { 41 }
pub fn dflt_string() -> String { String::from("dflt") }
pub fn dflt_i64() -> i64 { -41 }
pub fn dflt_w() -> W { W(41) }
pub fn dflt_arr() -> [u8; 2] { [4, 1] } // array literals need syn's "full" feature, which the derive does not enable

// ---- field-level from / try_from target ----
#[derive(Debug, Default, Clone, PartialEq)]
pub struct W(pub u64);
pub fn w_from_u64(x: u64) -> W { W(x) }
pub fn w_from_string(s: String) -> W { W(s.len() as u64) }
pub fn w_from_str(s: &String) -> W { W(s.len() as u64) }
pub fn w_try_u64(x: u64) -> Result<W, Odd> { if x % 2 == 0 { Ok(W(x)) } else { Err(Odd) } }
pub fn w_try_i64(x: i64) -> Result<W, TooBig> { if x >= 0 { Ok(W(x as u64)) } else { Err(TooBig) } }
pub fn w_try_str(s: &String) -> Result<W, NotAscii> { if s.is_ascii() { Ok(W(s.len() as u64)) } else { Err(NotAscii) } }
