"""C16 workload generator: valid base items, each poisoned with exactly one rejection cause, plus twins.

An item is a small tree (container attrs / fields / variants).  Every attribute is an `Atom(p, t)`:
`p` = text in the poisoned item (None = absent), `t` = text in the unpoisoned twin (None = absent).
Noise (valid, unrelated) atoms have p == t.  Structural poisons (shapes) are `*_p` / `*_t` fields.
"""

MASK = (1 << 64) - 1


class Rng:
    """splitmix64; deterministic, independent of Python's hash seed."""

    def __init__(self, *parts):
        s = 0x9E3779B97F4A7C15
        for p in parts:
            if isinstance(p, str):
                for ch in p.encode():
                    s = ((s ^ ch) * 0x100000001B3) & MASK
            else:
                s = ((s ^ (p & MASK)) * 0xBF58476D1CE4E5B9) & MASK
            s ^= s >> 29
        self.s = s & MASK

    def next(self):
        self.s = (self.s + 0x9E3779B97F4A7C15) & MASK
        z = self.s
        z = ((z ^ (z >> 30)) * 0xBF58476D1CE4E5B9) & MASK
        z = ((z ^ (z >> 27)) * 0x94D049BB133111EB) & MASK
        return z ^ (z >> 31)

    def below(self, n):
        return self.next() % n

    def rng(self, lo, hi):  # inclusive
        return lo + self.below(hi - lo + 1)

    def pick(self, seq):
        return seq[self.below(len(seq))]

    def chance(self, num, den):
        return self.below(den) < num

    def shuffle(self, lst):
        for i in range(len(lst) - 1, 0, -1):
            j = self.below(i + 1)
            lst[i], lst[j] = lst[j], lst[i]
        return lst


class Atom:
    __slots__ = ("p", "t")

    def __init__(self, p, t):
        self.p = p
        self.t = t


def N(text):
    """noise atom: identical in poisoned item and twin"""
    return Atom(text, text)


class Line:
    """one `#[deserr(..)]` attribute: a list of atoms, or raw text (for forms like `#[deserr]`)"""
    __slots__ = ("atoms", "raw_p", "raw_t", "trailing_comma")

    def __init__(self, atoms=None, raw_p=None, raw_t=None, trailing_comma=False):
        self.atoms = atoms
        self.raw_p = raw_p
        self.raw_t = raw_t
        self.trailing_comma = trailing_comma


def render_lines(lines, poisoned, indent):
    out = []
    for ln in lines:
        if ln.atoms is None:
            txt = ln.raw_p if poisoned else ln.raw_t
            if txt is not None:
                out.append(indent + txt)
            continue
        texts = [(a.p if poisoned else a.t) for a in ln.atoms]
        texts = [t for t in texts if t is not None]
        if not texts:
            continue
        body = ", ".join(texts)
        if ln.trailing_comma:
            body += ","
        out.append(f"{indent}#[deserr({body})]")
    return out


def interleave(rng, poison, noise):
    """insert every noise atom at a random position, keeping the poison atoms' relative order"""
    res = list(poison)
    for n in noise:
        res.insert(rng.below(len(res) + 1), n)
    return res


def layout(rng, noise, poison=(), spelling=None, raw=None):
    """Distribute atoms over attribute lines.
    spelling: None (no poison) | 'one' (all poison atoms in ONE attribute) | 'two' (two poison atoms in
    two attributes, in order) | 'alone' (single poison atom in its own attribute) | 'raw' (raw line)"""
    noise = list(noise)
    rng.shuffle(noise)
    poison = list(poison)
    lines = []
    if spelling is None or spelling == "raw":
        if noise:
            if len(noise) >= 2 and rng.chance(2, 5):
                k = rng.rng(1, len(noise) - 1)
                lines = [Line(noise[:k]), Line(noise[k:])]
            else:
                lines = [Line(noise)]
        if spelling == "raw":
            lines.insert(rng.below(len(lines) + 1), raw)
    elif spelling == "alone":
        assert len(poison) == 1
        if noise:
            if len(noise) >= 2 and rng.chance(1, 3):
                k = rng.rng(1, len(noise) - 1)
                lines = [Line(noise[:k]), Line(noise[k:])]
            else:
                lines = [Line(noise)]
        lines.insert(rng.below(len(lines) + 1), Line(poison))
    elif spelling == "one":
        k = rng.below(len(noise) + 1)
        inside, outside = noise[:k], noise[k:]
        main = Line(interleave(rng, poison, inside))
        lines = [main]
        if outside:
            lines.insert(rng.below(2), Line(outside))
    elif spelling == "two":
        assert len(poison) == 2
        buckets = [[], [], []]
        for n in noise:
            buckets[rng.below(3)].append(n)
        a = Line(interleave(rng, [poison[0]], buckets[0]))
        b = Line(interleave(rng, [poison[1]], buckets[1]))
        lines = [a, b]
        if buckets[2]:
            lines.insert(rng.below(3), Line(buckets[2]))
    else:
        raise ValueError(spelling)
    for ln in lines:
        if ln.atoms is not None and rng.chance(1, 10):
            ln.trailing_comma = True
    return lines


# foreign, inert attributes that may surround the deserr ones (same text in poisoned item and twin)
FOREIGN = {
    "tool": "#[rustfmt::skip]",                       # tool attribute: a path with two segments
    "allow": "#[allow(dead_code)]",
    "doc": '#[doc = "x"]',
    "doccomment": "/// documented",
    "cfg_attr": "#[cfg_attr(all(), allow(unused))]",
    "serde": '#[serde(rename = "x")]',                # helper attribute declared by the Deserr derive itself
}
FOREIGN_KINDS = sorted(FOREIGN)


def foreign_line(kind):
    return Line(None, FOREIGN[kind], FOREIGN[kind])


def sprinkle(rng, lines, num=1, den=4):
    if rng.chance(num, den):
        lines.insert(rng.below(len(lines) + 1), foreign_line(rng.pick(FOREIGN_KINDS)))
        if rng.chance(1, 4):
            lines.insert(rng.below(len(lines) + 1), foreign_line(rng.pick(FOREIGN_KINDS)))


def place(rng, poison, spelling, raw, ctx_atoms, cpl, extra):
    """Deterministic placement: the poison ('one'/'single': one attribute, 'two': two attributes, 'raw': raw line),
    the context atoms before/after it in the same attribute or in a separate one (cpl), and the atoms the base needs
    (extra) anywhere.  Returns (lines, poison lines)."""
    if spelling == "raw":
        pl = [raw]
    elif spelling == "two":
        pl = [Line([poison[0]]), Line([poison[1]])]
    else:
        pl = [Line(list(poison))]
    lines = list(pl)
    if ctx_atoms:
        before = cpl.startswith("before")
        if cpl.endswith("same") and spelling != "raw":
            tgt = pl[0] if before else pl[-1]
            if before:
                tgt.atoms[0:0] = list(ctx_atoms)
            else:
                tgt.atoms.extend(ctx_atoms)
        else:
            ln = Line(list(ctx_atoms))
            if before:
                lines.insert(0, ln)
            else:
                lines.append(ln)
    for a in extra:
        cands = [ln for ln in lines if ln.atoms is not None]
        if not cands or rng.chance(1, 3):
            lines.insert(rng.below(len(lines) + 1), Line([a]))
        else:
            ln = rng.pick(cands)
            ln.atoms.insert(rng.below(len(ln.atoms) + 1), a)
    for ln in lines:
        if ln.atoms is not None and rng.chance(1, 10):
            ln.trailing_comma = True
    return lines, pl


def poison_lines(lines, poison, raw):
    out = []
    for ln in lines:
        if ln is raw or (ln.atoms is not None and any(a is b for a in ln.atoms for b in poison)):
            out.append(ln)
    return out


def add_foreign(lines, pl, fkind, fpos):
    """fpos: 'none' | 'before' (all deserr attributes) | 'between' (immediately before the last attribute that
    carries poison; = before when that is the first one) | 'after'"""
    if fpos == "none" or fkind == "none":
        return
    ln = foreign_line(fkind)
    if fpos == "before":
        lines.insert(0, ln)
    elif fpos == "after":
        lines.append(ln)
    else:
        idx = max(i for i, x in enumerate(lines) if any(x is p for p in pl)) if pl else 0
        lines.insert(idx, ln)


# ------------------------------------------------------------------------------------------------
# names and types

WORDS = ["alpha", "beta", "gamma", "delta", "omega", "count", "name", "flag", "size", "index", "label", "color",
         "width", "depth", "score", "title", "owner", "limit", "offset", "query", "page", "item", "node", "leaf",
         "left", "right", "first", "last", "inner", "outer", "kind_of", "value", "total", "ratio", "speed", "mass"]
PWORDS = ["Alpha", "Beta", "Gamma", "Delta", "Omega", "Red", "Green", "Blue", "North", "South", "East", "West",
          "Small", "Large", "Open", "Closed", "Fast", "Slow", "First", "Second", "Third", "Circle", "Square", "Line"]

# (type, two different default expressions)
TYPES = [
    ("u8", "7", "9"), ("u16", "300", "301"), ("u32", "70000", "h::dflt_u32()"), ("u64", "9", "10"),
    ("i8", "-3", "3"), ("i16", "-300", "12"), ("i32", "-70000", "0"), ("i64", "-9", "h::dflt_i64()"),
    ("bool", "true", "false"), ("char", "'x'", "'y'"),
    ("String", 'String::from("x")', "h::dflt_string()"),
    ("f32", "1.5", "2.5"), ("f64", "2.5", "-0.5"),
    ("Option<u32>", "Some(3)", "None"), ("Option<String>", "None", 'Some(String::from("s"))'),
    ("Vec<u8>", "vec![1, 2]", "Vec::new()"), ("Vec<String>", "Vec::new()", 'vec![String::from("v")]'),
    ("Box<u16>", "Box::new(4)", "Box::new(5)"), ("(u8, bool)", "(1, false)", "(2, true)"),
    ("[u8; 2]", "h::dflt_arr()", "Default::default()"),
    ("std::collections::BTreeMap<String, u8>", "Default::default()", "std::collections::BTreeMap::new()"),
    ("Option<Vec<i32>>", "None", "Some(vec![1])"),
]
COPY_TYPES = [t for t in TYPES if t[0] in ("u8", "u16", "u32", "u64", "i8", "i16", "i32", "i64", "bool", "char",
                                           "f32", "f64", "(u8, bool)", "[u8; 2]")]
MAPS = {"u32": ("h::inc_u32", "h::dbl_u32"), "String": ("h::upper", "h::trim"), "bool": ("h::not", "h::id_bool"),
        "i64": ("h::neg_i64", "h::abs_i64")}
FROMS = ["from(u64) = h::w_from_u64", "from(String) = h::w_from_string", "from(&String) = h::w_from_str"]
TRY_FROMS = ["try_from(u64) = h::w_try_u64 -> h::Odd", "try_from(i64) = h::w_try_i64 -> h::TooBig",
             "try_from(&String) = h::w_try_str -> h::NotAscii"]

ERR_OF_MODE = {"generic": "__Deserr_E", "json": "deserr::errors::JsonError", "own": "h::EA"}


def type_by_name(name):
    if name == "h::W":
        return ("h::W", "h::dflt_w()", "h::W(3)")
    for t in TYPES:
        if t[0] == name:
            return t
    raise KeyError(name)


def snake(rng, used):
    while True:
        n = rng.rng(1, 3)
        parts = [rng.pick(WORDS) for _ in range(n)]
        s = "_".join(parts)
        if rng.chance(1, 5):
            s += str(rng.below(10))
        if s not in used:
            used.add(s)
            return s


def pascal(rng, used):
    while True:
        n = rng.rng(1, 3)
        s = "".join(rng.pick(PWORDS) for _ in range(n))
        if s not in used:
            used.add(s)
            return s


def lit(rng):
    alphabet = "abcdefghijklmnopqrstuvwxyzABCDEFGHIJKLMNOPQRSTUVWXYZ0123456789_"
    return "".join(alphabet[rng.below(len(alphabet))] for _ in range(rng.rng(1, 8)))


# ------------------------------------------------------------------------------------------------
# item tree

class Field:
    def __init__(self, name, ty, lines=None):
        self.name = name
        self.ty = ty
        self.lines = lines or []


class Variant:
    def __init__(self, name, fields=None, lines=None):
        self.name = name
        self.fields = fields          # None = unit variant
        self.lines = lines or []
        self.shape_p = None           # override: 'tuple' (poisoned item only)


class Item:
    def __init__(self, name, kind, mode):
        self.name = name
        self.kind = kind              # 'struct' | 'tagged' | 'unit'
        self.mode = mode              # 'generic' | 'json' | 'own'
        self.lines = []               # container attribute lines
        self.fields = []              # struct
        self.variants = []            # enums
        self.noise = []               # container noise atoms not laid out yet
        self.keyword_p = None         # 'union' (poisoned item only)
        self.shape_p = None           # 'tuple' | 'unit' (poisoned struct only)
        self.shape_t = None           # 'empty' : twin of a unit struct may be `struct T {}`

    @property
    def E(self):
        return ERR_OF_MODE[self.mode]


def render_fields(fields, poisoned, indent, tuple_form=False):
    out = []
    for f in fields:
        out += render_lines(f.lines, poisoned, indent)
        if tuple_form:
            out.append(f"{indent}pub {f.ty},")
        else:
            out.append(f"{indent}pub {f.name}: {f.ty},")
    return out


HELPERS = {
    "cfrom_a": "fn cfrom_a(_v: String) -> {T} {{ unimplemented!() }}",
    "cfrom_b": "fn cfrom_b(_v: u64) -> {T} {{ unimplemented!() }}",
    "cfrom_r": "fn cfrom_r(_v: &String) -> {T} {{ unimplemented!() }}",
    "ctry_a": "fn ctry_a(_v: String) -> Result<{T}, h::ConvErrA> {{ Err(h::ConvErrA) }}",
    "ctry_b": "fn ctry_b(_v: &u64) -> Result<{T}, h::ConvErrB> {{ Err(h::ConvErrB) }}",
    "check_a": "fn check_a(v: {T}, _l: deserr::ValuePointerRef) -> Result<{T}, h::ValErrA> {{ Ok(v) }}",
    "check_b": "fn check_b(v: {T}, l: deserr::ValuePointerRef) -> Result<{T}, h::ValErrB> "
               "{{ if l.is_origin() {{ Ok(v) }} else {{ Err(h::ValErrB) }} }}",
}


def render_type(item, poisoned):
    out = ["#[derive(Deserr)]"]
    out += render_lines(item.lines, poisoned, "")
    if item.kind == "struct":
        kw = item.keyword_p if (poisoned and item.keyword_p) else "struct"
        shape = item.shape_p if poisoned else item.shape_t
        if shape == "tuple":
            out.append(f"pub {kw} {item.name}(")
            out += render_fields(item.fields, poisoned, "    ", tuple_form=True)
            out.append(");")
        elif shape == "unit":
            out.append(f"pub {kw} {item.name};")
        elif shape == "empty":
            out.append(f"pub {kw} {item.name} {{}}")
        else:
            out.append(f"pub {kw} {item.name} {{")
            out += render_fields(item.fields, poisoned, "    ")
            out.append("}")
    else:
        out.append(f"pub enum {item.name} {{")
        for v in item.variants:
            out += render_lines(v.lines, poisoned, "    ")
            if v.fields is None:
                out.append(f"    {v.name},")
            elif poisoned and v.shape_p == "tuple":
                if v.fields:
                    out.append(f"    {v.name}(")
                    for f in v.fields:
                        out += render_lines(f.lines, poisoned, "        ")
                        out.append(f"        {f.ty},")
                    out.append("    ),")
                else:
                    out.append(f"    {v.name}(),")
            else:
                out.append(f"    {v.name} {{")
                for f in v.fields:
                    out += render_lines(f.lines, poisoned, "        ")
                    out.append(f"        {f.name}: {f.ty},")
                out.append("    },")
        out.append("}")
    return out


def render_item(item):
    """returns (poisoned source, twin source) of the item's module body (without the `mod` wrapper)"""
    p = render_type(item, True)
    t = render_type(item, False)
    both = "\n".join(p + t)
    helpers = [HELPERS[k].format(T=item.name) for k in HELPERS if k in both]
    return "\n".join(p + helpers), "\n".join(t + helpers)


# ------------------------------------------------------------------------------------------------
# base items (valid by construction)

def field_noise(rng, item, ty, exclude=()):
    """valid attributes for a field of type `ty` (not laid out)"""
    atoms = []
    if ty == "h::W":
        return atoms
    if rng.chance(1, 12) and "skip" not in exclude:
        atoms.append(N("skip"))
        if rng.chance(1, 3) and "default" not in exclude:
            atoms.append(N("default = " + type_by_name(ty)[1]))
        return atoms
    if rng.chance(1, 4) and "rename" not in exclude:
        atoms.append(N(f'rename = "{lit(rng)}"'))
    r = rng.below(8)
    if r == 0 and "default" not in exclude:
        atoms.append(N("default"))
    elif r == 1 and "default" not in exclude:
        atoms.append(N("default = " + type_by_name(ty)[rng.rng(1, 2)]))
    elif r == 2 and "missing_field_error" not in exclude and not item.no_e_noise:
        atoms.append(N(f"missing_field_error = h::missing_{rng.pick('ab')}::<{item.E}>"))
    if ty in MAPS and rng.chance(1, 5) and "map" not in exclude:
        atoms.append(N("map = " + rng.pick(MAPS[ty])))
    if rng.chance(1, 12) and "needs_predicate" not in exclude:
        atoms.append(N("needs_predicate"))
    if item.mode == "own" and rng.chance(1, 5) and "error" not in exclude:
        atoms.append(N("error = h::E" + rng.pick("BC")))
    return atoms


def gen_field(rng, item, used, quiet=False, copy_only=False):
    name = snake(rng, used)
    if not copy_only and not quiet and rng.chance(1, 8):
        f = Field(name, "h::W")
        conv = rng.pick(FROMS + TRY_FROMS)
        atoms = [N(conv)]
        if rng.chance(1, 4):
            atoms.append(N(f'rename = "{lit(rng)}"'))
        if rng.chance(1, 5):
            atoms.append(N("default = h::dflt_w()") if rng.chance(1, 2) else N("default"))
        f.lines = layout(rng, atoms)
        return f
    ty = rng.pick(COPY_TYPES if copy_only else TYPES)[0]
    f = Field(name, ty)
    if not quiet and rng.chance(2, 5):
        f.lines = layout(rng, field_noise(rng, item, ty))
    return f


def gen_fields(rng, item, lo, hi, **kw):
    used = set()
    return [gen_field(rng, item, used, **kw) for _ in range(rng.rng(lo, hi))]


def variant_noise(rng, exclude=()):
    atoms = []
    if rng.chance(1, 4) and "rename" not in exclude:
        atoms.append(N(f'rename = "{lit(rng)}"'))
    if rng.chance(1, 5) and "rename_all" not in exclude:
        atoms.append(N("rename_all = " + rng.pick(["camelCase", "lowercase"])))
    return atoms


def container_noise(rng, item, exclude=()):
    """valid container attributes; never from / try_from (those only appear as poison partners)"""
    atoms = []
    if item.kind == "tagged" and "tag" not in exclude:
        atoms.append(N('tag = "%s"' % rng.pick(["type", "kind", "t", "tag"])))
    if item.mode != "generic" and "error" not in exclude:
        atoms.append(N("error = " + item.E))
    if rng.chance(1, 3) and "rename_all" not in exclude:
        atoms.append(N("rename_all = " + rng.pick(["camelCase", "lowercase"])))
    if item.kind != "unit" and rng.chance(1, 3) and "deny_unknown_fields" not in exclude:
        if rng.chance(1, 2) and not item.no_e_noise:
            atoms.append(N(f"deny_unknown_fields = h::unknown_{rng.pick('ab')}::<{item.E}>"))
        else:
            atoms.append(N("deny_unknown_fields"))
    if rng.chance(1, 5) and "validate" not in exclude:
        atoms.append(N("validate = check_a -> h::ValErrA" if rng.chance(1, 2) else "validate = check_b -> h::ValErrB"))
    return atoms


def gen_base(rng, kind, mode=None, exclude=(), no_e_noise=False, quiet_fields=False, copy_only=False, plain=False):
    """kind: 'struct' | 'tagged' | 'unit'.  Container noise is left in item.noise (laid out by the cell).
    plain: only the attributes the base needs (tag of a tagged enum, error type of a non-generic mode)."""
    if mode is None:
        mode = rng.pick(["generic", "generic", "generic", "json", "own"])
    item = Item(pascal(rng, set()), kind, mode)
    item.no_e_noise = no_e_noise
    if kind == "struct":
        item.fields = gen_fields(rng, item, 1, 6, quiet=quiet_fields, copy_only=copy_only)
    elif kind == "tagged":
        used = set()
        nv = rng.rng(1, 5)
        data_at = rng.below(nv)
        for i in range(nv):
            name = pascal(rng, used)
            if i == data_at or rng.chance(1, 2):
                v = Variant(name, gen_fields(rng, item, 1, 4, quiet=quiet_fields))
            else:
                v = Variant(name, None)
            if rng.chance(1, 3):
                v.lines = layout(rng, variant_noise(rng))
            item.variants.append(v)
    else:
        used = set()
        for i in range(rng.rng(1, 5)):
            v = Variant(pascal(rng, used), None)
            if rng.chance(1, 3):
                v.lines = layout(rng, variant_noise(rng, exclude=("rename_all",) if rng.chance(1, 2) else ()))
            item.variants.append(v)
    if plain:
        item.noise = []
        if kind == "tagged" and "tag" not in exclude:
            item.noise.append(N('tag = "%s"' % rng.pick(["type", "kind", "t", "tag"])))
        if mode != "generic" and "error" not in exclude:
            item.noise.append(N("error = " + item.E))
    else:
        item.noise = container_noise(rng, item, exclude)
    # foreign, inert attributes on the nodes that do not carry the poison (the poisoned node gets its own, rotated)
    for f in item.fields:
        sprinkle(rng, f.lines)
    for v in item.variants:
        sprinkle(rng, v.lines)
        for f in v.fields or []:
            sprinkle(rng, f.lines)
    return item
