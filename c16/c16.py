#!/usr/bin/env python3
"""C16 — the derive rejects what it cannot honour.

  python3 c16/c16.py --tier quick|thorough        (cwd = /verif; env VERIF_SEED, VERIF_ROOT, VERIF_REPO)
  python3 c16/c16.py --replay replays/C16/<hash>.json

Workload: gen.py / cells.py (valid base items, each poisoned with exactly one rejection cause, + unpoisoned twins).
Execution: two cargo crates (poisoned / twins), `cargo check --offline --message-format=json`.
Monitor: the diagnostics event log, attributed to items by source line.
exit 0 = held, 1 = violation, 2 = inconclusive.
"""
import argparse
import bisect
import hashlib
import json
import os
import shutil
import subprocess
import sys
import time

HERE = os.path.dirname(os.path.abspath(__file__))
sys.dont_write_bytecode = True
sys.path.insert(0, HERE)
import gen      # noqa: E402
import cells    # noqa: E402

PROP = "C16"
ROOT = os.environ.get("VERIF_ROOT", "/verif")
REPO = os.environ.get("VERIF_REPO", "/repo")
try:
    SEED = int(os.environ.get("VERIF_SEED", "1").strip())
except ValueError:
    SEED = 1
START = time.time()

RULE = ("Items come from a grammar of valid derive inputs (struct with named fields / internally tagged enum with unit and "
        "struct-like variants / unit-only enum; helper functions and error types really exist), each poisoned with exactly "
        "one rejection cause of the statement at container, variant or field level, written inside one #[deserr(..)] or "
        "spread over two, with different values on the two occurrences of a duplicated attribute; every poisoned item has "
        "an unpoisoned twin that must compile. The matrix cause x level x attribute x spelling x item-kind (one cell per "
        "signature) is enumerated completely in both tiers, each cell once per legal CONTEXT attribute of the poison's own level "
        "(container: none/error/rename_all/deny_unknown_fields/validate/from/try_from/where_predicate/generic_param/mix; field: "
        "none/rename/default/skip/map/from/try_from/error/missing_field_error/needs_predicate/mix; variant: none/rename/"
        "rename_all/mix; the twin keeps the context), with a rotated placement of the context (before/after the poison, same or "
        "separate #[deserr]; thorough covers all four per cell x context) and a rotated foreign inert attribute (#[rustfmt::skip], "
        "#[allow], doc, cfg_attr, #[serde]) before / between / after the deserr attributes; instance 0 of every cell has the tool "
        "attribute before the poisoned attribute -- `exhaustive` refers to the cell x context matrix and that guarantee only; "
        "VERIF_SEED varies the "
        "base item around each cell (field/variant counts, names, types, position of the poison, attribute order, unrelated "
        "valid attributes). A case is non-trivial when its item was compiled and its twin compiled without error; "
        "distinct_nontrivial counts distinct signatures among those. Oracle: a poisoned item needs >= 1 error diagnostic "
        "without rustc error code (compile_error! from the macro's syn::Error) that does not mention a panic.")


# ------------------------------------------------------------------------------------------------
# crates

def cargo_toml(name):
    return (f'[package]\nname = "{name}"\nversion = "0.0.0"\nedition = "2021"\n\n[lib]\npath = "src/lib.rs"\n\n'
            f'[dependencies]\ndeserr = {{ path = "{REPO}" }}\n\n[workspace]\n')


def write_crate(dirpath, name, sources):
    """sources: list of (module name, header comment, body). Returns [(first line, last line)] (1-based) per item."""
    if os.path.exists(dirpath):
        shutil.rmtree(dirpath)
    os.makedirs(os.path.join(dirpath, "src"))
    with open(os.path.join(dirpath, "Cargo.toml"), "w") as f:
        f.write(cargo_toml(name))
    lock = os.path.join(REPO, "Cargo.lock")
    if os.path.exists(lock):
        shutil.copy(lock, os.path.join(dirpath, "Cargo.lock"))
    shutil.copy(os.path.join(HERE, "h.rs"), os.path.join(dirpath, "src", "h.rs"))
    lines = ["#![allow(warnings)]", "pub mod h;", ""]
    ranges = []
    for mod, comment, body in sources:
        first = len(lines) + 1
        lines.append(f"pub mod {mod} {{")
        lines.append(f"    // {comment}")
        lines.append("    use super::h;")
        lines.append("    use deserr::Deserr;")
        for ln in body.split("\n"):
            lines.append("    " + ln if ln else "")
        lines.append("}")
        ranges.append((first, len(lines)))
        lines.append("")
    with open(os.path.join(dirpath, "src", "lib.rs"), "w") as f:
        f.write("\n".join(lines) + "\n")
    return ranges


def run_cargo(dirpath, timeout):
    """returns (ok_to_interpret, exit code, [compiler messages], reason-if-not-ok)"""
    env = dict(os.environ)
    env["CARGO_NET_OFFLINE"] = "true"
    env["CARGO_TARGET_DIR"] = os.path.join(ROOT, "target", "c16")
    env["CARGO_TERM_COLOR"] = "never"
    env.pop("RUSTFLAGS", None)
    try:
        p = subprocess.run(["cargo", "check", "--offline", "--message-format=json", "--lib"], cwd=dirpath, env=env,
                           stdout=subprocess.PIPE, stderr=subprocess.PIPE, timeout=timeout)
    except subprocess.TimeoutExpired:
        return False, None, [], f"cargo check timed out after {timeout}s in {dirpath}"
    except OSError as e:
        return False, None, [], f"cargo could not be run: {e}"
    with open(os.path.join(dirpath, "cargo-stderr.log"), "wb") as f:
        f.write(p.stderr)
    with open(os.path.join(dirpath, "cargo-stdout.jsonl"), "wb") as f:
        f.write(p.stdout)
    msgs = []
    finished = None
    own_pkg = os.path.basename(dirpath)
    for line in p.stdout.decode("utf-8", "replace").splitlines():
        line = line.strip()
        if not line.startswith("{"):
            continue
        try:
            m = json.loads(line)
        except ValueError:
            continue
        if m.get("reason") == "compiler-message":
            src = (m.get("target") or {}).get("src_path", "")
            msgs.append((os.path.abspath(src) == os.path.abspath(os.path.join(dirpath, "src", "lib.rs")), m["message"]))
        elif m.get("reason") == "build-finished":
            finished = m.get("success")
    if finished is None:
        tail = p.stderr.decode("utf-8", "replace").strip().splitlines()[-3:]
        return False, p.returncode, msgs, "cargo did not finish a build in %s: %s" % (dirpath, " | ".join(tail))
    # an error in a dependency (deserr itself not compiling) is not something this check can judge
    for own, m in msgs:
        if not own and m.get("level", "").startswith("error"):
            return False, p.returncode, msgs, "a dependency failed to compile: " + m.get("message", "")[:200]
    return True, p.returncode, [m for own, m in msgs if own], None


def span_lines(msg):
    """candidate (file, line) positions of a diagnostic: primary span first, then the others, each followed by its
    macro-expansion call sites"""
    spans = sorted(msg.get("spans") or [], key=lambda s: not s.get("is_primary"))
    out = []
    for s in spans:
        cur = s
        depth = 0
        while cur is not None and depth < 16:
            out.append((cur.get("file_name", ""), cur.get("line_start", 0)))
            exp = cur.get("expansion")
            cur = exp.get("span") if exp else None
            depth += 1
    for ch in msg.get("children") or []:
        for s in ch.get("spans") or []:
            out.append((s.get("file_name", ""), s.get("line_start", 0)))
    return out


def attribute(msgs, ranges):
    """-> (per-item list of error diagnostics, unattributed error diagnostics)"""
    starts = [r[0] for r in ranges]
    per = [[] for _ in ranges]
    loose = []
    for m in msgs:
        lvl = m.get("level", "")
        if not lvl.startswith("error"):
            continue
        text = m.get("message", "")
        if text.startswith("aborting due to") or text.startswith("could not compile"):
            continue
        hit = None
        for fname, line in span_lines(m):
            if not fname.replace("\\", "/").endswith("src/lib.rs") or fname.startswith(REPO + "/"):
                continue
            i = bisect.bisect_right(starts, line) - 1
            if i >= 0 and ranges[i][0] <= line <= ranges[i][1]:
                hit = i
                break
        d = {"message": text, "code": (m.get("code") or {}).get("code") if m.get("code") else None, "level": lvl,
             "rendered": (m.get("rendered") or "")[:1200]}
        if hit is None:
            loose.append(d)
        else:
            per[hit].append(d)
    return per, loose


def mentions_panic(d):
    return "panicked" in d["message"] or "panicked" in d["rendered"]


def judge(diags):
    """verdict for one poisoned item: 'rejected' | 'accepted-silently' | 'accepted-broken-code' | 'panicked'"""
    if any(mentions_panic(d) for d in diags):
        return "panicked"
    if any(d["code"] is None for d in diags):
        return "rejected"
    if diags:
        return "accepted-broken-code"
    return "accepted-silently"


# ------------------------------------------------------------------------------------------------
# verdict + evidence (same conventions as harness/vcore/src/evidence.rs `finish`)

def known_findings():
    try:
        v = json.load(open(os.path.join(ROOT, "known_findings.json")))
    except (OSError, ValueError):
        return {}
    out = {}
    for f in v.get("findings") or []:
        if isinstance(f, dict) and f.get("property") == PROP and isinstance(f.get("signature"), str):
            out[f["signature"]] = f.get("what") or ""
    return out


def sig_hash(sig):
    return hashlib.sha256(sig.encode()).hexdigest()[:16]


def finish(tier, evaluations, distinct, counters, sets, samples, violations, inconclusive, extra, replay_mode=False):
    wall = time.time() - START
    known = known_findings()
    real = [v for v in violations if v["signature"] not in known]
    hit = [v for v in violations if v["signature"] in known]
    if evaluations == 0:
        inconclusive.append("no execution was observed")
    if not real and distinct < 2 and not inconclusive and not replay_mode:
        inconclusive.append("fewer than two distinct non-trivial cases were observed")
    lines = []
    rdir = os.path.join(ROOT, "replays", PROP)
    for v in real:
        os.makedirs(rdir, exist_ok=True)
        path = os.path.join(rdir, sig_hash(v["signature"]) + ".json")
        body = {"property": PROP, "signature": v["signature"], "rule": v["rule"], "tier": tier, "seed": SEED,
                "cause": v["cause"], "witness": v["witness"]}
        if not replay_mode:
            with open(path, "w") as f:
                json.dump(body, f, indent=2)
                f.write("\n")
        else:
            path = v.get("replay_path", path)
        lines.append(f"VIOLATION property={PROP} replay={path}")
        sys.stderr.write(f"  signature: {v['signature']}\n  rule: {v['rule']}\n")
    if not replay_mode:
        cov = {"evaluations": evaluations, "distinct_nontrivial": distinct, "rule": RULE, "samples": samples,
               "exhaustive": bool(extra.get("matrix_complete")), "observed": counters,
               "observed_sets": {k: {"distinct": len(s), "first": sorted(s)[:40]} for k, s in sorted(sets.items())}}
        cov.update(extra)
        cov["known_findings_hit"] = [v["signature"] for v in hit]
        cov["violation_signatures"] = [v["signature"] for v in real]
        cov["inconclusive"] = inconclusive
        ev = {"property_id": PROP, "tier": tier, "seed": SEED, "level": "exploration", "coverage": cov,
              "assumptions": [
                  "an error diagnostic without a rustc error code attributed to the item is a compile_error! produced from the "
                  "derive's syn::Error (rustc's own code-less errors, e.g. parse errors, cannot occur on these items because "
                  "every twin, which differs only by the poison, compiles cleanly)",
                  "diagnostics are attributed to items by the line of their primary span or of a macro call site in the backtrace",
                  "cargo / rustc report every independent compile_error! of a crate (cross-checked: the accepted items are "
                  "re-compiled alone in a third crate and must again show no derive diagnostic)"],
              "wall_s": round(wall, 3), "violations": len(real)}
        try:
            os.makedirs(os.path.join(ROOT, "evidence"), exist_ok=True)
            with open(os.path.join(ROOT, "evidence", PROP + ".json"), "w") as f:
                json.dump(ev, f, indent=2)
                f.write("\n")
        except OSError as e:
            print(f"INCONCLUSIVE property={PROP} reason=cannot write evidence: {e}")
            return 2
    for v in hit:
        print(f"KNOWN-FINDING: property={PROP} {known[v['signature']]} [{v['signature']}]")
    print(f"{PROP} {tier} seed={SEED} evaluations={evaluations} distinct_nontrivial={distinct} "
          f"violations={len(real)} wall={wall:.1f}s")
    for k in sorted(counters):
        print(f"  observed {k} = {counters[k]}")
    if real:
        for ln in lines:
            print(ln)
        return 1
    if inconclusive:
        for r in inconclusive:
            print(f"INCONCLUSIVE property={PROP} reason={r}")
        return 2
    return 0


# ------------------------------------------------------------------------------------------------

def bump(counters, k, n=1):
    counters[k] = counters.get(k, 0) + n


def main_run(tier):
    counters, sets, samples, violations, inconclusive = {}, {}, [], [], []
    plan = cells.plan(tier)
    items = []
    for idx, (ci, c, j) in enumerate(plan):
        rng = gen.Rng(SEED, c.sig, j)
        it, sub, meta = c.build(rng, j, ci)
        p, t = gen.render_item(it)
        items.append({"idx": idx, "mod": f"i{idx:05d}", "sig": c.sig, "family": c.family, "level": c.level,
                      "sub": sub, "instance": j, "poisoned": p, "twin": t, "meta": meta})
    work = os.path.join(ROOT, "work", f"c16-{tier}")
    if os.path.exists(work):
        shutil.rmtree(work)
    os.makedirs(work)
    pr = write_crate(os.path.join(work, "poisoned"), "c16_poisoned",
                     [(x["mod"], x["sig"] + " [" + x["sub"] + "]", x["poisoned"]) for x in items])
    timeout = 600 if tier == "quick" else 3000

    # twins first: also builds the dependencies, and is the generator's self-check.  A twin that does not compile
    # takes the verdict away from ITS item only; the remaining twins are compiled again without the failing ones
    # (an error can keep rustc from checking the rest), until a crate of twins builds cleanly.
    twin_ok = [False] * len(items)
    evaluations = 0
    pending = list(range(len(items)))
    tr = write_crate(os.path.join(work, "twins"), "c16_twins",
                     [(x["mod"], "twin of " + x["sig"] + " [" + x["sub"] + "]", x["twin"]) for x in items])
    for rnd in range(6):
        ok, rc, tmsgs, why = run_cargo(os.path.join(work, "twins"), timeout)
        if not ok:
            inconclusive.append(why)
            break
        if rnd == 0:
            evaluations += len(items)
            bump(counters, "twins_compiled", len(items))
        tdiags, loose = attribute(tmsgs, tr)
        bump(counters, "diagnostics_seen_twins", sum(1 for m in tmsgs if m.get("level", "").startswith("error")))
        for d in loose:
            inconclusive.append("generator fault: twin crate error outside any item: " + d["message"][:160])
        bad = [k for k in range(len(pending)) if tdiags[k]]
        for k in bad:
            x = items[pending[k]]
            bump(counters, "twins_failing")
            inconclusive.append(f"generator fault: twin of {x['sig']} ({x['mod']}, seed {SEED}) does not compile: "
                                + tdiags[k][0]["message"][:160])
        if loose:
            break
        if not bad:
            if rc == 0:
                for i in pending:
                    twin_ok[i] = True
            else:
                inconclusive.append("twin crate failed to build without an attributable diagnostic")
            break
        badset = set(bad)
        pending = [i for k, i in enumerate(pending) if k not in badset]
        if not pending:
            break
        bump(counters, "twin_crate_rebuilt_without_failing_twins")
        tr = write_crate(os.path.join(work, "twins"), "c16_twins",
                         [(items[i]["mod"], "twin of " + items[i]["sig"], items[i]["twin"]) for i in pending])
    else:
        inconclusive.append("twins still failing after 6 rounds")
    bump(counters, "twins_compiled_clean", sum(twin_ok))

    ok2, rc2, pmsgs, why2 = run_cargo(os.path.join(work, "poisoned"), timeout)
    verdicts = [None] * len(items)
    pdiags = [[] for _ in items]
    if not ok2:
        inconclusive.append(why2)
    else:
        evaluations += len(items)
        pdiags, ploose = attribute(pmsgs, pr)
        bump(counters, "diagnostics_seen_poisoned", sum(len(d) for d in pdiags) + len(ploose))
        for d in ploose:
            if mentions_panic(d):
                violations.append({"signature": "panic/unattributed", "cause": "panic",
                                   "rule": "a diagnostic mentions a panic", "witness": {"diagnostic": d}})
            else:
                inconclusive.append("poisoned crate error outside any item: " + d["message"][:160])
        for i, x in enumerate(items):
            verdicts[i] = judge(pdiags[i])
            bump(counters, "items_poisoned")
            bump(counters, "items_family_" + x["family"])
            bump(counters, "items_level_" + x["level"])
            bump(counters, "verdict_" + verdicts[i])
            for d in pdiags[i]:
                if d["code"] is None:
                    sets.setdefault("derive_messages", set()).add(d["message"][:120])
                else:
                    sets.setdefault("rustc_codes_on_poisoned_items", set()).add(str(d["code"]))

    # cross-check against masking: every accepted item is compiled again, alone with the other accepted ones
    accepted = [i for i, v in enumerate(verdicts) if v in ("accepted-silently", "accepted-broken-code") and twin_ok[i]]
    alone = {}
    if accepted:
        ar = write_crate(os.path.join(work, "accepted"), "c16_accepted",
                         [(items[i]["mod"], items[i]["sig"], items[i]["poisoned"]) for i in accepted])
        ok3, rc3, amsgs, why3 = run_cargo(os.path.join(work, "accepted"), timeout)
        if not ok3:
            inconclusive.append(why3)
        else:
            evaluations += len(accepted)
            adiags, aloose = attribute(amsgs, ar)
            bump(counters, "accepted_items_recompiled_alone", len(accepted))
            for k, i in enumerate(accepted):
                v = judge(adiags[k])
                alone[i] = {"verdict": v, "diagnostics": adiags[k][:4]}
                bump(counters, "alone_" + v)
                if v == "rejected":
                    inconclusive.append(f"masking: {items[i]['sig']} ({items[i]['mod']}) showed no derive diagnostic in the "
                                        "full crate but shows one when compiled without the rejected items")
                elif v == "panicked":
                    verdicts[i] = "panicked"

    # oracle
    covered, nontrivial = set(), set()
    cells_sub = set()
    for i, x in enumerate(items):
        if verdicts[i] is None:
            continue
        covered.add(x["sig"])
        cells_sub.add((x["sig"], x["sub"]))
        if not twin_ok[i]:
            continue                       # generator fault (already inconclusive): no verdict on this item
        nontrivial.add(x["sig"])
        v = verdicts[i]
        if v == "rejected":
            continue
        if any(w["signature"] == x["sig"] for w in violations):
            bump(counters, "violations_not_kept_as_witness")
            continue
        what = {"accepted-silently": "the derive accepted the item without any diagnostic (part of what was written is dropped or overridden)",
                "accepted-broken-code": "the derive accepted the item and emitted code rustc rejects (only diagnostics with rustc error codes)",
                "panicked": "a diagnostic mentions a panic"}[v]
        violations.append({"signature": x["sig"], "cause": x["family"], "rule": what,
                           "witness": {"signature": x["sig"], "cause": x["family"], "level": x["level"], "subkind": x["sub"],
                                       "instance": x["instance"], "module": x["mod"], "verdict": v,
                                       "poisoned_source": x["poisoned"], "twin_source": x["twin"],
                                       "diagnostics": pdiags[i][:6], "compiled_alone": alone.get(i),
                                       "repo": REPO}})
    # samples: a few rejected items with their diagnostics, a few accepted ones
    want = {"rejected": 4, "accepted-silently": 2, "accepted-broken-code": 1, "panicked": 1}
    seen_fam = set()
    for i, x in enumerate(items):
        v = verdicts[i]
        if v is None or want.get(v, 0) == 0 or (v == "rejected" and x["family"] in seen_fam):
            continue
        want[v] -= 1
        seen_fam.add(x["family"])
        samples.append({"signature": x["sig"], "subkind": x["sub"], "verdict": v, "poisoned_source": x["poisoned"],
                        "twin_compiles": twin_ok[i],
                        "diagnostics": [{"message": d["message"], "code": d["code"]} for d in pdiags[i][:3]]})
    if not samples and items:
        samples.append({"signature": items[0]["sig"], "poisoned_source": items[0]["poisoned"], "verdict": None})

    fam_counts = {}
    for x in items:
        fam_counts[x["family"]] = fam_counts.get(x["family"], 0) + 1
    all_sigs = {c.sig for c in cells.CELLS}
    want_ctx = {(c.sig, x) for c in cells.CELLS for x in c.ctxs}
    got_ctx, ctx_by_level, fpos, tool_before, placements = set(), {}, {}, set(), {}
    for i, x in enumerate(items):
        if verdicts[i] is None:
            continue
        m = x["meta"]
        got_ctx.add((x["sig"], m["ctx"]))
        ctx_by_level.setdefault(x["level"], {}).setdefault(m["ctx"], 0)
        ctx_by_level[x["level"]][m["ctx"]] += 1
        k = m["fkind"] + "-" + m["fpos"]
        fpos[k] = fpos.get(k, 0) + 1
        placements[m["cpl"]] = placements.get(m["cpl"], 0) + 1
        if m["fkind"] == "tool" and m["fpos"] == "before":
            tool_before.add(x["sig"])
    extra = {"tier_plan_items": len(items), "matrix_cells": len(all_sigs), "matrix_cells_covered": len(covered),
             "matrix_complete": covered == all_sigs and want_ctx <= got_ctx and tool_before == all_sigs, "matrix_cell_subkinds_covered": len(cells_sub),
             "items_per_cause_family": fam_counts,
             "cell_context_pairs": len(want_ctx), "cell_context_pairs_covered": len(got_ctx & want_ctx),
             "context_attributes_exercised": {lvl: dict(sorted(d.items())) for lvl, d in sorted(ctx_by_level.items())},
             "context_placements_exercised": dict(sorted(placements.items())),
             "foreign_attribute_positions_exercised": dict(sorted(fpos.items())),
             "cells_with_tool_attribute_before_poison": len(tool_before),
             "rejected_by_derive": counters.get("verdict_rejected", 0),
             "accepted": counters.get("verdict_accepted-silently", 0) + counters.get("verdict_accepted-broken-code", 0),
             "twins_compiled": counters.get("twins_compiled", 0),
             "diagnostics_seen": counters.get("diagnostics_seen_poisoned", 0) + counters.get("diagnostics_seen_twins", 0),
             "repo": REPO, "work_dir": work}
    # de-duplicate inconclusive reasons, cap
    seen, inc = set(), []
    for r in inconclusive:
        if r not in seen and len(inc) < 20:
            seen.add(r)
            inc.append(r)
    return finish(tier, evaluations, len(nontrivial), counters, sets, samples, violations, inc, extra)


def main_replay(path):
    try:
        body = json.load(open(path))
        w = body["witness"]
        sig, p, t = body["signature"], w["poisoned_source"], w["twin_source"]
    except (OSError, ValueError, KeyError) as e:
        print(f"INCONCLUSIVE property={PROP} reason=cannot read replay file {path}: {e}")
        return 2
    work = os.path.join(ROOT, "work", "c16-replay")
    if os.path.exists(work):
        shutil.rmtree(work)
    os.makedirs(work)
    pr = write_crate(os.path.join(work, "poisoned"), "c16_poisoned", [("i00000", sig, p)])
    tr = write_crate(os.path.join(work, "twins"), "c16_twins", [("i00000", "twin of " + sig, t)])
    inconclusive, violations, counters = [], [], {}
    ok, rc, tm, why = run_cargo(os.path.join(work, "twins"), 600)
    if not ok:
        inconclusive.append(why)
    else:
        td, tl = attribute(tm, tr)
        if td[0] or tl or rc != 0:
            inconclusive.append("generator fault: the twin does not compile: " + ((td[0] + tl) or [{"message": "?"}])[0]["message"][:200])
    ok2, rc2, pm, why2 = run_cargo(os.path.join(work, "poisoned"), 600)
    evaluations = 0
    if not ok2:
        inconclusive.append(why2)
    else:
        evaluations = 2 if ok else 1
        pd, pl = attribute(pm, pr)
        diags = pd[0] + pl
        v = judge(diags)
        bump(counters, "verdict_" + v)
        print(f"replay {sig}: {v}")
        for d in diags[:6]:
            print("  diagnostic:", d["code"] or "(no code)", "|", d["message"])
        if v != "rejected" and not inconclusive:
            violations.append({"signature": sig, "cause": body.get("cause", ""), "rule": "replayed: " + v,
                               "witness": w, "replay_path": path})
    return finish("quick", evaluations, 1 if evaluations else 0, counters, {}, [], violations, inconclusive, {},
                  replay_mode=True)


def main():
    ap = argparse.ArgumentParser()
    ap.add_argument("--tier", choices=["quick", "thorough"], default=os.environ.get("VERIF_TIER", "quick"))
    ap.add_argument("--replay")
    a = ap.parse_args()
    try:
        if a.replay:
            return main_replay(a.replay)
        return main_run(a.tier)
    except Exception as e:      # a crash of the check is never a verdict about deserr
        import traceback
        traceback.print_exc()
        print(f"INCONCLUSIVE property={PROP} reason=check crashed: {type(e).__name__}: {e}")
        return 2


if __name__ == "__main__":
    sys.exit(main())
