//! Request generator: bodies (valid / ill-typed / malformed), content types, extractor configurations, query strings.
//! Every random choice comes from `vcore::Rng`.
use serde_json::{json, Map, Value};
use vcore::Rng;

pub const JSON_TARGETS: &[&str] = &["Doc", "Shape", "VecU8", "Value"];
pub const QUERY_TARGETS: &[&str] = &["Search", "StrMap", "Value"];
pub const JSON_ERRORS: &[&str] = &["JsonError", "E422"];
pub const QUERY_ERRORS: &[&str] = &["JsonError", "E422", "QueryParamError"];

/// framework default for both actix (`JsonConfig`) and axum (`DefaultBodyLimit`)
pub const DEFAULT_LIMIT: usize = 2_097_152;

/// Extractor configuration applied identically to the framework's extractor and to the deserr one.
#[derive(Clone, Debug, PartialEq)]
pub enum Cfg {
    Default,
    /// body limit (actix `JsonConfig::limit`, axum `DefaultBodyLimit::max`)
    Limit(usize),
    /// actix only: `JsonConfig::content_type(|m| m == text/plain)`
    AlsoTextPlain,
    /// actix only: `JsonConfig::content_type_required(false)`
    CtypeNotRequired,
    /// actix only: `JsonConfig::error_handler` mapping every payload error to a 418 with its text
    Handler418,
}

impl Cfg {
    pub fn to_json(&self) -> Value {
        match self {
            Cfg::Default => json!("default"),
            Cfg::Limit(n) => json!({"limit": n}),
            Cfg::AlsoTextPlain => json!("also_text_plain"),
            Cfg::CtypeNotRequired => json!("ctype_not_required"),
            Cfg::Handler418 => json!("handler_418"),
        }
    }
    pub fn from_json(v: &Value) -> Option<Cfg> {
        Some(match v {
            Value::String(s) => match s.as_str() {
                "default" => Cfg::Default,
                "also_text_plain" => Cfg::AlsoTextPlain,
                "ctype_not_required" => Cfg::CtypeNotRequired,
                "handler_418" => Cfg::Handler418,
                _ => return None,
            },
            Value::Object(m) => Cfg::Limit(m.get("limit")?.as_u64()? as usize),
            _ => return None,
        })
    }
    pub fn name(&self) -> &'static str {
        match self {
            Cfg::Default => "default",
            Cfg::Limit(_) => "limit",
            Cfg::AlsoTextPlain => "also_text_plain",
            Cfg::CtypeNotRequired => "ctype_not_required",
            Cfg::Handler418 => "handler_418",
        }
    }
}

/// A JSON-extractor request. The body is `prefix ++ pad spaces ++ suffix` so that a 2 MiB body stays small on disk.
#[derive(Clone, Debug)]
pub struct JsonReq {
    pub method: &'static str,
    /// raw header value bytes; None = no Content-Type header
    pub content_type: Option<Vec<u8>>,
    /// explicit Content-Length header value; None = header absent
    pub content_length: Option<String>,
    pub prefix: Vec<u8>,
    pub pad: usize,
    pub suffix: Vec<u8>,
    pub cfg: Cfg,
    /// the body arrives in this many pieces (1 = one piece)
    pub chunks: usize,
    /// the transport fails after the last piece instead of ending cleanly (connection cut)
    pub fail: bool,
    pub class: String,
}

impl JsonReq {
    /// the body as the pieces the transport delivers
    pub fn pieces(&self) -> Vec<Vec<u8>> {
        let b = self.body();
        let k = self.chunks.max(1).min(b.len().max(1));
        let step = b.len().div_ceil(k).max(1);
        let mut out: Vec<Vec<u8>> = b.chunks(step).map(|c| c.to_vec()).collect();
        if out.is_empty() {
            out.push(vec![]);
        }
        out
    }
    pub fn body(&self) -> Vec<u8> {
        let mut b = Vec::with_capacity(self.prefix.len() + self.pad + self.suffix.len());
        b.extend_from_slice(&self.prefix);
        b.resize(self.prefix.len() + self.pad, b' ');
        b.extend_from_slice(&self.suffix);
        b
    }
    pub fn body_len(&self) -> usize {
        self.prefix.len() + self.pad + self.suffix.len()
    }
}

#[derive(Clone, Debug)]
pub struct QueryReq {
    pub query: String,
    /// "from_query" (direct call), "from_request" (through a request URI) or "from_request_rewritten" (second
    /// extraction from a request object whose URI was rewritten after a first extraction)
    pub via: &'static str,
    pub class: String,
}

pub fn hex(b: &[u8]) -> String {
    let mut s = String::with_capacity(b.len() * 2);
    for x in b {
        s.push_str(&format!("{x:02x}"));
    }
    s
}

pub fn unhex(s: &str) -> Option<Vec<u8>> {
    if s.len() % 2 != 0 {
        return None;
    }
    (0..s.len()).step_by(2).map(|i| u8::from_str_radix(s.get(i..i + 2)?, 16).ok()).collect()
}

// ------------------------------------------------------------------------------------------------
// documents
// ------------------------------------------------------------------------------------------------

const WORDS: &[&str] = &["", "a", "kefir", "hello world", "é", "日本語", "\"quoted\"", "line\nbreak", "\u{0}", "😀", "asc", "true", "12"];

fn word(r: &mut Rng) -> String {
    r.pick(WORDS).to_string()
}

/// any JSON value, depth-bounded
pub fn any_value(r: &mut Rng, depth: u32) -> Value {
    let n = if depth == 0 { 6 } else { 8 };
    match r.below(n) {
        0 => Value::Null,
        1 => json!(r.chance(1, 2)),
        2 => json!(r.range(-300, 70000)),
        3 => json!((r.range(-5000, 5000) as f64) / 8.0),
        4 => json!(word(r)),
        5 => json!(r.next()),
        6 => Value::Array((0..r.below(4)).map(|_| any_value(r, depth - 1)).collect()),
        _ => {
            let mut m = Map::new();
            for _ in 0..r.below(4) {
                m.insert(word(r), any_value(r, depth - 1));
            }
            Value::Object(m)
        }
    }
}

pub fn valid_doc(target: &str, r: &mut Rng) -> Value {
    match target {
        "Doc" => {
            let mut m = Map::new();
            m.insert("smallNum".into(), json!(r.below(256)));
            m.insert("displayName".into(), json!(word(r)));
            if r.chance(2, 3) {
                m.insert("isActive".into(), if r.chance(1, 4) { Value::Null } else { json!(r.chance(1, 2)) });
            }
            if r.chance(2, 3) {
                let n = r.below(5);
                m.insert("deltas".into(), Value::Array((0..n).map(|_| json!(r.range(-32768, 32767))).collect()));
            }
            m.insert(
                "geoPoint".into(),
                json!({"lat": r.range(-2147483648, 2147483647), "lng": (r.range(-1800000, 1800000) as f64) / 10000.0}),
            );
            if r.chance(2, 3) {
                m.insert("sortOrder".into(), json!(*r.pick(&["asc", "desc", "byRelevance"])));
            }
            Value::Object(m)
        }
        "Shape" => match r.below(3) {
            0 => json!({"type": "empty"}),
            1 => json!({"type": "circle", "radius": r.below(65536)}),
            _ => {
                let mut m = Map::new();
                m.insert("type".into(), json!("rect"));
                m.insert("w".into(), json!(r.below(256)));
                m.insert("h".into(), json!(r.below(256)));
                if r.chance(1, 2) {
                    m.insert("label".into(), if r.chance(1, 3) { Value::Null } else { json!(word(r)) });
                }
                Value::Object(m)
            }
        },
        "VecU8" => Value::Array((0..r.below(7)).map(|_| json!(r.below(256))).collect()),
        _ => any_value(r, 3),
    }
}

/// every path to a node of `v`
fn paths(v: &Value, cur: &mut Vec<String>, out: &mut Vec<Vec<String>>) {
    out.push(cur.clone());
    match v {
        Value::Array(a) => {
            for (i, x) in a.iter().enumerate() {
                cur.push(i.to_string());
                paths(x, cur, out);
                cur.pop();
            }
        }
        Value::Object(m) => {
            for (k, x) in m {
                cur.push(k.clone());
                paths(x, cur, out);
                cur.pop();
            }
        }
        _ => {}
    }
}

fn node<'a>(v: &'a Value, path: &[String]) -> &'a Value {
    let mut cur = v;
    for p in path {
        cur = match cur {
            Value::Array(a) => &a[p.parse::<usize>().unwrap()],
            Value::Object(m) => m.get(p).unwrap(),
            _ => unreachable!(),
        };
    }
    cur
}

fn node_mut<'a>(v: &'a mut Value, path: &[String]) -> &'a mut Value {
    let mut cur = v;
    for p in path {
        cur = match cur {
            Value::Array(a) => &mut a[p.parse::<usize>().unwrap()],
            Value::Object(m) => m.get_mut(p).unwrap(),
            _ => unreachable!(),
        };
    }
    cur
}

fn wrong_kind(old: &Value, r: &mut Rng) -> Value {
    let cands = [
        Value::Null,
        json!(true),
        json!(-1),
        json!(256),
        json!(65536),
        json!(1.5),
        json!(1.0),
        json!("x"),
        json!("ASC"),
        json!("1"),
        json!([]),
        json!([1, "a"]),
        json!({}),
        json!({"a": 1}),
        json!(4294967296u64),
        json!(-2147483649i64),
        json!(18446744073709551615u64),
        json!(40000),
        json!(-40000),
    ];
    for _ in 0..8 {
        let c = r.pick(&cands).clone();
        if &c != old {
            return c;
        }
    }
    json!("x")
}

/// a document that is well-formed JSON but (most likely) not a valid `target`
pub fn illtyped_doc(target: &str, r: &mut Rng) -> (Value, &'static str) {
    let mut v = valid_doc(if target == "Value" { "Doc" } else { target }, r);
    // a rejection whose message is long (the offending value is quoted in it): 9..40 KiB
    if r.chance(1, 25) {
        let n = 2000 + r.below(6000);
        let big = match r.below(3) {
            0 => Value::Array((0..n).map(|i| json!(i)).collect()),
            1 => Value::String("x".repeat(5 * n)),
            _ => {
                let mut m = serde_json::Map::new();
                m.insert("k".repeat(5 * n), json!(1));
                Value::Object(m)
            }
        };
        // at the root when that is a wrong kind for the target, otherwise under an unknown key / wrong member
        let root_ok = matches!((&v, &big), (Value::Array(_), Value::Array(_)) | (Value::Object(_), Value::Object(_)));
        if !root_ok {
            return (big, "huge_offender");
        }
        match &mut v {
            Value::Array(a) => a.push(Value::String("y".repeat(5 * n))),
            Value::Object(m) => {
                if let Some(k) = m.keys().next().cloned() {
                    m.insert(k, Value::Array((0..n).map(|i| json!([i])).collect()));
                }
            }
            _ => {}
        }
        return (v, "huge_offender");
    }
    let nmut = 1 + r.below(3);
    let mut label = "wrong_kind";
    for _ in 0..nmut {
        let mut all = vec![];
        paths(&v, &mut vec![], &mut all);
        let p = r.pick(&all).clone();
        match r.below(6) {
            0 | 1 => {
                let n = node_mut(&mut v, &p);
                *n = wrong_kind(n, r);
                label = "wrong_kind";
            }
            2 => {
                // remove a key / element
                let objs: Vec<_> = all.iter().filter(|q| matches!(node(&v, q), Value::Object(m) if !m.is_empty())).cloned().collect();
                if let Some(q) = objs.get(r.below(objs.len().max(1))) {
                    if let Value::Object(m) = node_mut(&mut v, q) {
                        let keys: Vec<String> = m.keys().cloned().collect();
                        m.remove(r.pick(&keys));
                        label = "missing_field";
                    }
                } else {
                    v = wrong_kind(&v, r);
                }
            }
            3 => {
                // unknown key
                let objs: Vec<_> = all.iter().filter(|q| matches!(node(&v, q), Value::Object(_))).cloned().collect();
                if let Some(q) = objs.get(r.below(objs.len().max(1))) {
                    if let Value::Object(m) = node_mut(&mut v, q) {
                        let k = *r.pick(&["smallnum", "small_num", "extra", "radius2", "Type", "", "latt"]);
                        m.insert(k.to_string(), any_value(r, 1));
                        label = "unknown_key";
                    }
                } else {
                    v = json!({"extra": 1});
                }
            }
            4 => {
                // bad tag / bad enum value / out of range
                if let Value::Object(m) = &mut v {
                    if m.contains_key("type") {
                        m.insert("type".into(), r.pick(&[json!("square"), json!("Circle"), json!(1), Value::Null]).clone());
                        label = "bad_tag";
                    } else if m.contains_key("sortOrder") {
                        m.insert("sortOrder".into(), json!(*r.pick(&["ascending", "Asc", "by_relevance", ""])));
                        label = "bad_enum";
                    } else if m.contains_key("smallNum") {
                        m.insert("smallNum".into(), json!(r.range(256, 100000)));
                        label = "out_of_range";
                    }
                } else if let Value::Array(a) = &mut v {
                    a.push(json!(r.range(256, 70000)));
                    label = "out_of_range";
                }
            }
            _ => {
                // replace the root
                v = wrong_kind(&v, r);
                label = "wrong_root";
            }
        }
    }
    (v, label)
}

fn serialize(v: &Value, r: &mut Rng) -> Vec<u8> {
    match r.below(6) {
        0 => serde_json::to_vec_pretty(v).unwrap(),
        1 => {
            let mut b = b" \n\t".to_vec();
            b.extend(serde_json::to_vec(v).unwrap());
            b.extend(b"\r\n ");
            b
        }
        _ => serde_json::to_vec(v).unwrap(),
    }
}

fn pb(r: &mut Rng, xs: &[&'static [u8]]) -> &'static [u8] {
    xs[r.below(xs.len())]
}

/// malformed bodies derived from a well-formed one
fn malformed(base: &[u8], r: &mut Rng) -> (Vec<u8>, &'static str) {
    match r.below(16) {
        0 => {
            let cut = if base.len() > 1 { 1 + r.below(base.len() - 1) } else { 0 };
            (base[..cut].to_vec(), "truncated")
        }
        1 => {
            let mut b = base.to_vec();
            b.extend_from_slice(pb(r, &[b"x", b"}", b" {}", b",", b"]", b" null", b"\0", b"//c"]));
            (b, "trailing_garbage")
        }
        2 => (pb(r, &[b"nul", b"True", b"NaN", b"undefined", b"Infinity", b"-", b"nulll", b"tru", b"'a'"]).to_vec(), "bare_word"),
        3 => (
            pb(r, &[br#""\q""#, br#""\ud800""#, br#""\u12""#, br#"{"a":"\x41"}"#, br#"["\udc00\ud800"]"#, b"\"tab\there\"", b"\"nl\n\""]).to_vec(),
            "invalid_escape",
        ),
        4 => {
            // non-UTF8 bytes inside or outside a string
            let mut b = base.to_vec();
            let at = r.below(b.len() + 1);
            let bad: &[u8] = pb(r, &[b"\xff", b"\xc3\x28", b"\xe2\x82", b"\xf0\x28\x8c\xbc", b"\xed\xa0\x80"]);
            for (i, x) in bad.iter().enumerate() {
                b.insert(at + i, *x);
            }
            (b, "non_utf8")
        }
        5 => (br#"["#.iter().chain(b"\"\xff\xfe\"").chain(b"]").copied().collect(), "non_utf8"),
        6 => (vec![], "empty"),
        7 => (pb(r, &[b" ", b"\n", b"\t \r\n", b"    "]).to_vec(), "whitespace_only"),
        8 => {
            let n = *r.pick(&[100usize, 126, 127, 128, 129, 200, 1000]);
            let open = if r.chance(1, 2) { "[" } else { "{\"a\":" };
            let close = if open == "[" { "]" } else { "}" };
            let mut b = Vec::new();
            for _ in 0..n {
                b.extend_from_slice(open.as_bytes());
            }
            if open != "[" {
                b.extend_from_slice(b"1");
            }
            for _ in 0..n {
                b.extend_from_slice(close.as_bytes());
            }
            (b, "deep_nesting")
        }
        9 => {
            let mut b = b"\xef\xbb\xbf".to_vec();
            b.extend_from_slice(base);
            (b, "bom")
        }
        10 => (
            pb(r, &[b"1e400", b"[1e400]", b"-1e400", b"01", b"1.", b".5", b"+1", b"0x10", b"1e", b"[1,]", b"{\"a\":1,}", b"{a:1}", b"{\"a\" 1}", b"[1 2]"]).to_vec(),
            "bad_number_or_punct",
        ),
        11 => {
            let mut b = base.to_vec();
            if !b.is_empty() {
                let at = r.below(b.len());
                b[at] = *r.pick(&[b'"', b'{', b'}', b'[', b']', b',', b':', b'\\', 0u8, b'x']);
            }
            (b, "byte_flip")
        }
        12 => {
            let mut b = base.to_vec();
            b.extend_from_slice(base);
            (b, "two_documents")
        }
        13 => (b"{\"a\":1}{\"a\":2}".to_vec(), "two_documents"),
        14 => (b"\"unterminated".to_vec(), "truncated"),
        _ => (b"/* c */ {}".to_vec(), "comment"),
    }
}

/// well-formed JSON with peculiarities that the parser resolves (and the extractor must not resolve differently)
fn peculiar(target: &str, r: &mut Rng) -> (Vec<u8>, &'static str) {
    match r.below(6) {
        0 => match target {
            "Shape" => (br#"{"type":"circle","radius":1,"radius":2}"#.to_vec(), "duplicate_keys"),
            "Doc" => (
                br#"{"smallNum":1,"smallNum":300,"displayName":"a","geoPoint":{"lat":1,"lng":1,"lat":2}}"#.to_vec(),
                "duplicate_keys",
            ),
            "VecU8" => (b"[1,2,3]".to_vec(), "valid"),
            _ => (br#"{"a":1,"a":{"a":2,"a":3}}"#.to_vec(), "duplicate_keys"),
        },
        1 => match target {
            "VecU8" => (b"[1.0, 2]".to_vec(), "float_for_int"),
            "Shape" => (br#"{"type":"circle","radius":1.0}"#.to_vec(), "float_for_int"),
            "Doc" => (br#"{"smallNum":1e2,"displayName":"a","geoPoint":{"lat":1,"lng":1}}"#.to_vec(), "float_for_int"),
            _ => (b"[1.0, 1e2, -0, -0.0, 1E+2]".to_vec(), "number_forms"),
        },
        2 => match target {
            "VecU8" => (b"[18446744073709551616]".to_vec(), "big_number"),
            "Shape" => (br#"{"type":"circle","radius":18446744073709551616}"#.to_vec(), "big_number"),
            "Doc" => (
                br#"{"smallNum":0,"displayName":"a","geoPoint":{"lat":-9223372036854775809,"lng":1e308}}"#.to_vec(),
                "big_number",
            ),
            _ => (b"[18446744073709551615,18446744073709551616,-9223372036854775808,-9223372036854775809,1e308]".to_vec(), "big_number"),
        },
        3 => match target {
            "Doc" => (
                "{\"smallNum\":7,\"displayName\":\"\\u00e9\\ud83d\\ude00\\u0000\\/\",\"geoPoint\":{\"lat\":0,\"lng\":-0.0}}".as_bytes().to_vec(),
                "escapes",
            ),
            "Shape" => (br#"{"type":"rect","w":1,"h":2,"label":"\t"}"#.to_vec(), "escapes"),
            "VecU8" => (b"[ 0 ,\n255\t]".to_vec(), "valid"),
            _ => (r#"{"\u0000":"😀","":""}"#.as_bytes().to_vec(), "escapes"),
        },
        4 => {
            // nesting below serde_json's recursion limit: the framework accepts, deserr sees a deep document
            let n = *r.pick(&[10usize, 60, 120, 126]);
            let mut b = vec![b'['; n];
            b.extend(vec![b']'; n]);
            (b, "deep_but_legal")
        }
        _ => match target {
            "Doc" => (br#"{"smallNum":null,"displayName":null,"isActive":null,"deltas":null,"geoPoint":null,"sortOrder":null}"#.to_vec(), "nulls"),
            "Shape" => (br#"{"type":null}"#.to_vec(), "nulls"),
            _ => (b"null".to_vec(), "nulls"),
        },
    }
}

const CONTENT_TYPES_JSON: &[&[u8]] = &[
    b"application/json",
    b"application/json; charset=utf-8",
    b"application/json;charset=UTF-8",
    b"application/vnd.api+json",
    b"APPLICATION/JSON",
    b"application/problem+json; q=1",
];
const CONTENT_TYPES_OTHER: &[&[u8]] = &[
    b"text/plain",
    b"text/plain; charset=utf-8",
    b"text/json",
    b"application/jsonx",
    b"application/x-www-form-urlencoded",
    b"application/json+foo",
    b"application/",
    b"json",
    b"",
    b" application/json",
    b"application/json ",
    b"application/json, text/plain",
    b"application / json",
    b"\xff\xfe",
    b"application/json; charset=\xe9",
    b"*/*",
    b"application/*+json",
    b"multipart/form-data; boundary=x",
];

pub fn gen_json_req(target: &str, r: &mut Rng) -> JsonReq {
    // body
    let (mut prefix, mut class): (Vec<u8>, String) = match r.below(100) {
        0..=29 => (serialize(&valid_doc(target, r), r), "valid".into()),
        30..=59 => {
            let (v, l) = illtyped_doc(target, r);
            (serialize(&v, r), format!("illtyped:{l}"))
        }
        60..=69 => {
            let (b, l) = peculiar(target, r);
            (b, if l == "valid" { "valid".into() } else { format!("peculiar:{l}") })
        }
        70..=74 => {
            // a document valid for another target
            let other = *r.pick(JSON_TARGETS);
            (serialize(&valid_doc(other, r), r), format!("valid_for:{other}"))
        }
        _ => {
            let base = serialize(&valid_doc(target, r), r);
            let (b, l) = malformed(&base, r);
            (b, format!("malformed:{l}"))
        }
    };
    let mut pad = 0usize;
    let mut suffix = vec![];
    let mut cfg = Cfg::Default;
    let mut content_length = None;

    // content type: mostly acceptable ones so that the body matters
    let content_type: Option<Vec<u8>> = match r.below(100) {
        0..=64 => Some(r.pick(CONTENT_TYPES_JSON).to_vec()),
        65..=89 => Some(r.pick(CONTENT_TYPES_OTHER).to_vec()),
        _ => None,
    };

    // size / limit / configuration dimension
    match r.below(400) {
        0 => {
            // just above the default limit, whitespace padded (cheap to build, never parsed)
            pad = DEFAULT_LIMIT + 1 - prefix.len().min(DEFAULT_LIMIT);
            class = "oversize:default_limit+1".into();
        }
        1 => {
            // exactly at the default limit: must still be accepted by the size check
            if prefix.len() < DEFAULT_LIMIT {
                pad = DEFAULT_LIMIT - prefix.len();
                class = format!("at_limit:{class}");
            }
        }
        2..=29 => {
            let n = *r.pick(&[0usize, 1, 2, 8, 16, 32, 64]);
            cfg = Cfg::Limit(n);
        }
        30..=37 => {
            // limit exactly at / one below the body length
            let n = prefix.len();
            cfg = Cfg::Limit(if r.chance(1, 2) { n } else { n.saturating_sub(1) });
        }
        38..=57 => cfg = Cfg::AlsoTextPlain,
        58..=77 => cfg = Cfg::CtypeNotRequired,
        78..=97 => cfg = Cfg::Handler418,
        _ => {}
    }
    // Content-Length header: true (a normal client), absent (chunked transfer), lying, unparsable
    match r.below(20) {
        0..=9 => content_length = Some((prefix.len() + pad).to_string()),
        10 => content_length = Some("99999999".into()),
        11 => content_length = Some(r.pick(&["abc", "-1", "", "1, 2", "0", "1"]).to_string()),
        _ => {}
    }
    // transport: one piece, several pieces, cut connection
    let chunks = if r.chance(1, 4) { 2 + r.below(6) } else { 1 };
    let fail = r.chance(1, 40);
    if fail {
        class = format!("transport_cut:{}", class.split(':').next().unwrap_or(""));
    }
    if r.chance(1, 200) {
        // suffix after the padding
        suffix = std::mem::take(&mut prefix);
        prefix = b" ".to_vec();
    }
    let method = if r.chance(9, 10) { "POST" } else { *r.pick(&["PUT", "PATCH"]) };
    JsonReq { method, content_type, content_length, prefix, pad, suffix, cfg, chunks, fail, class }
}

// ------------------------------------------------------------------------------------------------
// query strings
// ------------------------------------------------------------------------------------------------

const Q_KEYS_VALID: &[&str] = &["q", "filter", "limit", "offset", "sortBy"];
const Q_KEYS_ODD: &[&str] = &["sort_by", "Q", "unknown", "", " q", "q[]", "q.a", "q%5B%5D", "%71", "li+mit", "é", "日本", "limit%00"];
const Q_STR_VALUES: &[&str] = &[
    "kefir", "", "hello%20world", "hello+world", "a%2Bb", "%E9", "%E9%", "%C3%A9", "%00", "%", "%2", "%zz", "%26x%3Dy", "é", "日本語",
    "a=b", "1", "true", "null", "[1]", "{\"a\":1}", "%F0%9F%98%80", "😀", "a%0Ab", " ", "+", "%2520",
];
const Q_NUM_VALUES: &[&str] = &[
    "0", "1", "20", "4294967295", "4294967296", "-1", "-9223372036854775808", "9223372036854775808", "1.5", "1e3", "", "+5", "%31%32", "1+",
    " 7", "7%20", "0x10", "١٢", "abc", "00012",
];

fn q_pair(r: &mut Rng, valid: bool) -> String {
    let key = if valid || r.chance(1, 2) { *r.pick(Q_KEYS_VALID) } else { *r.pick(Q_KEYS_ODD) };
    let numeric = key == "limit" || key == "offset";
    let val = if numeric {
        if valid {
            if key == "limit" {
                r.below(100000).to_string()
            } else {
                r.range(-100000, 100000).to_string()
            }
        } else {
            r.pick(Q_NUM_VALUES).to_string()
        }
    } else if valid {
        r.pick(&["kefir", "hello%20world", "hello+world", "%C3%A9", "a%2Bb", "x", "日本語"]).to_string()
    } else {
        r.pick(Q_STR_VALUES).to_string()
    };
    format!("{key}={val}")
}

pub const EDGE_PREFIXES: &[&str] = &["?", "??", "&", "&&", "=", "==", ";", "#", "%3F", "+", " ", "%20", "%26", "?&", "&?", "?=", "/", "\u{feff}"];
pub const EDGE_SUFFIXES: &[&str] = &["?", "??", "&", "&&", "=", "==", ";", "#", "#x", "%3F", "+", " ", "?=", "&?", "&=", "%"];

/// Delimiters at the edges: an otherwise ordinary query string with `?`, `&`, `=`, `;`, `#`, ... put first, last or
/// doubled in the middle. The extractor must see exactly the keys and values the framework's own decoder sees.
fn edges(r: &mut Rng) -> String {
    let n = 1 + r.below(2);
    let mut parts: Vec<String> = (0..n)
        .map(|_| {
            let valid = r.chance(3, 4);
            q_pair(r, valid)
        })
        .collect();
    if !parts.iter().any(|p| p.starts_with("q=")) && r.chance(2, 3) {
        parts.insert(0, format!("q={}", r.pick(&["kefir", "x", "a+b"])));
    }
    let mut s = parts.join("&");
    let ops = 1 + r.below(2);
    for _ in 0..ops {
        match r.below(5) {
            0 | 1 => s = format!("{}{}", r.pick(EDGE_PREFIXES), s),
            2 => {
                let suffix: &'static str = EDGE_SUFFIXES[r.below(EDGE_SUFFIXES.len())];
                s.push_str(suffix);
            }
            3 => {
                // double / replace the first pair separator
                let with = *r.pick(&["&&", "&?", "?", ";", "&;", "&=&", "&#", "?&", "&%26"]);
                s = if s.contains('&') { s.replacen('&', with, 1) } else { format!("{s}{with}limit=3") };
            }
            _ => {
                let with = *r.pick(&["==", "=?", "?=", "=&", "=;", "%3D", "=="]);
                s = s.replacen('=', with, 1);
            }
        }
    }
    s
}

pub fn gen_query_req(r: &mut Rng) -> QueryReq {
    let (query, class): (String, &str) = match r.below(100) {
        0..=24 => {
            // valid for Search: q plus distinct optional parameters
            let mut parts = vec![format!("q={}", r.pick(&["kefir", "hello%20world", "a+b", "%C3%A9", "", "x%26y"]))];
            for k in ["filter", "limit", "offset", "sortBy"] {
                if r.chance(1, 2) {
                    let v = match k {
                        "limit" => r.below(100000).to_string(),
                        "offset" => r.range(-1000, 1000).to_string(),
                        _ => r.pick(&["a", "b%20c", "price%3Aasc", "+", "é"]).to_string(),
                    };
                    parts.push(format!("{k}={v}"));
                }
            }
            r.shuffle(&mut parts);
            (parts.join("&"), "valid")
        }
        25..=44 => {
            let n = 1 + r.below(4);
            let parts: Vec<String> = (0..n).map(|_| q_pair(r, false)).collect();
            (parts.join("&"), "illtyped")
        }
        45..=59 => {
            // repeated parameters
            let k = *r.pick(Q_KEYS_VALID);
            let n = 2 + r.below(3);
            let mut parts: Vec<String> = (0..n)
                .map(|i| {
                    let v = if k == "limit" || k == "offset" { (i * 7 + r.below(5)).to_string() } else { format!("v{}", i + r.below(3)) };
                    format!("{k}={v}")
                })
                .collect();
            if k != "q" && r.chance(2, 3) {
                parts.push("q=x".into());
            }
            if r.chance(1, 3) {
                parts.push(q_pair(r, true));
            }
            r.shuffle(&mut parts);
            (parts.join("&"), "repeated")
        }
        60..=74 => {
            // structural noise
            let mut parts: Vec<String> = (0..1 + r.below(3))
                .map(|_| {
                    let valid = r.chance(1, 2);
                    q_pair(r, valid)
                })
                .collect();
            let noise = *r.pick(&["", "&", "&&", "q", "=v", "=", "q=a=b", "q==", "a;b=c", "#frag", "?q=1", "q=1#x", "&=&", "q&filter"]);
            let at = r.below(parts.len() + 1);
            parts.insert(at, noise.to_string());
            let s = parts.join("&");
            (s, "noise")
        }
        75..=79 => (r.pick(&["", "&", "&&", "=", "q", "q=", "%", "%00", "+", "#", "?"]).to_string(), "degenerate"),
        80..=89 => {
            let n = 1 + r.below(3);
            let parts: Vec<String> = (0..n).map(|_| format!("{}={}", r.pick(Q_KEYS_VALID), r.pick(Q_STR_VALUES))).collect();
            (parts.join("&"), "percent_and_unicode")
        }
        90..=93 => {
            // many parameters
            let n = 20 + r.below(200);
            let parts: Vec<String> = (0..n).map(|i| format!("k{}={}", i % 37, i)).collect();
            (parts.join("&"), "many")
        }
        _ => (edges(r), "edges"),
    };
    let via = match r.below(5) {
        0 | 1 => "from_query",
        2 | 3 => "from_request",
        _ => "from_request_rewritten",
    };
    QueryReq { query, via, class: class.to_string() }
}
