//! Executes one request through the framework's own extractor (oracle) and through the deserr extractor (subject),
//! and compares the two outcomes.
use std::fmt::Debug;
use std::panic::{catch_unwind, AssertUnwindSafe};

use actix_web::FromRequest as _;
use axum::extract::FromRequest as _;
use axum::response::IntoResponse as _;
use deserr::Deserr;

/// Drives a future to completion on this thread. Everything the extractors wait for is in memory, so a `Pending` that
/// did not arrange its own wake-up can never be followed by progress: that is reported (as a panic of the call, which
/// `guarded` turns into an outcome) instead of parking the thread forever. The bound is logical, not a timeout.
fn block_on<F: std::future::Future>(f: F) -> F::Output {
    use std::sync::atomic::{AtomicBool, Ordering};
    struct Flag(AtomicBool);
    impl std::task::Wake for Flag {
        fn wake(self: std::sync::Arc<Self>) {
            self.0.store(true, Ordering::SeqCst);
        }
        fn wake_by_ref(self: &std::sync::Arc<Self>) {
            self.0.store(true, Ordering::SeqCst);
        }
    }
    let flag = std::sync::Arc::new(Flag(AtomicBool::new(false)));
    let waker = std::task::Waker::from(flag.clone());
    let mut cx = std::task::Context::from_waker(&waker);
    let mut f = std::pin::pin!(f);
    for _ in 0..1_000_000u32 {
        flag.0.store(false, Ordering::SeqCst);
        match f.as_mut().poll(&mut cx) {
            std::task::Poll::Ready(v) => return v,
            std::task::Poll::Pending => {
                if !flag.0.load(Ordering::SeqCst) {
                    panic!("the future returned Pending without arranging a wake-up: it never completes");
                }
            }
        }
    }
    panic!("the future did not complete within 1000000 polls");
}
use serde_json::{json, Value};

use crate::gen::{hex, Cfg, JsonReq, QueryReq};
use crate::types::Expect;

/// A rejection as a client (and a caller) would see it.
#[derive(Clone, Debug, PartialEq)]
pub struct Rej {
    /// which error object is inside: "JsonPayloadError", "deserr:E422", "JsonRejection::JsonSyntaxError", ...
    pub origin: String,
    pub status: u16,
    /// actix: `ResponseError::status_code()` (independent of `error_response()`)
    pub rs_status: Option<u16>,
    pub ctype: Option<String>,
    pub body: Vec<u8>,
    pub display: String,
}

impl Rej {
    fn to_json(&self) -> Value {
        let mut body = String::from_utf8_lossy(&self.body).to_string();
        if body.len() > 600 {
            let mut cut = 600;
            while !body.is_char_boundary(cut) {
                cut -= 1;
            }
            body.truncate(cut);
            body.push('…');
        }
        json!({
            "rejected": {
                "origin": self.origin, "status": self.status, "status_code()": self.rs_status,
                "content_type": self.ctype, "body": body, "display": self.display,
            }
        })
    }
}

pub enum Exp<T, E> {
    FwReject(Rej),
    Accept(T),
    DeserrReject(E),
    OraclePanic(String),
}

pub enum Got<T, E> {
    Accept(T),
    Reject { rej: Rej, carried: Option<E> },
    Panic(String),
}

pub struct PairResult {
    pub framework: &'static str,
    pub expected: Value,
    pub observed: Value,
    /// "fw_reject.<status>" | "deserr_reject.<E>" | "accepted_default" | "accepted_nondefault"
    pub outcome_class: String,
    pub shape: String,
    pub nontrivial: bool,
    /// (what differs, detail); empty = agreement
    pub diffs: Vec<(String, String)>,
    pub oracle_panic: Option<String>,
}

fn trunc(s: String) -> String {
    if s.chars().count() > 400 {
        s.chars().take(400).collect::<String>() + "…"
    } else {
        s
    }
}

fn compare<T: Debug + PartialEq + Default, E: Expect>(framework: &'static str, exp: Exp<T, E>, got: Got<T, E>) -> PairResult {
    let mut diffs: Vec<(String, String)> = vec![];
    let mut oracle_panic = None;
    let (expected, outcome_class, shape, nontrivial) = match &exp {
        Exp::FwReject(r) => {
            let shape: String = r.display.chars().filter(|c| !c.is_ascii_digit()).take(60).collect();
            (json!({"framework_rejects": r.to_json()}), format!("fw_reject.{}", r.status), format!("{}|{}", r.origin, shape), true)
        }
        Exp::Accept(x) => {
            let nd = *x != T::default();
            (
                json!({"accepted": trunc(format!("{x:?}"))}),
                if nd { "accepted_nondefault".to_string() } else { "accepted_default".to_string() },
                String::new(),
                nd,
            )
        }
        Exp::DeserrReject(e) => (
            json!({"deserr_rejects": {
                "error_type": E::NAME, "error": trunc(format!("{e:?}")),
                "status": e.expected_status(), "content_type_prefix": e.expected_content_type(),
                "body": String::from_utf8_lossy(&e.expected_body()),
            }}),
            format!("deserr_reject.{}", E::NAME),
            e.shape(),
            true,
        ),
        Exp::OraclePanic(m) => {
            oracle_panic = Some(m.clone());
            (json!({"oracle_panicked": m}), "oracle_panic".to_string(), String::new(), false)
        }
    };
    let observed = match &got {
        Got::Accept(y) => json!({"accepted": trunc(format!("{y:?}"))}),
        Got::Reject { rej, carried } => {
            let mut v = rej.to_json();
            v["carried_deserr_error"] = json!(carried.as_ref().map(|c| trunc(format!("{c:?}"))));
            v
        }
        Got::Panic(m) => json!({"panicked": m}),
    };

    let mut d = |what: &str, detail: String| diffs.push((what.to_string(), detail));
    match (&exp, &got) {
        (Exp::OraclePanic(_), _) => {}
        (_, Got::Panic(m)) => d("panic", m.clone()),
        (Exp::FwReject(_), Got::Accept(_)) => d("accepted-a-framework-rejection", String::new()),
        (Exp::DeserrReject(_), Got::Accept(_)) => d("accepted-a-deserr-error", String::new()),
        (Exp::Accept(_), Got::Reject { rej, .. }) => d("rejected-a-valid-document", format!("status {}", rej.status)),
        (Exp::Accept(x), Got::Accept(y)) => {
            if x != y {
                d("value", format!("{x:?} vs {y:?}"));
            }
        }
        (Exp::FwReject(x), Got::Reject { rej: y, carried }) => {
            if carried.is_some() || x.origin != y.origin {
                d("framework-rejection-replaced", format!("{} vs {}", x.origin, y.origin));
            }
            if x.status != y.status || x.rs_status != y.rs_status {
                d("framework-rejection-status", format!("{}/{:?} vs {}/{:?}", x.status, x.rs_status, y.status, y.rs_status));
            }
            if x.ctype != y.ctype {
                d("framework-rejection-content-type", format!("{:?} vs {:?}", x.ctype, y.ctype));
            }
            if x.body != y.body {
                d("framework-rejection-body", String::new());
            }
            if x.display != y.display {
                d("framework-rejection-display", format!("{:?} vs {:?}", x.display, y.display));
            }
        }
        (Exp::DeserrReject(e), Got::Reject { rej: y, carried }) => {
            match carried {
                None => d("deserr-error-not-carried", format!("rejection holds {}", y.origin)),
                Some(c) if c != e => d("deserr-error-altered", format!("{e:?} vs {c:?}")),
                _ => {}
            }
            if y.status != e.expected_status() || y.rs_status.is_some_and(|s| s != e.expected_status()) {
                d("deserr-rejection-status", format!("{} vs {}/{:?}", e.expected_status(), y.status, y.rs_status));
            }
            if !y.ctype.as_deref().is_some_and(|c| c.starts_with(e.expected_content_type())) {
                d("deserr-rejection-content-type", format!("{} vs {:?}", e.expected_content_type(), y.ctype));
            }
            if y.body != e.expected_body() {
                d("deserr-rejection-body", String::new());
            }
            if y.display != e.to_string() {
                d("deserr-rejection-display", format!("{:?} vs {:?}", e.to_string(), y.display));
            }
        }
    }
    PairResult { framework, expected, observed, outcome_class, shape, nontrivial, diffs, oracle_panic }
}

/// A transport that is not ready at once: `Pending` (with an immediate wake-up) before every item, as a socket
/// on which the next piece has not arrived yet.
struct Stutter<S> {
    inner: S,
    pend: bool,
}
impl<S: futures::Stream + Unpin> futures::Stream for Stutter<S> {
    type Item = S::Item;
    fn poll_next(mut self: std::pin::Pin<&mut Self>, cx: &mut std::task::Context<'_>) -> std::task::Poll<Option<S::Item>> {
        if self.pend {
            self.pend = false;
            cx.waker().wake_by_ref();
            return std::task::Poll::Pending;
        }
        self.pend = true;
        std::pin::Pin::new(&mut self.inner).poll_next(cx)
    }
}
/// pieces arrive late for every request delivered in an even number of pieces
fn stutters(r: &JsonReq) -> bool {
    r.chunks >= 2 && r.chunks % 2 == 0
}

fn guarded<R>(f: impl FnOnce() -> R) -> Result<R, String> {
    catch_unwind(AssertUnwindSafe(f)).map_err(|e| vcore::evidence::panic_text(&e))
}

// ------------------------------------------------------------------------------------------------
// actix
// ------------------------------------------------------------------------------------------------

fn actix_rej<E: Expect>(e: &actix_web::Error) -> (Rej, Option<E>) {
    use actix_web::body::MessageBody;
    let carried: Option<E> = e.as_error::<E>().cloned();
    let origin = if carried.is_some() {
        format!("deserr:{}", E::NAME)
    } else if let Some(j) = e.as_error::<actix_web::error::JsonPayloadError>() {
        let dbg = format!("{j:?}");
        format!("JsonPayloadError::{}", dbg.split(|c: char| !c.is_alphanumeric()).next().unwrap_or(""))
    } else if e.as_error::<actix_web::error::QueryPayloadError>().is_some() {
        "QueryPayloadError".to_string()
    } else if e.as_error::<deserr::errors::JsonError>().is_some() {
        "deserr:JsonError".to_string()
    } else {
        let dbg = format!("{e:?}");
        format!("other:{}", dbg.chars().take(40).collect::<String>())
    };
    let rs_status = Some(e.as_response_error().status_code().as_u16());
    let resp = e.error_response();
    let status = resp.status().as_u16();
    let ctype = resp
        .headers()
        .get(actix_web::http::header::CONTENT_TYPE)
        .map(|v| String::from_utf8_lossy(v.as_bytes()).to_string());
    let body = match resp.into_body().try_into_bytes() {
        Ok(b) => b.to_vec(),
        Err(b) => block_on(actix_web::body::to_bytes(b)).map(|b| b.to_vec()).unwrap_or_else(|_| b"<body error>".to_vec()),
    };
    (Rej { origin, status, rs_status, ctype, body, display: e.to_string() }, carried)
}

fn actix_parts(r: &JsonReq) -> (actix_web::HttpRequest, actix_web::dev::Payload) {
    use actix_web::http::header::{HeaderValue, CONTENT_LENGTH, CONTENT_TYPE};
    use actix_web::web::JsonConfig;
    let mut t = actix_web::test::TestRequest::default()
        .method(actix_web::http::Method::from_bytes(r.method.as_bytes()).unwrap())
        .uri("/doc");
    if let Some(ct) = &r.content_type {
        t = t.insert_header((CONTENT_TYPE, HeaderValue::from_bytes(ct).expect("generator: header value")));
    }
    if let Some(cl) = &r.content_length {
        t = t.insert_header((CONTENT_LENGTH, HeaderValue::from_str(cl).expect("generator: header value")));
    }
    match &r.cfg {
        Cfg::Default => {}
        Cfg::Limit(n) => t = t.app_data(JsonConfig::default().limit(*n)),
        Cfg::AlsoTextPlain => t = t.app_data(JsonConfig::default().content_type(|m| m == "text/plain")),
        Cfg::CtypeNotRequired => t = t.app_data(JsonConfig::default().content_type_required(false)),
        Cfg::Handler418 => {
            t = t.app_data(JsonConfig::default().error_handler(|err, _req| {
                actix_web::error::InternalError::new(format!("handled: {err}"), actix_web::http::StatusCode::IM_A_TEAPOT)
                    .into()
            }))
        }
    }
    // `TestRequest::set_payload` would force a Content-Length header; the payload stream is built here instead so
    // that the header is exactly what the request says (present, absent, lying) and the body can arrive in pieces.
    let (req, _none) = t.to_http_parts();
    let mut items: Vec<Result<bytes::Bytes, actix_web::error::PayloadError>> =
        r.pieces().into_iter().map(|c| Ok(bytes::Bytes::from(c))).collect();
    if r.fail {
        items.push(Err(actix_web::error::PayloadError::Incomplete(None)));
    }
    let stream: std::pin::Pin<Box<dyn futures::Stream<Item = Result<bytes::Bytes, actix_web::error::PayloadError>>>> =
        if stutters(r) { Box::pin(Stutter { inner: futures::stream::iter(items), pend: true }) } else { Box::pin(futures::stream::iter(items)) };
    let payload = actix_web::dev::Payload::Stream { payload: stream };
    (req, payload)
}

pub fn actix_json<T, E>(r: &JsonReq) -> PairResult
where
    T: Deserr<E> + Debug + PartialEq + Default,
    E: Expect,
{
    // oracle: the framework's own extractor on an identical request, then deserr::deserialize
    let exp: Exp<T, E> = match guarded(|| {
        let (req, mut pl) = actix_parts(r);
        match block_on(actix_web::web::Json::<Value>::from_request(&req, &mut pl)) {
            Err(e) => Exp::FwReject(actix_rej::<E>(&e).0),
            Ok(v) => match deserr::deserialize::<T, _, E>(v.into_inner()) {
                Ok(x) => Exp::Accept(x),
                Err(e) => Exp::DeserrReject(e),
            },
        }
    }) {
        Ok(x) => x,
        Err(m) => Exp::OraclePanic(m),
    };
    let got: Got<T, E> = match guarded(|| {
        let (req, mut pl) = actix_parts(r);
        match block_on(deserr::actix_web::AwebJson::<T, E>::from_request(&req, &mut pl)) {
            Ok(x) => Got::Accept(x.into_inner()),
            Err(e) => {
                let (rej, carried) = actix_rej::<E>(&e);
                Got::Reject { rej, carried }
            }
        }
    }) {
        Ok(x) => x,
        Err(m) => Got::Panic(m),
    };
    compare("actix-json", exp, got)
}

/// true when the query string can be put in a request URI as it is
pub fn uri_ok(query: &str) -> bool {
    format!("/search?{query}").parse::<actix_web::http::Uri>().is_ok()
}

pub fn actix_query<T, E>(q: &QueryReq) -> PairResult
where
    T: Deserr<E> + Debug + PartialEq + Default,
    E: Expect,
{
    use actix_web::web::Query;
    use deserr::actix_web::AwebQueryParameter;
    // "from_request_rewritten": the same request object is extracted from twice; in between its URI is rewritten
    // (what a credential-stripping or legacy-parameter middleware does). The extractor must see the request as it is.
    let rewritten = q.via == "from_request_rewritten" && uri_ok(&q.query);
    let through_request = (q.via == "from_request" || rewritten) && uri_ok(&q.query);
    let parts = || actix_web::test::TestRequest::default().uri(&format!("/search?{}", q.query)).to_http_parts();
    const STALE: &str = "/search?q=stale&limit=3&api_key=s3cr3t";
    let rewrite = |srv: &mut actix_web::dev::ServiceRequest| {
        srv.head_mut().uri = format!("/search?{}", q.query).parse().expect("uri_ok was checked");
    };
    let exp: Exp<T, E> = match guarded(|| {
        let res = if rewritten {
            let mut srv = actix_web::test::TestRequest::default().uri(STALE).to_srv_request();
            let _ = block_on(Query::<Value>::from_request(srv.request(), &mut actix_web::dev::Payload::None));
            rewrite(&mut srv);
            block_on(Query::<Value>::from_request(srv.request(), &mut actix_web::dev::Payload::None))
        } else if through_request {
            let (req, mut pl) = parts();
            block_on(Query::<Value>::from_request(&req, &mut pl))
        } else {
            Query::<Value>::from_query(&q.query).map_err(actix_web::Error::from)
        };
        match res {
            Err(e) => Exp::FwReject(actix_rej::<E>(&e).0),
            Ok(v) => match deserr::deserialize::<T, _, E>(v.into_inner()) {
                Ok(x) => Exp::Accept(x),
                Err(e) => Exp::DeserrReject(e),
            },
        }
    }) {
        Ok(x) => x,
        Err(m) => Exp::OraclePanic(m),
    };
    let got: Got<T, E> = match guarded(|| {
        let res = if rewritten {
            let mut srv = actix_web::test::TestRequest::default().uri(STALE).to_srv_request();
            let _ = block_on(AwebQueryParameter::<T, E>::from_request(srv.request(), &mut actix_web::dev::Payload::None));
            rewrite(&mut srv);
            block_on(AwebQueryParameter::<T, E>::from_request(srv.request(), &mut actix_web::dev::Payload::None))
        } else if through_request {
            let (req, mut pl) = parts();
            block_on(AwebQueryParameter::<T, E>::from_request(&req, &mut pl))
        } else {
            AwebQueryParameter::<T, E>::from_query(&q.query)
        };
        match res {
            Ok(x) => Got::Accept(x.into_inner()),
            Err(e) => {
                let (rej, carried) = actix_rej::<E>(&e);
                Got::Reject { rej, carried }
            }
        }
    }) {
        Ok(x) => x,
        Err(m) => Got::Panic(m),
    };
    compare(if rewritten { "actix-query/from_request_rewritten" } else if through_request { "actix-query/from_request" } else { "actix-query/from_query" }, exp, got)
}

// ------------------------------------------------------------------------------------------------
// axum
// ------------------------------------------------------------------------------------------------

fn axum_request(r: &JsonReq) -> axum::extract::Request {
    let mut b = http::Request::builder().method(r.method).uri("/doc");
    if let Some(ct) = &r.content_type {
        b = b.header(http::header::CONTENT_TYPE, http::HeaderValue::from_bytes(ct).expect("generator: header value"));
    }
    if let Some(cl) = &r.content_length {
        b = b.header(http::header::CONTENT_LENGTH, http::HeaderValue::from_str(cl).expect("generator: header value"));
    }
    let body = if r.chunks <= 1 && !r.fail {
        axum::body::Body::from(r.body())
    } else {
        let mut items: Vec<Result<bytes::Bytes, std::io::Error>> = r.pieces().into_iter().map(|c| Ok(bytes::Bytes::from(c))).collect();
        if r.fail {
            items.push(Err(std::io::Error::new(std::io::ErrorKind::UnexpectedEof, "connection cut")));
        }
        if stutters(r) {
            axum::body::Body::from_stream(Stutter { inner: futures::stream::iter(items), pend: true })
        } else {
            axum::body::Body::from_stream(futures::stream::iter(items))
        }
    };
    let mut req = b.body(body).expect("generator: request");
    if let Cfg::Limit(n) = r.cfg {
        axum::extract::DefaultBodyLimit::max(n).apply(&mut req);
    }
    req
}

fn axum_response(origin: String, display: String, resp: axum::response::Response) -> Rej {
    let status = resp.status().as_u16();
    let ctype = resp.headers().get(http::header::CONTENT_TYPE).map(|v| String::from_utf8_lossy(v.as_bytes()).to_string());
    let body = block_on(axum::body::to_bytes(resp.into_body(), usize::MAX)).map(|b| b.to_vec()).unwrap_or_else(|_| b"<body error>".to_vec());
    Rej { origin, status, rs_status: None, ctype, body, display }
}

fn json_rejection_origin(r: &axum::extract::rejection::JsonRejection) -> String {
    let dbg = format!("{r:?}");
    format!("JsonRejection::{}[{}]", dbg.split(|c: char| !c.is_alphanumeric()).next().unwrap_or(""), r.status().as_u16())
}

pub fn axum_json<T, E>(r: &JsonReq) -> PairResult
where
    T: Deserr<E> + Debug + PartialEq + Default,
    E: Expect,
{
    use deserr::axum::{AxumJson, AxumJsonRejection};
    let exp: Exp<T, E> = match guarded(|| {
        let req = axum_request(r);
        match block_on(axum::Json::<Value>::from_request(req, &())) {
            Err(rej) => {
                let origin = json_rejection_origin(&rej);
                // the text a handler would log (`body_text`) is part of what must pass through
                let display = format!("{} / {}", rej, rej.body_text());
                Exp::FwReject(axum_response(origin, display, rej.into_response()))
            }
            Ok(axum::Json(v)) => match deserr::deserialize::<T, _, E>(v) {
                Ok(x) => Exp::Accept(x),
                Err(e) => Exp::DeserrReject(e),
            },
        }
    }) {
        Ok(x) => x,
        Err(m) => Exp::OraclePanic(m),
    };
    let got: Got<T, E> = match guarded(|| {
        let req = axum_request(r);
        match block_on(AxumJson::<T, E>::from_request(req, &())) {
            Ok(x) => Got::Accept(x.into_inner()),
            Err(rej) => {
                let (origin, display, carried) = match &rej {
                    AxumJsonRejection::DeserrError(e) => (format!("deserr:{}", E::NAME), rej.to_string(), Some(e.clone())),
                    AxumJsonRejection::JsonRejection(j) => {
                        (json_rejection_origin(j), format!("{} / {}", rej, j.body_text()), None)
                    }
                };
                Got::Reject { rej: axum_response(origin, display, rej.into_response()), carried }
            }
        }
    }) {
        Ok(x) => x,
        Err(m) => Got::Panic(m),
    };
    compare("axum-json", exp, got)
}

// ------------------------------------------------------------------------------------------------
// witnesses
// ------------------------------------------------------------------------------------------------

pub fn json_req_to_json(r: &JsonReq) -> Value {
    let shown = if r.body_len() <= 4096 {
        String::from_utf8_lossy(&r.body()).to_string()
    } else {
        format!("{} … ({} bytes, {} of them padding spaces)", String::from_utf8_lossy(&r.prefix[..r.prefix.len().min(200)]), r.body_len(), r.pad)
    };
    json!({
        "kind": "json",
        "method": r.method,
        "content_type": r.content_type.as_ref().map(|c| String::from_utf8_lossy(c).to_string()),
        "content_type_hex": r.content_type.as_ref().map(|c| hex(c)),
        "content_length_header": r.content_length,
        "body": shown,
        "body_is_utf8": std::str::from_utf8(&r.prefix).is_ok() && std::str::from_utf8(&r.suffix).is_ok(),
        "body_prefix_hex": hex(&r.prefix),
        "body_pad_spaces": r.pad,
        "body_suffix_hex": hex(&r.suffix),
        "config": r.cfg.to_json(),
        "transport": {"chunks": r.chunks, "cut": r.fail},
        "class": r.class,
    })
}

pub fn query_req_to_json(q: &QueryReq) -> Value {
    json!({"kind": "query", "query": q.query, "via": q.via, "class": q.class})
}
