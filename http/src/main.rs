//! C20 — HTTP extractors add nothing and lose nothing (exploration, differential).
//!
//! vhttp --tier quick|thorough          (or env VERIF_TIER)
//! vhttp --replay <file>                re-run one recorded request
mod gen;
mod run;
mod types;

use serde_json::{json, Value};
use vcore::evidence::{Acc, Finish};
use vcore::{Ctx, Rng, Tier};

use deserr::errors::JsonError;
use gen::{JsonReq, QueryReq, JSON_ERRORS, JSON_TARGETS, QUERY_ERRORS, QUERY_TARGETS};
use run::PairResult;
use types::{Doc, QpErr, Search, Shape, StrMap, E422};

const RULE: &str = "for the same request: framework extractor rejects => deserr extractor rejects with the same error object, status, content type, body and text; \
framework yields v and deserr::deserialize::<T,_,E>(v) = Ok(x) => extractor Ok(x); = Err(e) => rejection carrying e, whose response is e's \
(JsonError: 400 text/plain e.to_string(); E422: 422 application/json structured body)";

#[derive(Clone, Debug)]
enum Req {
    Json { framework: &'static str, req: JsonReq },
    Query(QueryReq),
}

#[derive(Clone, Debug)]
struct Case {
    target: &'static str,
    error: &'static str,
    req: Req,
}

fn intern(s: &str, table: &[&'static str]) -> Option<&'static str> {
    table.iter().copied().find(|t| *t == s)
}

fn execute(c: &Case) -> Result<PairResult, String> {
    macro_rules! json_go {
        ($T:ty, $E:ty, $fw:expr, $r:expr) => {
            if $fw == "actix" {
                run::actix_json::<$T, $E>($r)
            } else {
                run::axum_json::<$T, $E>($r)
            }
        };
    }
    Ok(match &c.req {
        Req::Json { framework, req } => match (c.target, c.error) {
            ("Doc", "JsonError") => json_go!(Doc, JsonError, *framework, req),
            ("Doc", "E422") => json_go!(Doc, E422, *framework, req),
            ("Shape", "JsonError") => json_go!(Shape, JsonError, *framework, req),
            ("Shape", "E422") => json_go!(Shape, E422, *framework, req),
            ("VecU8", "JsonError") => json_go!(Vec<u8>, JsonError, *framework, req),
            ("VecU8", "E422") => json_go!(Vec<u8>, E422, *framework, req),
            ("Value", "JsonError") => json_go!(Value, JsonError, *framework, req),
            ("Value", "E422") => json_go!(Value, E422, *framework, req),
            (t, e) => return Err(format!("no instantiation for target {t} / error {e}")),
        },
        Req::Query(q) => match (c.target, c.error) {
            ("Search", "JsonError") => run::actix_query::<Search, JsonError>(q),
            ("Search", "E422") => run::actix_query::<Search, E422>(q),
            ("Search", "QueryParamError") => run::actix_query::<Search, QpErr>(q),
            ("StrMap", "JsonError") => run::actix_query::<StrMap, JsonError>(q),
            ("StrMap", "E422") => run::actix_query::<StrMap, E422>(q),
            ("StrMap", "QueryParamError") => run::actix_query::<StrMap, QpErr>(q),
            ("Value", "JsonError") => run::actix_query::<Value, JsonError>(q),
            ("Value", "E422") => run::actix_query::<Value, E422>(q),
            ("Value", "QueryParamError") => run::actix_query::<Value, QpErr>(q),
            (t, e) => return Err(format!("no instantiation for query target {t} / error {e}")),
        },
    })
}

fn case_to_json(c: &Case) -> Value {
    let (framework, request) = match &c.req {
        Req::Json { framework, req } => (*framework, run::json_req_to_json(req)),
        Req::Query(q) => ("actix", run::query_req_to_json(q)),
    };
    json!({"framework": framework, "target": c.target, "error_type": c.error, "request": request})
}

fn case_from_json(v: &Value) -> Result<Case, String> {
    let s = |v: &Value, k: &str| v.get(k).and_then(|x| x.as_str()).map(|x| x.to_string()).ok_or(format!("missing {k}"));
    let framework = s(v, "framework")?;
    let target = s(v, "target")?;
    let error = s(v, "error_type")?;
    let r = v.get("request").ok_or("missing request")?;
    let kind = s(r, "kind")?;
    if kind == "query" {
        let via = match s(r, "via")?.as_str() {
            "from_request" => "from_request",
            "from_request_rewritten" => "from_request_rewritten",
            _ => "from_query",
        };
        return Ok(Case {
            target: intern(&target, QUERY_TARGETS).ok_or("unknown target")?,
            error: intern(&error, QUERY_ERRORS).ok_or("unknown error type")?,
            req: Req::Query(QueryReq { query: s(r, "query")?, via, class: s(r, "class").unwrap_or_default() }),
        });
    }
    let hexf = |k: &str| -> Result<Vec<u8>, String> { gen::unhex(&s(r, k)?).ok_or(format!("bad hex in {k}")) };
    let content_type = match r.get("content_type_hex") {
        Some(Value::String(h)) => Some(gen::unhex(h).ok_or("bad hex in content_type_hex")?),
        _ => None,
    };
    let req = JsonReq {
        method: intern(&s(r, "method")?, &["POST", "PUT", "PATCH"]).ok_or("unknown method")?,
        content_type,
        content_length: r.get("content_length_header").and_then(|x| x.as_str()).map(|x| x.to_string()),
        prefix: hexf("body_prefix_hex")?,
        pad: r.get("body_pad_spaces").and_then(|x| x.as_u64()).unwrap_or(0) as usize,
        suffix: hexf("body_suffix_hex")?,
        cfg: gen::Cfg::from_json(r.get("config").unwrap_or(&json!("default"))).ok_or("bad config")?,
        chunks: r.pointer("/transport/chunks").and_then(|x| x.as_u64()).unwrap_or(1) as usize,
        fail: r.pointer("/transport/cut").and_then(|x| x.as_bool()).unwrap_or(false),
        class: s(r, "class").unwrap_or_default(),
    };
    Ok(Case {
        target: intern(&target, JSON_TARGETS).ok_or("unknown target")?,
        error: intern(&error, JSON_ERRORS).ok_or("unknown error type")?,
        req: Req::Json { framework: intern(&framework, &["actix", "axum"]).ok_or("unknown framework")?, req },
    })
}

fn random_case(r: &mut Rng) -> Case {
    match r.below(10) {
        0..=3 | 4..=7 => {
            let framework = if r.chance(1, 2) { "actix" } else { "axum" };
            let target = *r.pick(JSON_TARGETS);
            let error = *r.pick(JSON_ERRORS);
            Case { target, error, req: Req::Json { framework, req: gen::gen_json_req(target, r) } }
        }
        _ => Case { target: *r.pick(QUERY_TARGETS), error: *r.pick(QUERY_ERRORS), req: Req::Query(gen::gen_query_req(r)) },
    }
}

/// Seed-independent part: every content type through every (framework, target, error type) with a valid body, and a
/// fixed list of query strings through every (target, error type, entry point).
fn catalogue(seed: u64) -> Vec<Case> {
    let mut out = vec![];
    let mut cts: Vec<Option<Vec<u8>>> = vec![None];
    let mut r = Rng::derive(seed, 0xCA7A, 0);
    // harvest the generator's content types
    let mut seen = std::collections::BTreeSet::new();
    for _ in 0..4000 {
        let q = gen::gen_json_req("Doc", &mut r);
        if let Some(ct) = q.content_type {
            if seen.insert(ct.clone()) {
                cts.push(Some(ct));
            }
        }
    }
    for framework in ["actix", "axum"] {
        for &target in JSON_TARGETS {
            for &error in JSON_ERRORS {
                for ct in &cts {
                    for variant in 0..2 {
                        let doc = if variant == 0 { gen::valid_doc(target, &mut r) } else { gen::illtyped_doc(target, &mut r).0 };
                        out.push(Case {
                            target,
                            error,
                            req: Req::Json {
                                framework,
                                req: JsonReq {
                                    method: "POST",
                                    content_type: ct.clone(),
                                    content_length: Some(serde_json::to_vec(&doc).unwrap().len().to_string()),
                                    prefix: serde_json::to_vec(&doc).unwrap(),
                                    pad: 0,
                                    suffix: vec![],
                                    cfg: gen::Cfg::Default,
                                    chunks: 1,
                                    fail: false,
                                    class: if variant == 0 { "valid".into() } else { "illtyped:catalogue".into() },
                                },
                            },
                        });
                    }
                }
            }
        }
    }
    // bodies around the DEFAULT size limit (no JsonConfig / DefaultBodyLimit registered), with and without a
    // Content-Length header, in one piece and in several
    for framework in ["actix", "axum"] {
        for (target, doc) in [("Value", &br#"{"a":1}"#[..]), ("Shape", &br#"{"type":"circle","radius":9}"#[..])] {
            for over in [0usize, 1] {
                for with_len in [true, false] {
                    for chunks in [1usize, 5] {
                        let total = gen::DEFAULT_LIMIT + over;
                        out.push(Case {
                            target,
                            error: if chunks == 1 { "JsonError" } else { "E422" },
                            req: Req::Json {
                                framework,
                                req: JsonReq {
                                    method: "POST",
                                    content_type: Some(b"application/json".to_vec()),
                                    content_length: with_len.then(|| total.to_string()),
                                    prefix: doc.to_vec(),
                                    pad: total - doc.len(),
                                    suffix: vec![],
                                    cfg: gen::Cfg::Default,
                                    chunks,
                                    fail: false,
                                    class: if over == 1 { "oversize:default_limit+1".into() } else { "at_limit:valid".into() },
                                },
                            },
                        });
                    }
                }
            }
        }
    }
    const QS: &[(&str, &str)] = &[
        ("q=kefir", "valid"),
        ("q=kefir&limit=5&offset=-3&filter=a%20b&sortBy=price%3Aasc", "valid"),
        ("q=hello+world", "valid"),
        ("q=%C3%A9", "valid"),
        ("", "degenerate"),
        ("&&", "degenerate"),
        ("q", "noise"),
        ("q=", "valid"),
        ("=v&q=x", "noise"),
        ("limit=5", "illtyped"),
        ("q=x&limit=abc", "illtyped"),
        ("q=x&limit=4294967296", "illtyped"),
        ("q=x&limit=-1", "illtyped"),
        ("q=x&unknown=1", "illtyped"),
        ("q=x&sort_by=a", "illtyped"),
        ("q=a&q=b", "repeated"),
        ("limit=1&q=x&limit=2&limit=zz", "repeated"),
        ("limit=zz&q=x&limit=2", "repeated"),
        ("q=%E9%", "percent_and_unicode"),
        ("q=%00", "percent_and_unicode"),
        ("q=%zz&filter=%", "percent_and_unicode"),
        ("q=é&filter=日本語", "percent_and_unicode"),
        ("q=a%26limit%3D3", "percent_and_unicode"),
        ("q=1#frag&limit=2", "noise"),
        ("q=a=b", "noise"),
        ("q=x&&limit=3&", "noise"),
        ("q[]=1&q[]=2", "illtyped"),
        // delimiters at the edges
        ("?q=kefir", "edges"),
        ("??q=kefir", "edges"),
        ("?", "edges"),
        ("??", "edges"),
        ("?=", "edges"),
        ("?&q=x", "edges"),
        ("&q=kefir", "edges"),
        ("=q=kefir", "edges"),
        (";q=kefir", "edges"),
        ("#q=kefir", "edges"),
        ("%3Fq=kefir", "edges"),
        ("+q=kefir", "edges"),
        (" q=kefir", "edges"),
        ("/q=kefir", "edges"),
        ("q=kefir?", "edges"),
        ("q=kefir&", "edges"),
        ("q=kefir&&", "edges"),
        ("q=kefir=", "edges"),
        ("q=kefir;", "edges"),
        ("q=kefir#", "edges"),
        ("q=kefir&?limit=3", "edges"),
        ("q=kefir?limit=3", "edges"),
        ("q=kefir;limit=3", "edges"),
        ("q=kefir&&limit=3", "edges"),
        ("q==kefir", "edges"),
        ("q=?kefir", "edges"),
    ];
    for &target in QUERY_TARGETS {
        for &error in QUERY_ERRORS {
            for via in ["from_query", "from_request", "from_request_rewritten"] {
                for (q, class) in QS {
                    out.push(Case { target, error, req: Req::Query(QueryReq { query: q.to_string(), via, class: class.to_string() }) });
                }
            }
        }
    }
    out
}

/// Controls the oracle side must trivially get right, and the replay encoding must round-trip; otherwise the run says
/// nothing about deserr and is reported inconclusive.
fn self_checks(seed: u64) -> Vec<String> {
    let mut bad = vec![];
    let ctl = |framework: &'static str, ct: Option<&[u8]>, body: &[u8]| Case {
        target: "Shape",
        error: "JsonError",
        req: Req::Json {
            framework,
            req: JsonReq {
                method: "POST",
                content_type: ct.map(|c| c.to_vec()),
                content_length: None,
                prefix: body.to_vec(),
                pad: 0,
                suffix: vec![],
                cfg: gen::Cfg::Default,
                chunks: 1,
                fail: false,
                class: "control".into(),
            },
        },
    };
    let controls: Vec<(Case, &str)> = vec![
        (ctl("actix", Some(b"application/json"), br#"{"type":"circle","radius":3}"#), "accepted_nondefault"),
        (ctl("axum", Some(b"application/json"), br#"{"type":"circle","radius":3}"#), "accepted_nondefault"),
        (ctl("actix", Some(b"application/json"), b"{"), "fw_reject.400"),
        (ctl("axum", Some(b"application/json"), b"{"), "fw_reject.400"),
        (ctl("actix", Some(b"text/plain"), b"{}"), "fw_reject.400"),
        (ctl("axum", Some(b"text/plain"), b"{}"), "fw_reject.415"),
        (ctl("actix", Some(b"application/json"), br#"{"type":"circle"}"#), "deserr_reject.JsonError"),
        (ctl("axum", Some(b"application/json"), br#"{"type":"circle"}"#), "deserr_reject.JsonError"),
        (
            Case { target: "Search", error: "JsonError", req: Req::Query(QueryReq { query: "q=a+b&limit=7".into(), via: "from_query", class: "control".into() }) },
            "accepted_nondefault",
        ),
        (
            Case { target: "Search", error: "JsonError", req: Req::Query(QueryReq { query: "limit=x".into(), via: "from_request", class: "control".into() }) },
            "deserr_reject.JsonError",
        ),
    ];
    for (c, want) in &controls {
        match execute(c) {
            Ok(p) if p.outcome_class == *want => {}
            Ok(p) => bad.push(format!("control request: the oracle gave {} where {} is certain ({})", p.outcome_class, want, case_to_json(c)["request"])),
            Err(e) => bad.push(e),
        }
    }
    // replay encoding round-trip
    for i in 0..300u64 {
        let mut r = Rng::derive(seed, i, 0x7E57);
        let c = random_case(&mut r);
        let back = case_from_json(&case_to_json(&c));
        let same = match (&c.req, back.as_ref().map(|b| (&b.req, b.target, b.error))) {
            (Req::Json { framework: f1, req: a }, Ok((Req::Json { framework: f2, req: b }, t, e))) => {
                f1 == f2
                    && t == c.target
                    && e == c.error
                    && a.method == b.method
                    && a.content_type == b.content_type
                    && a.content_length == b.content_length
                    && a.body() == b.body()
                    && a.cfg == b.cfg
                    && a.chunks == b.chunks
                    && a.fail == b.fail
            }
            (Req::Query(a), Ok((Req::Query(b), t, e))) => t == c.target && e == c.error && a.query == b.query && a.via == b.via,
            _ => false,
        };
        if !same {
            bad.push(format!("the replay encoding does not round-trip for generated request #{i}"));
            break;
        }
    }
    bad
}

fn ctype_class(ct: &Option<Vec<u8>>) -> String {
    match ct {
        None => "<missing>".into(),
        Some(b) => String::from_utf8_lossy(b).to_string(),
    }
}

fn account(acc: &mut Acc, c: &Case, p: &PairResult) {
    acc.eval();
    let (class, ct, cfg) = match &c.req {
        Req::Json { req, .. } => (req.class.clone(), ctype_class(&req.content_type), req.cfg.name()),
        Req::Query(q) => (q.class.clone(), String::new(), ""),
    };
    acc.count(&format!("{}.{}", p.framework, p.outcome_class));
    acc.count(&format!("class.{}", class.split(':').next().unwrap_or("")));
    if let Req::Json { req, framework } = &c.req {
        if req.cfg == gen::Cfg::Default && req.body_len() == gen::DEFAULT_LIMIT + 1 {
            let cl = match &req.content_length {
                None => "without_content_length",
                Some(v) if *v == req.body_len().to_string() => "with_true_content_length",
                Some(_) => "with_other_content_length",
            };
            acc.count(&format!("default_limit_plus_1.{framework}.{cl}"));
        }
    }
    acc.note("request_classes", &class);
    acc.note("instantiations", &format!("{}<{},{}>", p.framework, c.target, c.error));
    if !ct.is_empty() || matches!(c.req, Req::Json { .. }) {
        acc.note("content_types", &format!("{ct:?}"));
        acc.count(&format!("config.{cfg}"));
    }
    if p.outcome_class.starts_with("fw_reject") {
        acc.note("framework_rejections", &format!("{} {}", p.framework, p.shape));
        let fw = p.framework.split('/').next().unwrap_or(p.framework);
        let origin = p.shape.split('|').next().unwrap_or("");
        let origin = if origin.starts_with("other:") { "custom error handler (InternalError)" } else { origin };
        acc.count(&format!("passed_through.{fw}.{origin}"));
    }
    if p.nontrivial {
        acc.nontrivial(&(p.framework, c.target, c.error, &class, &ct, cfg, &p.outcome_class, &p.shape));
    }
    if let Some(m) = &p.oracle_panic {
        acc.inconclusive(format!("the framework's own extractor panicked ({}): {}", p.framework, m));
    }
    if let Some((what, _)) = p.diffs.first() {
        let fw = p.framework.split('/').next().unwrap_or(p.framework);
        let signature = if what == "panic" { format!("C20/{fw}/panic") } else { format!("C20/{fw}/{what}/{}", c.target) };
        let mut w = case_to_json(c);
        w["entry"] = json!(p.framework);
        w["expected"] = p.expected.clone();
        w["observed"] = p.observed.clone();
        w["differences"] = json!(p.diffs.iter().map(|(a, b)| json!({"what": a, "detail": b})).collect::<Vec<_>>());
        acc.count("disagreements");
        acc.violation(signature, RULE, w);
    }
}

fn sample_json(c: &Case, p: &PairResult) -> Value {
    let mut w = case_to_json(c);
    // keep samples small
    if let Some(r) = w.get_mut("request").and_then(|r| r.as_object_mut()) {
        r.remove("body_prefix_hex");
        r.remove("body_suffix_hex");
        r.remove("content_type_hex");
    }
    w["entry"] = json!(p.framework);
    w["oracle"] = p.expected.clone();
    w["extractor"] = p.observed.clone();
    w["agree"] = json!(p.diffs.is_empty());
    w
}

fn replay(path: &str) -> i32 {
    let txt = match std::fs::read_to_string(path) {
        Ok(t) => t,
        Err(e) => {
            println!("INCONCLUSIVE property=C20 reason=cannot read replay file {path}: {e}");
            return 2;
        }
    };
    let v: Value = match serde_json::from_str(&txt) {
        Ok(v) => v,
        Err(e) => {
            println!("INCONCLUSIVE property=C20 reason=replay file is not JSON: {e}");
            return 2;
        }
    };
    let w = v.get("witness").unwrap_or(&v);
    let case = match case_from_json(w) {
        Ok(c) => c,
        Err(e) => {
            println!("INCONCLUSIVE property=C20 reason=replay file does not describe a C20 request: {e}");
            return 2;
        }
    };
    let p = match execute(&case) {
        Ok(p) => p,
        Err(e) => {
            println!("INCONCLUSIVE property=C20 reason={e}");
            return 2;
        }
    };
    println!("request : {}", serde_json::to_string(&sample_json(&case, &p)["request"]).unwrap());
    println!("entry   : {}  target={} error={}", p.framework, case.target, case.error);
    println!("oracle  : {}", p.expected);
    println!("observed: {}", p.observed);
    if let Some(m) = &p.oracle_panic {
        println!("INCONCLUSIVE property=C20 reason=the framework's own extractor panicked: {m}");
        return 2;
    }
    if p.diffs.is_empty() {
        println!("C20 replay: the two outcomes agree");
        0
    } else {
        for (a, b) in &p.diffs {
            println!("  differs: {a} {b}");
        }
        println!("VIOLATION property=C20 replay={path}");
        1
    }
}

fn main() {
    let args: Vec<String> = std::env::args().skip(1).collect();
    let mut tier = std::env::var("VERIF_TIER").unwrap_or_else(|_| "quick".into());
    let mut replay_file = None;
    let mut i = 0;
    while i < args.len() {
        match args[i].as_str() {
            "--tier" if i + 1 < args.len() => {
                tier = args[i + 1].clone();
                i += 1;
            }
            "--replay" if i + 1 < args.len() => {
                replay_file = Some(args[i + 1].clone());
                i += 1;
            }
            "quick" | "thorough" => tier = args[i].clone(),
            other => {
                eprintln!("usage: vhttp [--tier quick|thorough] [--replay FILE]   (unexpected argument {other:?})");
                std::process::exit(2);
            }
        }
        i += 1;
    }
    // panics inside extractors are caught and reported as violations; keep stderr readable
    std::panic::set_hook(Box::new(|_| {}));

    if let Some(f) = replay_file {
        std::process::exit(replay(&f));
    }
    let tier = match tier.as_str() {
        "quick" => Tier::Quick,
        "thorough" => Tier::Thorough,
        other => {
            println!("INCONCLUSIVE property=C20 reason=unknown tier {other:?}");
            std::process::exit(2);
        }
    };
    let mut ctx = Ctx::new("C20", tier);
    let seed = ctx.seed;
    let n_random: u64 = std::env::var("VHTTP_REQUESTS").ok().and_then(|s| s.parse().ok()).unwrap_or(tier.pick(4_000, 200_000));
    let cat = catalogue(seed);

    let pre = self_checks(seed);

    let mut acc = ctx.par(|shard, nshards| {
        let mut acc = Acc::new();
        for (i, c) in cat.iter().enumerate() {
            if i % nshards != shard {
                continue;
            }
            match execute(c) {
                Ok(p) => account(&mut acc, c, &p),
                Err(e) => acc.inconclusive(e),
            }
        }
        let mut i = shard as u64;
        while i < n_random {
            let mut r = Rng::derive(seed, i, 0xC20);
            let c = random_case(&mut r);
            match execute(&c) {
                Ok(p) => account(&mut acc, &c, &p),
                Err(e) => acc.inconclusive(e),
            }
            i += nshards as u64;
        }
        acc
    });

    for r in pre {
        acc.inconclusive(r);
    }
    // samples: one actual request per outcome class, found by a deterministic scan on this thread
    let wanted = [
        ("actix-json", "fw_reject"),
        ("actix-json", "deserr_reject"),
        ("axum-json", "fw_reject"),
        ("axum-json", "deserr_reject"),
        ("axum-json", "accepted_nondefault"),
        ("actix-query", "deserr_reject"),
    ];
    let mut samples: Vec<Option<Value>> = vec![None; wanted.len()];
    for i in 0..3000u64 {
        if samples.iter().all(|s| s.is_some()) {
            break;
        }
        let mut r = Rng::derive(seed, i, 0x5A11);
        let c = random_case(&mut r);
        if let Ok(p) = execute(&c) {
            for (k, (fw, oc)) in wanted.iter().enumerate() {
                if samples[k].is_none() && p.framework.starts_with(fw) && p.outcome_class.starts_with(oc) {
                    samples[k] = Some(sample_json(&c, &p));
                    break;
                }
            }
        }
    }
    acc.samples = samples.into_iter().flatten().collect();
    if acc.samples.len() < wanted.len() {
        acc.inconclusive("the generator did not produce every outcome class (framework rejection, deserr rejection, accepted) for the samples");
    }
    for need in ["actix-json.accepted_nondefault", "axum-json.accepted_nondefault", "actix-json.deserr_reject.E422", "axum-json.deserr_reject.E422"] {
        if acc.counters.get(need).copied().unwrap_or(0) == 0 {
            acc.inconclusive(format!("no request with outcome {need} was executed"));
        }
    }
    if !acc.counters.keys().any(|k| k.starts_with("actix-json.fw_reject")) || !acc.counters.keys().any(|k| k.starts_with("axum-json.fw_reject")) {
        acc.inconclusive("no framework-level rejection was executed");
    }
    ctx.extra.insert("catalogue_requests".into(), json!(cat.len()));
    ctx.extra.insert(
        "distinct_nontrivial_key".into(),
        json!("(entry point, target, error type, request class, content type, extractor config, outcome class, rejection shape = error kinds+locations / message with data stripped)"),
    );
    ctx.extra.insert("random_requests".into(), json!(n_random));
    ctx.extra.insert("json_targets".into(), json!(JSON_TARGETS));
    ctx.extra.insert("query_targets".into(), json!(QUERY_TARGETS));
    ctx.extra.insert("error_types".into(), json!(QUERY_ERRORS));

    let code = ctx.finish(
        acc,
        Finish {
            level: "exploration",
            rule: RULE.to_string(),
            exhaustive: false,
            assumptions: vec![
                "the extractor futures are driven on the calling thread (own poll loop: a Pending without a wake-up is reported as never completing) on hand-built requests (actix TestRequest::to_http_parts, http::Request<axum::body::Body>); no server, no socket, no HTTP/1 parser".into(),
                "the oracle is the framework's own extractor (web::Json<Value>, web::Query<Value>, axum::Json<Value>) composed with deserr::deserialize: a defect shared by deserr::deserialize and the extractors is out of scope here (C01..C14 cover deserialize)".into(),
                "actix-web is built without its compress-* features, so Content-Encoding handling is not exercised".into(),
                "QueryParamError has no ResponseError impl in deserr; it is exercised through a local delegating wrapper (400 + message)".into(),
            ],
        },
    );
    std::process::exit(code);
}
