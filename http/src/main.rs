fn main() {}
