//! Target types and error types the extractors are instantiated with.
use std::collections::BTreeMap;
use std::convert::Infallible;
use std::fmt;
use std::num::ParseIntError;
use std::ops::ControlFlow;

use deserr::errors::{JsonError, QueryParamError};
use deserr::{DeserializeError, Deserr, ErrorKind, IntoValue, MergeWithError, ValuePointerRef};

// ------------------------------------------------------------------------------------------------
// JSON targets
// ------------------------------------------------------------------------------------------------

/// (1) a struct with several fields, nested struct, unit enum.
#[derive(Deserr, Debug, PartialEq, Default)]
#[deserr(deny_unknown_fields, rename_all = camelCase)]
pub struct Doc {
    pub small_num: u8,
    pub display_name: String,
    #[deserr(default)]
    pub is_active: Option<bool>,
    #[deserr(default)]
    pub deltas: Vec<i16>,
    pub geo_point: Point,
    #[deserr(default)]
    pub sort_order: Order,
}

#[derive(Deserr, Debug, PartialEq, Default)]
#[deserr(deny_unknown_fields)]
pub struct Point {
    pub lat: i32,
    pub lng: f64,
}

#[derive(Deserr, Debug, PartialEq, Default)]
#[deserr(rename_all = camelCase)]
pub enum Order {
    #[default]
    Asc,
    Desc,
    ByRelevance,
}

/// (2) an internally tagged enum.
#[derive(Deserr, Debug, PartialEq, Default)]
#[deserr(tag = "type", rename_all = camelCase, deny_unknown_fields)]
pub enum Shape {
    #[default]
    Empty,
    Circle {
        radius: u16,
    },
    Rect {
        w: u8,
        h: u8,
        #[deserr(default)]
        label: Option<String>,
    },
}

// (3) Vec<u8> and (4) serde_json::Value are used as they are.

// ------------------------------------------------------------------------------------------------
// Query-string targets (every decoded value is a JSON string)
// ------------------------------------------------------------------------------------------------

fn u32_from_str(s: &str) -> Result<u32, ParseIntError> {
    s.parse::<u32>()
}
fn i64_from_str(s: &str) -> Result<i64, ParseIntError> {
    s.parse::<i64>()
}

#[derive(Deserr, Debug, PartialEq, Default)]
#[deserr(deny_unknown_fields, rename_all = camelCase)]
pub struct Search {
    pub q: String,
    #[deserr(default)]
    pub filter: Option<String>,
    #[deserr(default = 20, try_from(&String) = u32_from_str -> ParseIntError)]
    pub limit: u32,
    #[deserr(default, try_from(&String) = i64_from_str -> ParseIntError)]
    pub offset: i64,
    #[deserr(default)]
    pub sort_by: Option<String>,
}

pub type StrMap = BTreeMap<String, String>;

// ------------------------------------------------------------------------------------------------
// Error types
// ------------------------------------------------------------------------------------------------

/// What the response of a rejection that carries exactly `self` must look like, stated independently of the
/// `ResponseError` / `IntoResponse` implementations that the extractors go through.
pub trait Expect:
    DeserializeError
    + actix_web::ResponseError
    + axum::response::IntoResponse
    + PartialEq
    + Clone
    + fmt::Debug
    + fmt::Display
    + 'static
{
    const NAME: &'static str;
    fn expected_status(&self) -> u16;
    /// the content type must start with this
    fn expected_content_type(&self) -> &'static str;
    fn expected_body(&self) -> Vec<u8>;
    /// a shape of the error for the distinct-case accounting (no payload data)
    fn shape(&self) -> String;
}

fn strip_quoted(s: &str) -> String {
    // drop everything between back-ticks, and digits: keeps the sentence, removes the data
    let mut out = String::new();
    let mut inside = false;
    for c in s.chars() {
        if c == '`' {
            inside = !inside;
            out.push('`');
        } else if !inside && !c.is_ascii_digit() {
            out.push(c);
        }
    }
    out.truncate(80);
    out
}

impl Expect for JsonError {
    const NAME: &'static str = "JsonError";
    fn expected_status(&self) -> u16 {
        400
    }
    fn expected_content_type(&self) -> &'static str {
        "text/plain"
    }
    fn expected_body(&self) -> Vec<u8> {
        self.to_string().into_bytes()
    }
    fn shape(&self) -> String {
        strip_quoted(&self.to_string())
    }
}

/// One structured report.
#[derive(Debug, Clone, PartialEq)]
pub struct Item {
    pub kind: &'static str,
    pub location: String,
    pub detail: String,
}

/// Second error type: accumulates every report, answers 422 with a structured JSON body.
#[derive(Debug, Clone, PartialEq)]
pub struct E422 {
    pub items: Vec<Item>,
}

fn render_location(l: ValuePointerRef) -> String {
    fn rec(l: ValuePointerRef, out: &mut String) {
        match l {
            ValuePointerRef::Origin => out.push('$'),
            ValuePointerRef::Key { key, prev } => {
                rec(*prev, out);
                out.push('.');
                out.push_str(key);
            }
            ValuePointerRef::Index { index, prev } => {
                rec(*prev, out);
                out.push_str(&format!("[{index}]"));
            }
        }
    }
    let mut s = String::new();
    rec(l, &mut s);
    s
}

impl E422 {
    fn push(self_: Option<Self>, item: Item) -> ControlFlow<Self, Self> {
        let mut me = self_.unwrap_or(E422 { items: vec![] });
        me.items.push(item);
        if me.items.len() >= 8 {
            ControlFlow::Break(me)
        } else {
            ControlFlow::Continue(me)
        }
    }
    pub fn render(&self) -> String {
        let items: Vec<serde_json::Value> = self
            .items
            .iter()
            .map(|i| serde_json::json!({"kind": i.kind, "location": i.location, "detail": i.detail}))
            .collect();
        serde_json::json!({"code": "E422", "count": self.items.len(), "errors": items}).to_string()
    }
}

impl fmt::Display for E422 {
    fn fmt(&self, f: &mut fmt::Formatter<'_>) -> fmt::Result {
        write!(f, "E422:")?;
        for i in &self.items {
            write!(f, " [{} at {}: {}]", i.kind, i.location, i.detail)?;
        }
        Ok(())
    }
}

impl DeserializeError for E422 {
    fn error<V: IntoValue>(
        self_: Option<Self>,
        error: ErrorKind<V>,
        location: ValuePointerRef,
    ) -> ControlFlow<Self, Self> {
        let (kind, detail) = match error {
            ErrorKind::IncorrectValueKind { actual, accepted } => {
                let actual: serde_json::Value = actual.into();
                ("incorrect_value_kind", format!("got {} want {:?}", actual, accepted))
            }
            ErrorKind::MissingField { field } => ("missing_field", field.to_string()),
            ErrorKind::UnknownKey { key, accepted } => ("unknown_key", format!("{key} not in {accepted:?}")),
            ErrorKind::UnknownValue { value, accepted } => {
                ("unknown_value", format!("{value} not in {accepted:?}"))
            }
            ErrorKind::BadSequenceLen { actual: _, expected } => ("bad_sequence_len", format!("want {expected}")),
            ErrorKind::Unexpected { msg } => ("unexpected", msg),
        };
        E422::push(self_, Item { kind, location: render_location(location), detail })
    }
}

impl MergeWithError<E422> for E422 {
    fn merge(self_: Option<Self>, other: E422, _merge_location: ValuePointerRef) -> ControlFlow<Self, Self> {
        let mut me = self_.unwrap_or(E422 { items: vec![] });
        me.items.extend(other.items);
        if me.items.len() >= 8 {
            ControlFlow::Break(me)
        } else {
            ControlFlow::Continue(me)
        }
    }
}

impl MergeWithError<ParseIntError> for E422 {
    fn merge(self_: Option<Self>, other: ParseIntError, merge_location: ValuePointerRef) -> ControlFlow<Self, Self> {
        E422::push(
            self_,
            Item { kind: "parse_int", location: render_location(merge_location), detail: other.to_string() },
        )
    }
}

impl actix_web::ResponseError for E422 {
    fn status_code(&self) -> actix_web::http::StatusCode {
        actix_web::http::StatusCode::UNPROCESSABLE_ENTITY
    }
    fn error_response(&self) -> actix_web::HttpResponse<actix_web::body::BoxBody> {
        actix_web::HttpResponseBuilder::new(self.status_code()).content_type("application/json").body(self.render())
    }
}

impl axum::response::IntoResponse for E422 {
    fn into_response(self) -> axum::response::Response {
        (
            http::StatusCode::UNPROCESSABLE_ENTITY,
            [(http::header::CONTENT_TYPE, "application/json")],
            self.render(),
        )
            .into_response()
    }
}

impl Expect for E422 {
    const NAME: &'static str = "E422";
    fn expected_status(&self) -> u16 {
        422
    }
    fn expected_content_type(&self) -> &'static str {
        "application/json"
    }
    fn expected_body(&self) -> Vec<u8> {
        self.render().into_bytes()
    }
    fn shape(&self) -> String {
        let mut s = String::new();
        for i in &self.items {
            s.push_str(i.kind);
            s.push('@');
            s.push_str(&i.location.chars().filter(|c| !c.is_ascii_digit()).collect::<String>());
            s.push(' ');
        }
        s
    }
}

/// deserr's own `QueryParamError` has no `ResponseError` implementation in deserr, so it cannot be handed to
/// `AwebQueryParameter` directly; this wrapper delegates every decision to it and answers 400 + the message.
#[derive(Debug, Clone)]
pub struct QpErr(pub QueryParamError);

impl PartialEq for QpErr {
    fn eq(&self, o: &Self) -> bool {
        self.0.to_string() == o.0.to_string()
    }
}

impl fmt::Display for QpErr {
    fn fmt(&self, f: &mut fmt::Formatter<'_>) -> fmt::Result {
        self.0.fmt(f)
    }
}

fn wrap(cf: ControlFlow<QueryParamError, QueryParamError>) -> ControlFlow<QpErr, QpErr> {
    match cf {
        ControlFlow::Continue(e) => ControlFlow::Continue(QpErr(e)),
        ControlFlow::Break(e) => ControlFlow::Break(QpErr(e)),
    }
}

impl DeserializeError for QpErr {
    fn error<V: IntoValue>(
        self_: Option<Self>,
        error: ErrorKind<V>,
        location: ValuePointerRef,
    ) -> ControlFlow<Self, Self> {
        wrap(QueryParamError::error(self_.map(|s| s.0), error, location))
    }
}

impl MergeWithError<QpErr> for QpErr {
    fn merge(self_: Option<Self>, other: QpErr, merge_location: ValuePointerRef) -> ControlFlow<Self, Self> {
        wrap(<QueryParamError as MergeWithError<QueryParamError>>::merge(
            self_.map(|s| s.0),
            other.0,
            merge_location,
        ))
    }
}

impl MergeWithError<ParseIntError> for QpErr {
    fn merge(self_: Option<Self>, other: ParseIntError, merge_location: ValuePointerRef) -> ControlFlow<Self, Self> {
        wrap(<QueryParamError as MergeWithError<ParseIntError>>::merge(self_.map(|s| s.0), other, merge_location))
    }
}

impl actix_web::ResponseError for QpErr {
    fn status_code(&self) -> actix_web::http::StatusCode {
        actix_web::http::StatusCode::BAD_REQUEST
    }
    fn error_response(&self) -> actix_web::HttpResponse<actix_web::body::BoxBody> {
        actix_web::HttpResponseBuilder::new(self.status_code()).content_type("text/plain").body(self.to_string())
    }
}

impl axum::response::IntoResponse for QpErr {
    fn into_response(self) -> axum::response::Response {
        (http::StatusCode::BAD_REQUEST, self.to_string()).into_response()
    }
}

impl Expect for QpErr {
    const NAME: &'static str = "QueryParamError";
    fn expected_status(&self) -> u16 {
        400
    }
    fn expected_content_type(&self) -> &'static str {
        "text/plain"
    }
    fn expected_body(&self) -> Vec<u8> {
        self.to_string().into_bytes()
    }
    fn shape(&self) -> String {
        strip_quoted(&self.to_string())
    }
}

#[allow(dead_code)]
fn _unused(_: Infallible) {}
